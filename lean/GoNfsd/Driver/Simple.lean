import GoNfsd.Driver.Util
import GoNfsd.Model.Simple

namespace GoNfsd.Driver.Simple
open GoNfsd.Driver GoNfsd.Model.Simple

def stNum : SStatus → String
  | .ok => "0" | .inval => "22" | .nospc => "28" | .serverfault => "10006" | .notsupp => "10004" | .noent => "2"

def replyToks : SReply → List String
  | .status st => [stNum st]
  | .attr k sz id => ["0", toString k, toString sz, toString id]
  | .read n eof d => ["0", toString n, if eof then "1" else "0", toHex d]
  | .write n => ["0", toString n, "2"]     -- committed = FILE_SYNC whatever was asked for
  | .lookup i => ["0", toString i]

def parseOp (ws : List String) : Option SOp :=
  match ws with
  | ["sgetattr", fh] => do pure (.getattr (← hexBytes fh))
  | ["ssetattr", fh, sz] => do
    let size ← if sz = "-" then some none else sz.toNat?.map some
    pure (.setattr (← hexBytes fh) size)
  | ["sread", fh, off, cnt] => do pure (.read (← hexBytes fh) (← off.toNat?) (← cnt.toNat?))
  | ["swrite", fh, off, cnt, d] => do pure (.write (← hexBytes fh) (← off.toNat?) (← cnt.toNat?) (← hexBytes d))
  | ["slookup", n] => do pure (.lookup (← hexBytes n))
  | ["scommit", fh] => do pure (.commit (← hexBytes fh))
  | ["sunsup", _] => some .unsupported
  | _ => none

/-- all orders of a (short) list -/
def perms {α : Type} : List α → List (List α)
  | [] => [[]]
  | x :: xs => (perms xs).flatMap fun p => (List.range (p.length + 1)).map fun i => p.take i ++ [x] ++ p.drop i

/-- model state, and the operations of a concurrent round being collected -/
structure DSt where
  st : SState := init
  round : Option (List (SOp × List String)) := none

def splitLine (ws : List String) : List String × List String :=
  (ws.takeWhile (· ≠ "=>"), (ws.dropWhile (· ≠ "=>")).drop 1)

/-- run the operations in the given order; every reply must be the model's -/
def runOrder (st : SState) : List (SOp × List String) → Option SState
  | [] => some st
  | (op, rhs) :: rest =>
    let (st', r) := GoNfsd.Model.Simple.step st op
    if replyToks r = rhs then runOrder st' rest else none

def step (d : DSt) (line : String) : DSt × Option String :=
  let ws := words line
  let st := d.st
  match ws with
  | ["sinit"] => ({}, none)
  | ["srestart"] => (d, none)   -- the server is started again on the same disk (`simple.MakeNfs` / `simple.Recover`): nothing changes
  | ["sround-begin"] => ({ d with round := some [] }, none)
  | "sround-end" :: final =>
    -- the operations of the round ran concurrently: SOME order of them must explain every reply
    -- and the final read
    match d.round, parseOp (splitLine final).1 with
    | some ops, some fop =>
      let frhs := (splitLine final).2
      let good := (perms ops).filterMap fun order =>
        match runOrder st order with
        | some stF => if replyToks (GoNfsd.Model.Simple.step stF fop).2 = frhs then some stF else none
        | none => none
      match good with
      | stF :: _ => ({ st := stF, round := none }, none)
      | [] => ({ st := st, round := none }, some s!"no order of the {ops.length} concurrent requests explains their replies and the final contents: not linearizable")
    | _, _ => ({ d with round := none }, some "bad sround-end line")
  | _ =>
    let (lhs, rhs) := splitLine ws
    match parseOp lhs with
    | none => (d, some "unparsable operation")
    | some op =>
      match d.round with
      | some ops => ({ d with round := some (ops ++ [(op, rhs)]) }, none)
      | none =>
      let (st', r) := GoNfsd.Model.Simple.step st op
      let mt := replyToks r
      ({ d with st := st' }, if mt = rhs then none else
        some s!"reply differs: model [{" ".intercalate (mt.map fun t => (t.take 60).toString)}] impl [{" ".intercalate (rhs.map fun t => (t.take 60).toString)}]")

def main : IO UInt32 := runLines ({} : DSt) step

end GoNfsd.Driver.Simple

import GoNfsd.Driver.Util
import GoNfsd.Model.Simple

namespace GoNfsd.Driver.Simple
open GoNfsd.Driver GoNfsd.Model.Simple

def stNum : SStatus → String
  | .ok => "0" | .inval => "22" | .nospc => "28" | .serverfault => "10006" | .notsupp => "10004" | .noent => "2"

def replyToks : SReply → List String
  | .status st => [stNum st]
  | .attr k sz id => ["0", toString k, toString sz, toString id]
  | .read n eof d => ["0", toString n, if eof then "1" else "0", toHex d]
  | .write n => ["0", toString n]
  | .lookup i => ["0", toString i]

def parseOp (ws : List String) : Option SOp :=
  match ws with
  | ["sgetattr", fh] => do pure (.getattr (← hexBytes fh))
  | ["ssetattr", fh, sz] => do
    let size ← if sz = "-" then some none else sz.toNat?.map some
    pure (.setattr (← hexBytes fh) size)
  | ["sread", fh, off, cnt] => do pure (.read (← hexBytes fh) (← off.toNat?) (← cnt.toNat?))
  | ["swrite", fh, off, cnt, d] => do pure (.write (← hexBytes fh) (← off.toNat?) (← cnt.toNat?) (← hexBytes d))
  | ["slookup", n] => do pure (.lookup (← hexBytes n))
  | ["scommit", fh] => do pure (.commit (← hexBytes fh))
  | ["sunsup", _] => some .unsupported
  | _ => none

def step (st : SState) (line : String) : SState × Option String :=
  let ws := words line
  match ws with
  | ["sinit"] => (init, none)
  | _ =>
    let lhs := ws.takeWhile (· ≠ "=>")
    let rhs := (ws.dropWhile (· ≠ "=>")).drop 1
    match parseOp lhs with
    | none => (st, some "unparsable operation")
    | some op =>
      let (st', r) := GoNfsd.Model.Simple.step st op
      let mt := replyToks r
      (st', if mt = rhs then none else
        some s!"reply differs: model [{" ".intercalate (mt.map fun t => (t.take 60).toString)}] impl [{" ".intercalate (rhs.map fun t => (t.take 60).toString)}]")

def main : IO UInt32 := runLines init step

end GoNfsd.Driver.Simple

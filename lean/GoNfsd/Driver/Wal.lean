import Std.Data.HashMap
import GoNfsd.Driver.Util
import GoNfsd.Model.Wal

/-! `walcheck`: maps the disk trace recorded from a real run onto the protocol steps of
    Model/Wal.lean and checks every guard — the hypothesis of the crash theorem, observed to hold
    of what go-journal actually did — and that the contents written are those the model assumes
    (slots written sequentially; header 1 carries the addresses of the logged positions; the
    installer writes each logged position to the address and with the content logged for it). -/
namespace GoNfsd.Driver.Wal
open GoNfsd.Driver GoNfsd.Model.Wal

structure W where
  st : St := init
  addrOf : Std.HashMap Nat Nat := {}       -- position ↦ home address (from header 1)
  blkOf : Std.HashMap Nat String := {}     -- position ↦ digest of the logged block
  formatting : Bool := true               -- before the first slot write: direct writes are the base image
  steps : Nat := 0

def bad (w : W) (msg : String) : W × Option String := (w, some msg)

def step (w : W) (line : String) : W × Option String :=
  let s := w.st
  match words line with
  | ["wt", "begin", _] => ({}, none)
  | ["wt", "end"] => (w, none)
  | ["wt", "b"] => ({ w with st := GoNfsd.Model.Wal.step s .barrier, steps := w.steps + 1 }, none)
  | ["wt", "s", idx, dig] =>
    match idx.toNat? with
    | none => bad w "bad slot index"
    | some i =>
      let p := s.slotEnd
      if p % L ≠ i then bad w s!"slot write to index {i}, but the next log position {p} lives in slot {p % L}"
      else if ¬ (s.slotEnd < s.sD + L) then bad w s!"slot write for position {p} would overwrite an entry that is not installed (durable start {s.sD})"
      else ({ w with st := GoNfsd.Model.Wal.step s .slot, blkOf := w.blkOf.insert p dig, formatting := false, steps := w.steps + 1 }, none)
  | ["wt", "h1", e, addrs] =>
    match e.toNat?, (addrs.splitOn ",").mapM (·.toNat?) with
    | some e, some as =>
      if as.length ≠ L then bad w "header 1 does not carry 511 addresses"
      else if ¬ (s.eIssued ≤ e ∧ e ≤ s.slotDur ∧ e ≤ s.sD + L) then
        bad w s!"header 1 with end {e} written before its slots are durable or beyond the log capacity (issued end {s.eIssued}, durable slots up to {s.slotDur}, durable start {s.sD})"
      else
        -- addresses of the newly covered positions; those of still-live older positions unchanged
        let lo := if e ≥ L then e - L else 0
        let chk := (List.range' lo (e - lo)).foldl (fun (acc : Std.HashMap Nat Nat × Option String) p =>
          let a := as.getD (p % L) 0
          match acc.1.get? p with
          | some old => if old = a || p < s.sD then acc else (acc.1, some s!"header 1 changes the address of live position {p} from {old} to {a}")
          | none => (acc.1.insert p a, acc.2)) (w.addrOf, none)
        match chk.2 with
        | some m => bad w m
        | none => ({ w with st := GoNfsd.Model.Wal.step s (.hdr1 e), addrOf := chk.1, steps := w.steps + 1 }, none)
    | _, _ => bad w "bad header 1 line"
  | ["wt", "h2", x] =>
    match x.toNat? with
    | none => bad w "bad header 2 line"
    | some x =>
      if ¬ (s.sIssued ≤ x ∧ x ≤ s.homeDur) then
        bad w s!"header 2 with start {x} written before the home writes below it are durable (durably installed up to {s.homeDur}, issued start {s.sIssued})"
      else ({ w with st := GoNfsd.Model.Wal.step s (.hdr2 x), steps := w.steps + 1 }, none)
  | ["wt", "m", addr, dig] =>
    match addr.toNat? with
    | none => bad w "bad home write line"
    | some a =>
      if w.formatting then (w, none)    -- formatting writes the base image directly
      else
        let p := s.homeCur
        if ¬ (p < s.eD) then bad w s!"write to block {a} outside the journal protocol: it is not the installation of a durably logged position (next position to install {p}, durable end {s.eD})"
        else if w.addrOf.get? p ≠ some a then bad w s!"home write to block {a}, but the next logged position {p} belongs to block {(w.addrOf.get? p).getD 0}"
        else if w.blkOf.get? p ≠ some dig then bad w s!"home write of position {p} to block {a} does not carry the logged content"
        else ({ w with st := GoNfsd.Model.Wal.step s .home, steps := w.steps + 1 }, none)
  | _ => bad w "unknown trace line"

def main : IO UInt32 := runLines ({} : W) step

end GoNfsd.Driver.Wal

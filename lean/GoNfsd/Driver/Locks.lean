import GoNfsd.Driver.Util
import GoNfsd.Model.Locks
import GoNfsd.Model.LockSched

/-! `locks`: validates the recorded lock/commit event traces of real transactions against the
    discipline of Model/Locks.lean (ascending acquisition, two-phase shape). -/
namespace GoNfsd.Driver.Locks
open GoNfsd.Driver GoNfsd.Model.Locks

def parseEv (t : String) : Option Ev :=
  match t.toList with
  | 'a' :: r => (String.ofList r).toNat?.map .acq
  | 'r' :: r => (String.ofList r).toNat?.map .rel
  | ['c'] => some .commit
  | ['u'] => some .commit      -- a commit that did not wait for the disk (see `earlyReveal`)
  | ['f'] => some .abort       -- a commit the journal refused takes the abort path
  | ['x'] => some .abort
  | _ => none

def parseName (t : String) : Option NameEv :=
  match t.toList with
  | 'l' :: r => (String.ofList r).toNat?.map .lookup
  | 'i' :: r => (String.ofList r).toNat?.map .insert
  | _ => none

def isNameTok (t : String) : Bool := t.startsWith "l" || t.startsWith "i"

/-- split the token list at "|" into transactions (each starts with "T") -/
def splitTxns (ws : List String) : List (List String) :=
  let rec go : List String → List String → List (List String) → List (List String)
    | [], cur, acc => (cur.reverse :: acc).reverse
    | "|" :: rest, cur, acc => go rest [] (cur.reverse :: acc)
    | w :: rest, cur, acc => go rest (w :: cur) acc
  go ws [] []

def acqs (evs : List Ev) : List Nat := evs.filterMap fun | .acq n => some n | _ => none

def checkTxn (op : String) (evs : List Ev) : Option String :=
  let as := acqs evs
  let aborted := evs.contains .abort
  let committed := evs.contains .commit
  -- a creating operation locks the number it has just allocated after the directory
  let fresh := if op = "create" || op = "mkdir" || op = "symlink" then as.drop 1 else []
  -- locks dropped at once: stale/free inodes (the transaction then aborts), READDIRPLUS children
  let early := if aborted && !committed then as else if op = "readdirplus" then as.drop 1 else []
  if !ascendingFrom fresh evs [] then some "lock acquisitions are not in ascending inode order (or a lock is taken twice)"
  else if !twoPhase early evs false [] then some "not two-phase: a lock is released before the commit point, acquired after it, or never released"
  else if committed && aborted then some "transaction both committed and aborted"
  else none

/-- restarts a request of a sequential run may take on its own account: RENAME over an existing
    target locks the directories, looks the names up, aborts and locks all three or four inodes in
    order; a LOOKUP / READDIRPLUS of a child numbered below its directory does the same -/
def freeRestarts : Nat := 1

/-- `S` / `B` transactions (sequential run: the request's own and the background shrinker's) as
    (own, committed) pairs, for `LockSched.retriesCharged` -/
def outcomes (txns : List (List String)) : List (Bool × Bool) :=
  txns.filterMap fun t =>
    match t with
    | "S" :: toks => some (true, toks.contains "c" || toks.contains "u")
    | "B" :: toks => some (false, toks.contains "c" || toks.contains "u")
    | _ => none

/-- M14 (`Model/Reveal`, `Props/C03.what_another_transaction_reads_is_durable`): the discipline
    "a transaction gives its locks back only when nothing of it is pending, unstable WRITEs aside",
    on the recorded events: `u` is the commit of a transaction that wrote something and did not wait
    for the disk; its locks are released right after it.  Only WRITE may do that. -/
def earlyReveal (op : String) (toks : List String) : Bool := toks.contains "u" && op ≠ "write"

def isMark (m : String) : Bool := m = "T" || m = "S" || m = "B"

def step (_ : Unit) (line : String) : Unit × Option String :=
  match words line with
  | "LOCKS" :: op :: "::" :: rest =>
    let txns := (splitTxns rest).filter (· ≠ [])
    let bad := txns.filterMap fun t =>
      match t with
      | m :: toks =>
        if !isMark m then some "transaction does not start with T, S or B" else
        let evs := toks.filter (!isNameTok ·)
        match evs.mapM parseEv, (toks.filter isNameTok).mapM parseName with
        | some es, some ns =>
          match checkTxn op es with
          | some m => some m
          | none =>
            if earlyReveal op toks then some "locks are given back while the transaction's changes are only in the journal's memory (commit without waiting for the disk): the next holder is answered from changes a crash undoes"
            else if insertsChecked ns [] then none
            else some "a name is inserted into a directory without having been looked up in the same transaction (check and insert are not atomic)"
        | _, _ => some "unparsable event"
      | _ => some "empty transaction"
    let retry :=
      if GoNfsd.Model.LockSched.retriesCharged freeRestarts false (outcomes txns) then none
      else some "a request restarted its transaction more often than its budget allows without any other transaction having committed in between (retries are not charged to anybody: livelock)"
    ((), (bad.head?).orElse fun _ => retry)
  | _ => ((), some "unknown line")

def main : IO UInt32 := runLines () step

end GoNfsd.Driver.Locks

import GoNfsd.Driver.Util
import GoNfsd.Model.Fsck

/-! `fsck`: reads images of the logical disk (decoded by the harness with the repository's own
    decoders) and runs the structure checker `fsckOk` whose soundness is `Props.C04.fsck_sound`.
    Each image is checked strictly (`moved = []`); when that fails, leniently with the
    directories the harness reports as moved by a cross-directory RENAME (known finding). -/
namespace GoNfsd.Driver.Fsck
open GoNfsd.Driver GoNfsd.Model.Fsck

def expand (rs : List (Nat × Nat)) : List Nat := rs.flatMap fun (a, b) => List.range' a (b - a)

def parseNats (s : String) : Option (List Nat) :=
  if s = "-" then some [] else (s.splitOn ",").mapM (·.toNat?)

def parsePairs (s : String) : Option (List (Nat × Nat)) :=
  if s = "-" then some [] else
  (s.splitOn ",").mapM fun r =>
    match r.splitOn ":" with
    | [a, b] => do let x ← a.toNat?; let y ← b.toNat?; pure (x, y)
    | _ => none

def parseEnts (s : String) : Option (List Ent) :=
  if s = "-" then some [] else
  (s.splitOn ",").mapM fun r =>
    match r.splitOn ":" with
    | [a, b, c] => do let x ← a.toNat?; let y ← b.toNat?; let n ← hexBytes c; pure { slot := x, inum := y, name := n }
    | _ => none

structure St where
  img : Image := default
  label : String := ""
  moved : List Nat := []
  open_ : Bool := false
  count : Nat := 0
  -- input distribution, for the evidence
  nQuiescent : Nat := 0
  nHalfFreed : Nat := 0      -- images with a free inode still holding blocks
  nWithMoved : Nat := 0
  sumLive : Nat := 0
  sumOwned : Nat := 0
  maxOwned : Nat := 0
  nIndirect : Nat := 0       -- images with at least one indirect block
  nDirs : Nat := 0

def blank (sz : Nat) (q : Bool) : Image :=
  { sz := sz, quiescent := q, inodes := [], ind := [], dirs := [], bruns := [], iruns := [], abruns := none, airuns := none, moved := [] }

inductive Out where
  | none | ok (label : String) | known (label : String) (what : String) | bad (msg : String)

def step (s : St) (line : String) : St × Out :=
  let img := s.img
  match words line with
  | "img" :: "begin" :: sz :: q :: label =>
    match sz.toNat? with
    | some n => ({ s with img := blank n (q == "1"), label := " ".intercalate label, moved := [], open_ := true }, .none)
    | none => (s, .bad "bad image header")
  | ["ino", i, k, nl, g, sz, sh, bl] =>
    match i.toNat?, k.toNat?, nl.toNat?, g.toNat?, sz.toNat?, sh.toNat?, parseNats bl with
    | some i, some k, some nl, some g, some sz, some sh, some bl =>
      ({ s with img := { img with inodes := img.inodes ++ [{ inum := i, kind := k, nlink := nl, gen := g, size := sz, shrink := sh, blks := bl }] } }, .none)
    | _, _, _, _, _, _, _ => (s, .bad "bad ino line")
  | ["ind", b, es] =>
    match b.toNat?, parsePairs es with
    | some b, some es => ({ s with img := { img with ind := img.ind ++ [(b, es)] } }, .none)
    | _, _ => (s, .bad "bad ind line")
  | ["dir", d, es] =>
    match d.toNat?, parseEnts es with
    | some d, some es => ({ s with img := { img with dirs := img.dirs ++ [(d, es)] } }, .none)
    | _, _ => (s, .bad "bad dir line")
  | ["bb", r] => match parseRuns r with
    | some r => ({ s with img := { img with bruns := r } }, .none)
    | none => (s, .bad "bad bb line")
  | ["ib", r] => match parseRuns r with
    | some r => ({ s with img := { img with iruns := r } }, .none)
    | none => (s, .bad "bad ib line")
  | ["ab", r] => match parseRuns r with
    | some r => ({ s with img := { img with abruns := some r } }, .none)
    | none => (s, .bad "bad ab line")
  | ["ai", r] => match parseRuns r with
    | some r => ({ s with img := { img with airuns := some r } }, .none)
    | none => (s, .bad "bad ai line")
  | ["moved", r] => match parseNats r with
    | some r => ({ s with moved := r }, .none)
    | none => (s, .bad "bad moved line")
  | ["img", "end"] =>
    let ownedN := (allOwned img).length
    let halfFreed : Nat := if img.inodes.any (fun i => i.kind == 0 && !((owned img i).isEmpty)) then 1 else 0
    let s1 : St := { s with open_ := false, count := s.count + 1 }
    let s2 : St := { s1 with nQuiescent := s.nQuiescent + (if img.quiescent then 1 else 0), nHalfFreed := s.nHalfFreed + halfFreed }
    let s3 : St := { s2 with nWithMoved := s.nWithMoved + (if s.moved.isEmpty then 0 else 1), sumLive := s.sumLive + (live img).length }
    let s4 : St := { s3 with sumOwned := s.sumOwned + ownedN, maxOwned := max s.maxOwned ownedN }
    let s' : St := { s4 with nIndirect := s.nIndirect + (if img.ind.isEmpty then 0 else 1), nDirs := s.nDirs + (dirInodes img).length }
    if fsckOk img then (s', .ok s.label)
    else
      let why := " ".intercalate (failing img)
      let lenient := { img with moved := s.moved }
      if !s.moved.isEmpty && fsckOk lenient then (s', .known s.label why)
      else (s', .bad s!"{why} :: {s.label}")
  | _ => (s, .bad "unknown line")

partial def main : IO UInt32 := do
  let stdin ← IO.getStdin
  let rec loop (st : St) (bad : Nat) : IO (Nat × Nat) := do
    let line ← stdin.getLine
    if line.isEmpty then
      IO.println s!"stats images={st.count} quiescent={st.nQuiescent} with-half-freed-object={st.nHalfFreed} with-moved-directory={st.nWithMoved} live-inodes={st.sumLive} directories={st.nDirs} owned-blocks={st.sumOwned} max-owned-blocks={st.maxOwned} with-indirect-blocks={st.nIndirect}"
      return (st.count, bad)
    let l := line.trimAsciiEnd.toString
    if l.isEmpty || l.startsWith "#" then loop st bad else
    let (st', r) := step st l
    match r with
    | .none => loop st' bad
    | .ok _ => loop st' bad
    | .known label why =>
      IO.println s!"KNOWN {st'.count} {why} :: {label}"
      loop st' bad
    | .bad msg =>
      IO.println s!"MISMATCH {st'.count} {msg}"
      loop st' (bad + 1)
  let (n, bad) ← loop {} 0
  IO.println s!"done {n} {bad}"
  return (if bad == 0 then 0 else 1)

end GoNfsd.Driver.Fsck

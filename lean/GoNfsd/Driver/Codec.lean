import GoNfsd.Driver.Util
import GoNfsd.Model.Codec

namespace GoNfsd.Driver.Codec
open GoNfsd.Driver GoNfsd.Model.Codec

def nats (ws : List String) : Option (List Nat) := ws.mapM (·.toNat?)

def step (_ : Unit) (line : String) : Unit × Option String :=
  match words line with
  | "cinode" :: hexin :: rest =>
    match hexBytes hexin, rest.reverse with
    | some bs, hexenc :: fieldsRev =>
      match nats fieldsRev.reverse with
      | some [kind, nlink, gen, size, shrink, as, an, ms, mn, b0, b1, b2, b3, b4, b5, b6, b7, b8, b9] =>
        let impl : DInode := { kind, nlink, gen, size, shrinkSize := shrink, atimeSec := as, atimeNsec := an,
                               mtimeSec := ms, mtimeNsec := mn, blks := [b0, b1, b2, b3, b4, b5, b6, b7, b8, b9] }
        let m := decodeInode bs
        if m ≠ impl then ((), some s!"decodeInode differs: model {repr m}")
        else if toHex (encodeInode impl) ≠ hexenc then ((), some s!"encodeInode differs: model {toHex (encodeInode impl)}")
        else ((), none)
      | _ => ((), some "bad cinode fields")
    | _, _ => ((), some "bad cinode line")
  | ["cdirent", inum, namehex, hexenc] =>
    match inum.toNat?, hexBytes namehex with
    | some i, some n =>
      if toHex (encodeDirEnt i n) ≠ hexenc then ((), some s!"encodeDirEnt differs: model {toHex (encodeDirEnt i n)}")
      else ((), none)
    | _, _ => ((), some "bad cdirent line")
  | ["cdirdec", hexin, ok, inum, namehex] =>
    match hexBytes hexin with
    | some bs =>
      match decodeDirEnt bs with
      | none => ((), if ok = "0" then none else some "model: decodeDirEnt panics, implementation decodes")
      | some (i, n) =>
        if ok = "0" then ((), some "implementation panics, model decodes")
        else if toString i ≠ inum || toHex n ≠ namehex then ((), some s!"decodeDirEnt differs: model {i} {toHex n}")
        else ((), none)
    | none => ((), some "bad hex")
  | ["cfh", hexin, ino, gen] =>
    match hexBytes hexin with
    | some bs =>
      let (i, g) := parseFh bs
      ((), if toString i = ino && toString g = gen then none else some s!"MakeFh differs: model ({i},{g})")
    | none => ((), some "bad hex")
  | ["cfh3", ino, gen, hexout] =>
    match ino.toNat?, gen.toNat? with
    | some i, some g => ((), if toHex (mkFh i g) = hexout then none else some s!"MakeFh3 differs: model {toHex (mkFh i g)}")
    | _, _ => ((), some "bad cfh3")
  | _ => ((), some "unknown command")

def main : IO UInt32 := runLines () step

end GoNfsd.Driver.Codec

/-
M2 (allocator part): model of go-journal's `alloc.Alloc` (bitmap allocator with a roving
`next` pointer), as used by go-nfsd for block and inode numbers.  Hand-written; tied to the
Go code by the `alloc` correspondence run (random op sequences on both sides).

Go:                                   model:
  a.next, a.bitmap []byte               `next`, `bits : List Bool` (bit i = number i,
                                         i.e. byte i/8, bit i%8; length = 8*len(bitmap))
  incNext / allocBit / freeBit          `incNext` / `allocBit` / `freeBit`
-/
namespace GoNfsd.Model.Alloc

structure Alloc where
  next : Nat
  bits : List Bool
  deriving Repr, DecidableEq

namespace Alloc

def size (a : Alloc) : Nat := a.bits.length

/-- `MkAlloc(bitmap)`. -/
def mk' (bits : List Bool) : Alloc := { next := 0, bits := bits }

def incNext (a : Alloc) : Alloc :=
  { a with next := if a.next + 1 ≥ a.size then 0 else a.next + 1 }

/-- the `for` loop of `allocBit`; `fuel` bounds the number of iterations (the loop runs at most
    `size` times before `num == start`). Returns the new allocator and the number (0 = none). -/
def scan (a : Alloc) (start : Nat) : Nat → Alloc × Nat
  | 0 => (a, 0)
  | fuel + 1 =>
    if a.bits.getD a.next true = false then
      ({ a with bits := a.bits.set a.next true }, a.next)
    else
      let a' := a.incNext
      if a'.next = start then (a', 0) else scan a' start fuel

def allocBit (a : Alloc) : Alloc × Nat :=
  let a1 := a.incNext
  scan a1 a1.next a.size

/-- `AllocNum` -/
def allocNum (a : Alloc) : Alloc × Nat := a.allocBit

def freeBit (a : Alloc) (n : Nat) : Alloc := { a with bits := a.bits.set n false }

/-- `FreeNum`: panics on 0 (modelled as `none`); an out-of-range number panics in Go
    (index out of range) and is `none` here as well. -/
def freeNum (a : Alloc) (n : Nat) : Option Alloc :=
  if n = 0 ∨ n ≥ a.size then none else some (a.freeBit n)

def markUsed (a : Alloc) (n : Nat) : Alloc := { a with bits := a.bits.set n true }

def numFree (a : Alloc) : Nat := a.bits.count false

/-- allocate repeatedly until the allocator reports 0, at most `k` times -/
def allocMany (a : Alloc) : Nat → Alloc × List Nat
  | 0 => (a, [])
  | k + 1 =>
    let (a', r) := a.allocNum
    if r = 0 then (a', []) else
      let (a'', rs) := allocMany a' k
      (a'', r :: rs)

end Alloc
end GoNfsd.Model.Alloc

/-
M10b: strict two-phase locking with updates in place — why replaying a concurrent history in
COMMIT ORDER on a sequential model reproduces it.  Transactions lock objects (inodes), read and
modify them in place while holding the lock (the cached inode, the blocks it owns), and release
everything at commit.  Next to the objects as they really are (`A`) the model keeps the objects
as the transactions committed so far would have left them had they run ONE AFTER THE OTHER in
commit order (`C`), and what each of them would have read then (`sreads`).
Hand-written; what ties it to the code are the lock traces (every access of an inode under its
lock, every lock held to the commit: `drv locks`, C14's skeletons) and the commit-order replay.
-/
namespace GoNfsd.Model.Serial

abbrev Val := Nat

/-- read-modify-write of one object (a pure read is `f = id`) -/
structure Act where
  obj : Nat
  f : Val → Val

inductive Ev where
  | acq (t o : Nat)          -- transaction t gets the lock of object o
  | act (t : Nat) (a : Act)  -- t reads and updates an object in place
  | commit (t : Nat)         -- t commits and releases all its locks

structure St where
  A : Nat → Val                     -- the objects as they are
  held : Nat → Option Nat           -- object ↦ holder of its lock
  C : Nat → Val                     -- the objects after the committed transactions, run serially
  pend : Nat → List Act             -- what an open transaction has done so far, oldest first
  reads : List (Nat × Nat × Val)    -- (transaction, object, value read), as it happened
  sreads : List (Nat × Nat × Val)   -- the same for the serial execution in commit order

/-- run a transaction's actions one after the other: (state, values read) -/
def runSerial (t : Nat) : List Act → (Nat → Val) → (Nat → Val) × List (Nat × Nat × Val)
  | [], c => (c, [])
  | a :: rest, c =>
    let c' : Nat → Val := fun o => if o = a.obj then a.f (c a.obj) else c o
    let r := runSerial t rest c'
    (r.1, (t, a.obj, c a.obj) :: r.2)

def step (s : St) : Ev → St
  | .acq t o => { s with held := fun x => if x = o then some t else s.held x }
  | .act t a =>
    { s with A := fun o => if o = a.obj then a.f (s.A a.obj) else s.A o,
             pend := fun u => if u = t then s.pend t ++ [a] else s.pend u,
             reads := s.reads ++ [(t, a.obj, s.A a.obj)] }
  | .commit t =>
    { s with C := (runSerial t (s.pend t) s.C).1,
             sreads := s.sreads ++ (runSerial t (s.pend t) s.C).2,
             pend := fun u => if u = t then [] else s.pend u,
             held := fun o => if s.held o = some t then none else s.held o }

/-- what the lock manager and the code's discipline guarantee -/
def Allowed (s : St) : Ev → Prop
  | .acq _ o => s.held o = none
  | .act t a => s.held a.obj = some t
  | .commit _ => True

def run (s : St) : List Ev → St
  | [] => s
  | e :: rest => run (step s e) rest

def AllowedAll : St → List Ev → Prop
  | _, [] => True
  | s, e :: rest => Allowed s e ∧ AllowedAll (step s e) rest

def init (v : Nat → Val) : St :=
  { A := v, held := fun _ => none, C := v, pend := fun _ => [], reads := [], sreads := [] }

def Quiescent (s : St) : Prop := (∀ o, s.held o = none) ∧ ∀ t, s.pend t = []

end GoNfsd.Model.Serial

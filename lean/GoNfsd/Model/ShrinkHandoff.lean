/-
M15 "ShrinkHandoff": who finishes a truncation that was too large for the request's own transaction.

`Resize` leaves `ShrinkSize` above the size ("pending") and the request calls `StartShrinker(inum)`, which starts a
thread running `DoShrink(inum)`: transactions that each free a bounded number of blocks, until `Shrink` reports
nothing more to do; then the thread decrements `nthread` and exits.  Other requests that meet a pending inode
(`getShrink`, `getAlloc`) run `DoShrink` themselves.  A removed file's inode is unreachable: if its truncation is
pending and nobody is going to look at it, its blocks stay allocated until the number is reused — so the property
"once background freeing has finished everything is given back" (C05) needs:

    at any moment, every pending inode has a thread that will still look at it.

State: the pending inodes and the threads, each either still inside `DoShrink`'s loop (`looping = true`: it will
take the inode's lock again and see what is pending then) or past its last look (`looping = false`: between the last
commit and the exit).  The policy `spawn` says whether `StartShrinker` starts a thread given the threads there are;
the code's policy is "always" (checked on the regenerated statement list of `StartShrinker`).
-/
namespace GoNfsd.Model.ShrinkHandoff

structure Thread where
  inum : Nat
  looping : Bool
  deriving DecidableEq, Repr

structure St where
  pending : List Nat := []
  threads : List Thread := []
  deriving Repr

inductive Ev where
  | request (i : Nat)            -- a committed transaction leaves inode `i` pending and calls `StartShrinker i`
  | round (k : Nat) (more : Bool) -- thread number `k`, inside the loop, runs one transaction on its inode
  | help (i : Nat)               -- another request finishes the truncation of `i` itself (`getShrink`, `getAlloc`)
  | exit (k : Nat)               -- thread number `k`, past its last look, goes away
  deriving Repr

/-- `StartShrinker`'s decision: given the threads there are and the inode, start one? -/
abbrev Policy := List Thread → Nat → Bool

def always : Policy := fun _ _ => true

/-- the "deduplicating" policy of seeded change C05m: none if a thread for this inode exists, in whatever phase -/
def dedupe : Policy := fun ts i => !(ts.any fun t => t.inum = i)

def step (spawn : Policy) (s : St) : Ev → St
  | .request i =>
    { pending := if s.pending.contains i then s.pending else i :: s.pending,
      threads := if spawn s.threads i then s.threads ++ [{ inum := i, looping := true }] else s.threads }
  | .round k more =>
    match s.threads[k]? with
    | some t =>
      if t.looping then
        -- one transaction under the inode's lock: either there is more to free, or the inode is done and this was the last look
        if more && s.pending.contains t.inum then s
        else { pending := s.pending.filter (· != t.inum), threads := s.threads.set k { t with looping := false } }
      else s
    | none => s
  | .help i => { s with pending := s.pending.filter (· != i) }
  | .exit k =>
    match s.threads[k]? with
    | some t => if t.looping then s else { s with threads := s.threads.eraseIdx k }
    | none => s

def run (spawn : Policy) (s : St) (evs : List Ev) : St := evs.foldl (step spawn) s

end GoNfsd.Model.ShrinkHandoff

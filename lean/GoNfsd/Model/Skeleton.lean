/-
Control skeletons of the transaction code (regenerated into Gen/Skeleton.lean by the
translator) and their abstract execution: which inode variables may point to an inode whose
lock has been released.  `fin` (commit / abort) releases every lock, so every variable that
points to an inode becomes stale; a `use v` of a stale `v` is an access to an inode the code
no longer holds.  The execution is path-sensitive in the boolean flags the code uses to
remember that it is done (`done`, `success`): abstract states are kept as a set, not joined.
-/
namespace GoNfsd.Model.Skeleton

inductive Sk where
  | acq (v : String)            -- v receives a freshly locked inode
  | copy (dst src : String)     -- pointer copy: dst is as stale as src
  | kill (v : String)           -- v := nil
  | use (v : String)            -- the inode v points to is read, written or passed on
  | fin                         -- the transaction ends: all locks released
  | setFlag (f : String) (b : Bool)     -- f = true / f = false
  | assume (f : String) (b : Bool)      -- this path is taken only if flag f has value b
  | ret | brk | cont
  | seq (l : List Sk)
  | branch (alts : List Sk)
  | loop (body : Sk)
  deriving Repr, Inhabited

/-- one abstract state: `pts` = variables pointing to an inode; `stale` = those whose inode's
    lock has been released; `flags` = known values of boolean flags.  Lists are kept sorted. -/
structure St where
  pts : List String := []
  stale : List String := []
  flags : List (String × Bool) := []
  deriving Inhabited, Repr, DecidableEq

def ins (x : String) : List String → List String
  | [] => [x]
  | y :: ys => if x = y then y :: ys else if x < y then x :: y :: ys else y :: ins x ys

def setF (f : String) (b : Bool) : List (String × Bool) → List (String × Bool)
  | [] => [(f, b)]
  | (g, c) :: r => if f = g then (g, b) :: r else if f < g then (f, b) :: (g, c) :: r else (g, c) :: setF f b r

/-- sets of states as duplicate-free lists -/
def addSt (s : St) (l : List St) : List St := if l.contains s then l else l ++ [s]
def unionSt (a b : List St) : List St := b.foldl (fun acc s => addSt s acc) a

structure Out where
  normal : List St := []       -- falls through
  brk : List St := []          -- leaves the enclosing loop
  cont : List St := []         -- next iteration of the enclosing loop
  ok : Bool := true            -- no use of a stale variable on any path so far
  deriving Inhabited

def Out.merge (a b : Out) : Out :=
  { normal := unionSt a.normal b.normal, brk := unionSt a.brk b.brk, cont := unionSt a.cont b.cont, ok := a.ok && b.ok }

/-- run a state transformer from each of a set of states and merge the outcomes -/
def runAll (f : St → Out) (ss : List St) : Out := ss.foldl (fun acc s => acc.merge (f s)) {}

mutual
def exec : Sk → St → Out
  | .acq v, s => { normal := [{ s with pts := ins v s.pts, stale := s.stale.erase v }] }
  | .copy d src, s =>
    { normal := [{ s with pts := if s.pts.contains src then ins d s.pts else s.pts.erase d,
                          stale := if s.stale.contains src then ins d s.stale else s.stale.erase d }] }
  | .kill v, s => { normal := [{ s with pts := s.pts.erase v, stale := s.stale.erase v }] }
  | .use v, s => { normal := [s], ok := !s.stale.contains v }
  | .fin, s => { normal := [{ s with stale := s.pts.foldl (fun acc v => ins v acc) s.stale }] }
  | .setFlag f b, s => { normal := [{ s with flags := setF f b s.flags }] }
  | .assume f b, s =>
    match s.flags.lookup f with
    | some c => if c = b then { normal := [s] } else {}
    | none => { normal := [{ s with flags := setF f b s.flags }] }
  | .ret, _ => {}
  | .brk, s => { brk := [s] }
  | .cont, s => { cont := [s] }
  | .seq l, s => execSeq l [s]
  | .branch alts, s => execAlts alts s
  | .loop body, s =>
    -- states at the loop head: iterate until no new state appears (5 rounds suffice for the
    -- code; a 6th confirms the fixpoint, otherwise the check fails)
    let o1 := runAll (exec body) [s]
    let h1 := unionSt (unionSt [s] o1.normal) o1.cont
    let o2 := runAll (exec body) h1
    let h2 := unionSt (unionSt h1 o2.normal) o2.cont
    let o3 := runAll (exec body) h2
    let h3 := unionSt (unionSt h2 o3.normal) o3.cont
    let o4 := runAll (exec body) h3
    let h4 := unionSt (unionSt h3 o4.normal) o4.cont
    let o5 := runAll (exec body) h4
    let h5 := unionSt (unionSt h4 o5.normal) o5.cont
    -- the loop is left through `brk` only (the translator turns the loop condition into one)
    { normal := o5.brk, ok := o5.ok && h5.length == h4.length }

def execSeq : List Sk → List St → Out
  | [], ss => { normal := ss }
  | x :: rest, ss =>
    let o := runAll (exec x) ss
    let r := execSeq rest o.normal
    { normal := r.normal, brk := unionSt o.brk r.brk, cont := unionSt o.cont r.cont, ok := o.ok && r.ok }

def execAlts : List Sk → St → Out
  | [], _ => {}
  | a :: rest, s => (exec a s).merge (execAlts rest s)
end

/-- a function's skeleton is fine when, started with its inode parameters pointing to locked
    inodes, no path uses an inode variable that points to an inode whose lock was released -/
def check (h : List String × Sk) : Bool :=
  (exec h.2 { pts := h.1.foldl (fun acc v => ins v acc) [] }).ok

/-! ### the inode lock and the inode's cache slot (package fstxn)

The inode cache hands out a slot per inode number and evicts least-recently-used entries whoever
still waits for the inode (M8c).  A slot pointer is therefore good only if it was fetched while
the inode's lock was held: fetched before, it may be an evicted entry's by the time the lock is
granted, and the holder before us and we would work on two different objects for one inode — an
abort of the holder (which clears the CURRENT slot) would then leave its uncommitted changes in
ours.  `Gen.Skeleton.slotUses` lists, per function of fstxn, the calls `Acquire` / `Release` (lock
table), `LookupSlot` (cache) and calls of other listed functions, in source order. -/

/-- functions that run with the transaction's inode locks held, and rely on it -/
def slotHeldAtEntry : List String := ["forgetInodes"]

/-- calls that give inode locks back (kind, name) -/
def slotReleasers : List (Nat × String) := [(0, "Release"), (1, "ReleaseInode"), (1, "releaseInodes"), (1, "postCommit")]

/-- (1) a slot is looked up only while the lock is held: after `Acquire` with no `Release` in
    between, or in a function that is entered with the locks held; nothing else is done to the
    two tables (kind 2) -/
def lookupUnderLock : Bool → List (Nat × String) → Bool
  | _, [] => true
  | held, (0, c) :: r =>
    if c = "Acquire" then lookupUnderLock true r
    else if c = "Release" then lookupUnderLock false r
    else if c = "LookupSlot" then held && lookupUnderLock held r
    else false
  | held, (1, _) :: r => lookupUnderLock held r
  | _, _ :: _ => false

/-- (2) a function that relies on the locks is never called after they were given back -/
def heldCallsBeforeRelease : Bool → List (Nat × String) → Bool
  | _, [] => true
  | released, c :: r =>
    if slotReleasers.contains c then heldCallsBeforeRelease true r
    else if c.1 = 1 && slotHeldAtEntry.contains c.2 then !released && heldCallsBeforeRelease released r
    else heldCallsBeforeRelease released r

def slotCheck (f : String × List (Nat × String)) : Bool :=
  lookupUnderLock (slotHeldAtEntry.contains f.1) f.2 && heldCallsBeforeRelease false f.2

/-! ### the granularity of journal objects

The journal merges the sub-block objects of concurrent transactions when they commit and relies on
every object being owned exclusively by the transaction that writes it.  The owners: of an inode
slot (128 bytes at `Inum2Addr`) the holder of the inode's lock; of a whole block (data, index,
directory) the holder of the lock of the inode that owns the block; of ONE BIT of a bitmap the
transaction that holds the number from the in-memory allocator (`allocator_is_disk_plus_open_allocations`).
Nothing owns a byte of a bitmap: eight numbers, up to eight transactions. -/
def journalObjectsExpected : List (String × String × String) := [
  ("alloctxn.WriteBits", "OverWrite", "1"),                  -- a bitmap bit: the allocator number
  ("alloctxn.ReadBlock", "ReadBuf", "common.NBITBLOCK"),     -- a whole block of a locked inode
  ("inode.WriteInode", "OverWrite", "common.INODESZ * 8"),   -- the inode's slot: the inode's lock
  ("inode.Write", "OverWrite", "common.NBITBLOCK"),          -- a whole block of a locked inode
  ("fstxn.GetInodeLocked", "ReadBuf", "common.INODESZ * 8")  -- the inode's slot: the inode's lock
]

/-! ### the simple server: the per-inode lock is held across the body and its waiting commit

`Model/Reveal` (M14): whoever obtains a lock next must read only what a crash can no longer undo.
In simple/ops.go a handler takes the inode's lock, calls its `_internal` body — which reads, writes
and commits with `CommitWait(true)` — and gives the lock back afterwards. -/

/-- a handler: `Acquire` when not held, `Release` when held; bodies and commits only while held;
    every commit waits; the lock is not kept -/
def simpleWalk : Bool → List (Nat × String) → Bool
  | held, [] => !held
  | held, (0, _) :: r => !held && simpleWalk true r
  | held, (1, _) :: r => held && simpleWalk false r
  | held, (2, _) :: r => held && simpleWalk held r
  | held, (3, a) :: r => held && a = "true" && simpleWalk held r
  | _, _ :: _ => false

/-- a body (entered with the lock held): it only commits, waiting, at least once -/
def simpleBody (toks : List (Nat × String)) : Bool :=
  !toks.isEmpty && toks.all fun t => t.1 = 3 && t.2 = "true"

def simpleCheck (f : String × Bool × List (Nat × String)) : Bool :=
  if f.2.1 then simpleBody f.2.2 else simpleWalk false f.2.2

/-! ### the commit paths of the full server give the locks back after the waiting commit

Model M14 (`Model/Reveal`): a transaction's locks are given back only when nothing of it is pending
in the journal's memory — unstable WRITEs aside. In fstxn/commit.go: the journal's `CommitWait` is
called by `commitWait` alone, with the caller's `wait`, BEFORE the calls that release; every
committing function passes `true`, except `CommitUnstable`; and `CommitUnstable` is called by the
WRITE handler only. -/

/-- no release before the journal's commit (`c`: the commit has been called) -/
def releaseAfterCommit : Bool → List (Nat × String) → Bool
  | _, [] => true
  | _, (0, _) :: r => releaseAfterCommit true r
  | c, (1, _) :: r => c && releaseAfterCommit c r
  | c, _ :: r => releaseAfterCommit c r

def commitPathCheck (f : String × List (Nat × String)) : Bool :=
  -- a function that calls the journal's commit: it is `commitWait`, it passes its own `wait`, it releases afterwards
  (if f.2.any (fun t => t.1 = 0) then
     f.1 = "commitWait" && f.2.all (fun t => t.1 != 0 || t.2 = "wait") && releaseAfterCommit false f.2
   else true) &&
  -- whoever goes through `commitWait` waits, except `CommitUnstable`
  f.2.all (fun t => t.1 != 2 || t.2 = "true" || f.1 = "CommitUnstable")

/-- the only procedure that may commit without waiting -/
def unstableCommittersAllowed : List String := ["nfs.NFSPROC3_WRITE"]

/-! ### the hand-over of unfinished truncations (model M15) and server-wide state (C14) -/

/-- `StartShrinker` starts a thread on EVERY path: its statements up to the `go` contain no branch, loop, return or
    deferred call (table `shrinkerSpawn`, regenerated from shrinker/*.go) -/
def spawnsOnEveryPath (ks : List String) : Bool :=
  ks.contains "go" &&
  (ks.takeWhile (· != "go")).all fun k =>
    k != "if" && k != "for" && k != "return" && k != "switch" && k != "defer" && k != "goto" && k != "else" && k != "else-if" && k != "other"

/-- the thread runs `DoShrink` first and unconditionally, and `DoShrink` loops until `Shrink` reports nothing more to do
    (the loop holds `Shrink` and leaves early only through the two `break`s after a refused commit / a crash) -/
def threadRunsDoShrink (ks : List String) : Bool := ks.head? = some "set:DoShrink"

def doShrinkLoops (ks : List String) : Bool :=
  let body := ((ks.dropWhile (· != "for")).drop 1).takeWhile (· != "rof")
  ks.contains "for" && body.contains "set:Shrink" && body.contains "set:Commit" && !body.contains "return" &&
  (body.filter (· == "break")).length ≤ 2

/-- the structs every request shares and no lock protects: they must be immutable once published -/
def serverWideTypes : List String := ["nfs.Nfs", "fstxn.FsState", "super.FsSuper", "simple.Nfs", "kvs.KVS"]

/-- writes to them outside a constructor that are known and harmless: the daemon's `main` sets the option before it serves -/
def serverWideWritesAllowed : List (String × String × String) := [("main.main", "nfs.Nfs", "Unstable")]

def fieldWriteCheck (w : String × String × String × String) : Bool :=
  !(serverWideTypes.contains w.2.1) || w.2.2.2 = "local" || serverWideWritesAllowed.contains (w.1, w.2.1, w.2.2.1)

/-! ### what an abort does to the cached inodes (models M8, M8d, M8e assume: it forgets ALL of the transaction's) -/

def branching (k : String) : Bool :=
  k == "if" || k == "for" || k == "return" || k == "switch" || k == "defer" || k == "goto" || k == "else" || k == "else-if" || k == "other" || k == "break" || k == "continue"

/-- `Abort` reaches `forgetInodes` on every path and before it gives the locks back -/
def abortForgets (ks : List String) : Bool :=
  ks.contains "call:forgetInodes" &&
  !((ks.takeWhile (· != "call:forgetInodes")).any branching) &&
  !((ks.takeWhile (· != "call:forgetInodes")).contains "call:releaseInodes")

/-- `forgetInodes` is one loop over the transaction's inodes with no way out of it, and no early return -/
def forgetsAll (ks : List String) : Bool :=
  ks.head? = some "for" && !ks.contains "return" && !ks.contains "break" && !ks.contains "continue" && !ks.contains "goto" &&
  ks.getLast? = some "rof"

/-- a refused commit aborts: between the journal's `CommitWait` and the first `return` of `commitWait` stands `Abort` -/
def refusedCommitAborts (ks : List String) : Bool :=
  let after := (ks.dropWhile (· != "set:CommitWait")).drop 1
  ks.contains "set:CommitWait" && (after.takeWhile (· != "return")).contains "call:Abort"

/-! ### "Caller must revalidate inodes" (nfs/lorder.go) -/

/-- a function that locks inodes by number re-validates what it locked at least once per such call (generation
    comparisons with the handle, or `validateRename`); `validateRename` compares both directories' generations -/
def relockCheck (r : String × Nat × Nat) : Bool :=
  if r.1 = "nfs.validateRename" then 2 ≤ r.2.2 else r.2.1 ≤ r.2.2

/-! ### methods assumed to run with the struct's mutex held -/

/-- exported methods that touch guarded fields without locking and are nevertheless tolerated: `cache.Cache.PrintCache`, a
    debugging printer whose only caller is `evict`, under the mutex -/
def mutexAssumedAllowed : List String := ["mu_cache_Cache_PrintCache"]

/-- the assumption "my caller holds `mu`" is sound only for a method that nothing but the struct's own methods can call:
    unexported, and not called by a plain function of its package -/
def mutexAssumedCheck (m : String × Bool × Nat) : Bool :=
  (m.2.1 = false && m.2.2 = 0) || mutexAssumedAllowed.contains m.1

end GoNfsd.Model.Skeleton

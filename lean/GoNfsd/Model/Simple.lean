/-
M11: `simple/*.go` — SimpleNFS: a fixed set of files (inode numbers 2..nInode-1, each with one
4096-byte data block), one journal transaction per request under the inode's lock.
A transliteration of ops.go / inode.go with 64-bit arguments read as natural numbers below
2^64 (the explicit `SumOverflows` test makes that reading exact).  Hand-written; tied to the
code by the `simple` correspondence.
-/
import GoNfsd.Gen.Consts

namespace GoNfsd.Model.Simple
open GoNfsd.Gen.Consts

abbrev Bytes := List UInt8

/-- `nInode()` = inodes per block -/
def nInode : Nat := INODEBLK

structure SFile where
  size : Nat := 0
  blk : Bytes := List.replicate BlockSize 0     -- the data block (always BlockSize bytes)
  deriving DecidableEq

instance : Inhabited SFile := ⟨{}⟩

structure SState where
  files : Nat → SFile

def SState.set (s : SState) (i : Nat) (f : SFile) : SState := { files := fun j => if j = i then f else s.files j }

def init : SState := { files := fun _ => {} }

/-- `MakeFh` of the simple server: the first 8 bytes, little-endian; shorter = no file -/
def fh2ino (fh : Bytes) : Nat :=
  if fh.length < 8 then 0 else (fh.take 8).foldr (fun b acc => b.toNat + 256 * acc) 0

def validInum (i : Nat) : Bool := i ≠ 0 && i ≠ ROOTINUM && decide (i < nInode)

inductive SStatus where
  | ok | inval | nospc | serverfault | notsupp | noent
  deriving DecidableEq, Repr

inductive SReply where
  | status (st : SStatus)
  | attr (kind size fileid : Nat)
  | read (count : Nat) (eof : Bool) (data : Bytes)
  | write (count : Nat)
  | lookup (inum : Nat)
  deriving DecidableEq, Repr

/-- `Inode.Write`: returns the new file, or `none` when refused -/
def fileWrite (f : SFile) (off count : Nat) (data : Bytes) : Option SFile :=
  if count ≠ data.length then none
  else if off + count ≥ 2 ^ 64 then none            -- util.SumOverflows
  else if off + count > BlockSize then none
  else if off > f.size then none
  else
    let blk := f.blk.take off ++ data ++ f.blk.drop (off + count)
    some { size := if off + count > f.size then off + count else f.size, blk := blk }

/-- `Inode.Read` -/
def fileRead (f : SFile) (off count : Nat) : Bytes × Bool :=
  if off ≥ f.size then ([], true)
  else
    let n := if count > f.size - off then f.size - off else count
    ((f.blk.drop off).take n, decide (off + n ≥ f.size))

/-- `NFSPROC3_SETATTR_wp` with a size: refuse beyond one block; grow by writing zeros at the
    end; shrink by lowering the size -/
def fileResize (f : SFile) (n : Nat) : Option SFile :=
  if n > BlockSize then none
  else if f.size < n then fileWrite f f.size (n - f.size) (List.replicate (n - f.size) 0)
  else some { f with size := n }

inductive SOp where
  | getattr (fh : Bytes)
  | setattr (fh : Bytes) (size : Option Nat)
  | read (fh : Bytes) (off count : Nat)
  | write (fh : Bytes) (off count : Nat) (data : Bytes)
  | lookup (name : Bytes)
  | commit (fh : Bytes)
  | unsupported           -- CREATE, MKDIR, SYMLINK, READLINK, MKNOD, REMOVE, RMDIR, RENAME, LINK, READDIRPLUS, FSSTAT, PATHCONF

def step (s : SState) : SOp → SState × SReply
  | .getattr fh =>
    let i := fh2ino fh
    if i = ROOTINUM then (s, .attr NF3DIR 0 ROOTINUM)
    else if ¬ validInum i then (s, .status .inval)
    else (s, .attr NF3REG (s.files i).size i)
  | .setattr fh size =>
    let i := fh2ino fh
    if ¬ validInum i then (s, .status .inval)
    else match size with
      | none => (s, .status .ok)
      | some n =>
        match fileResize (s.files i) n with
        | some f' => (s.set i f', .status .ok)
        | none => (s, .status .nospc)
  | .read fh off count =>
    let i := fh2ino fh
    if ¬ validInum i then (s, .status .inval)
    else
      let (d, eof) := fileRead (s.files i) off count
      (s, .read d.length eof d)
  | .write fh off count data =>
    let i := fh2ino fh
    if ¬ validInum i then (s, .status .inval)
    else match fileWrite (s.files i) off count data with
      | some f' => (s.set i f', .write count)
      | none => (s, .status .serverfault)
  | .lookup name =>
    let i := if name = [97] then 2 else if name = [98] then 3 else 0
    if validInum i then (s, .lookup i) else (s, .status .noent)
  | .commit fh =>
    if validInum (fh2ino fh) then (s, .status .ok) else (s, .status .inval)
  | .unsupported => (s, .status .notsupp)

/-- the specification's view of a file: its first `size` bytes -/
def content (f : SFile) : Bytes := f.blk.take f.size

/-- the invariant of reachable states: the block has exactly BlockSize bytes and the size fits -/
def FileWF (f : SFile) : Prop := f.blk.length = BlockSize ∧ f.size ≤ BlockSize

end GoNfsd.Model.Simple

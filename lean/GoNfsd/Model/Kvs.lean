/-
M12: `kvs/kvs.go` — a key/value store whose keys are block numbers beyond the journal.
`MultiPut` is one journal transaction of whole-block overwrites committed with wait; `Get` is
one read.  Values are abstract (`α`).  Hand-written; tied to the code by the `kvs`
correspondence.
-/
import GoNfsd.Gen.Consts

namespace GoNfsd.Model.Kvs
open GoNfsd.Gen.Consts

structure KVS (α : Type) where
  sz : Nat
  store : Nat → α

inductive Out (α : Type) where
  | panic                    -- out-of-bounds key: the documented panic
  | ok (v : Option α)        -- MultiPut: `none`; Get: the value
  | refused                  -- the journal refused the transaction (too many blocks): no effect
  deriving Repr

variable {α : Type}

def inRange (k : KVS α) (key : Nat) : Bool := decide (LOGSIZE ≤ key ∧ key < k.sz)

def applyPairs (store : Nat → α) : List (Nat × α) → Nat → α
  | [], k => store k
  | (key, v) :: rest, k => applyPairs (fun j => if j = key then v else store j) rest k

/-- number of distinct blocks a MultiPut dirties -/
def distinctKeys (ps : List (Nat × α)) : Nat := (ps.map (·.1)).eraseDups.length

def multiPut (k : KVS α) (ps : List (Nat × α)) : KVS α × Out α :=
  if ps.all (fun p => inRange k p.1) then
    if distinctKeys ps > WAL_LOGSZ then (k, .refused)
    else ({ k with store := applyPairs k.store ps }, .ok none)
  else (k, .panic)

def get (k : KVS α) (key : Nat) : Out α :=
  if inRange k key then .ok (some (k.store key)) else .panic

/-- the value of the last pair for `key` in a list of pairs, if any -/
def lastFor (key : Nat) : List (Nat × α) → Option α
  | [] => none
  | (k, v) :: rest => match lastFor key rest with
    | some w => some w
    | none => if k = key then some v else none

/-! ### the order in which `MultiPut` takes the locks of its keys (`kvs.lockOrder`)

The Go function walks the pairs and inserts each key into a sorted slice at the first position
whose entry is not smaller, unless the key is there already. -/

def insertKey (k : Nat) : List Nat → List Nat
  | [] => [k]
  | x :: r => if x < k then x :: insertKey k r else if x = k then x :: r else k :: x :: r

def lockOrder (keys : List Nat) : List Nat := keys.foldl (fun acc k => insertKey k acc) []

end GoNfsd.Model.Kvs

/-
M16 "OpCache": why a transaction must be two-phase and read only under the lock, although every request is one journal
transaction.  A journal operation (`jrnl.Op`) keeps a private copy of every object it has read (`ReadBuf` returns the
copy on later reads) and writes back what it holds.  One object is enough: its committed value on the logical disk, the
operation's copy, whether the operation holds the object's lock; other transactions commit new values whenever the
lock is free.  `go` runs a history and collects, for every read made under the lock, the value returned and the
committed value at that moment.
-/
namespace GoNfsd.Model.OpCache

structure St where
  disk : Nat := 0
  copy : Option Nat := none
  held : Bool := false

inductive Ev where
  | acquire
  | release
  | read
  | otherCommit (v : Nat)   -- another transaction commits `v` (it needs the lock: no effect while we hold it)
  deriving Repr

def go : St → List Ev → List (Nat × Nat)
  | _, [] => []
  | s, .acquire :: r => go { s with held := true } r
  | s, .release :: r => go { s with held := false } r
  | s, .read :: r =>
    let v := s.copy.getD s.disk
    (if s.held then [(v, s.disk)] else []) ++ go { s with copy := some v } r
  | s, .otherCommit v :: r => go (if s.held then s else { s with disk := v }) r

/-- no lock is taken after one was given back (`rel`: a release has happened) -/
def twoPhase : Bool → List Ev → Bool
  | _, [] => true
  | true, .acquire :: _ => false
  | false, .acquire :: r => twoPhase false r
  | _, .release :: r => twoPhase true r
  | rel, .read :: r => twoPhase rel r
  | rel, .otherCommit _ :: r => twoPhase rel r

/-- the object is read only while its lock is held (`held`) -/
def wellLocked : Bool → List Ev → Bool
  | _, [] => true
  | _, .acquire :: r => wellLocked true r
  | _, .release :: r => wellLocked false r
  | held, .read :: r => held && wellLocked held r
  | held, .otherCommit _ :: r => wellLocked held r

structure Inv (s : St) (rel : Bool) : Prop where
  released : rel = true → s.held = false
  current : ∀ v, s.copy = some v → rel = true ∨ (s.held = true ∧ v = s.disk)

theorem reads_current (evs : List Ev) : ∀ (s : St) (rel : Bool), Inv s rel →
    twoPhase rel evs = true → wellLocked s.held evs = true → ∀ p ∈ go s evs, p.1 = p.2 := by
  induction evs with
  | nil => intro s rel _ _ _ p hp; simp [go] at hp
  | cons e rest ih =>
    intro s rel hinv h2 hw p hp
    cases e with
    | acquire =>
      cases rel with
      | true => simp [twoPhase] at h2
      | false =>
        simp only [twoPhase] at h2
        simp only [wellLocked] at hw
        simp only [go] at hp
        refine ih { s with held := true } false ⟨(fun h => by cases h), ?_⟩ h2 hw p hp
        intro v hv
        rcases hinv.current v hv with h | ⟨_, h⟩
        · cases h
        · exact Or.inr ⟨rfl, h⟩
    | release =>
      simp only [twoPhase] at h2
      simp only [wellLocked] at hw
      simp only [go] at hp
      exact ih { s with held := false } true ⟨fun _ => rfl, fun v _ => Or.inl rfl⟩ h2 hw p hp
    | read =>
      simp only [twoPhase] at h2
      simp only [wellLocked, Bool.and_eq_true] at hw
      have hheld : s.held = true := hw.1
      have hrel : rel = false := by
        cases rel with
        | false => rfl
        | true => have := hinv.released rfl; rw [hheld] at this; cases this
      have hv : s.copy.getD s.disk = s.disk := by
        cases hc : s.copy with
        | none => rfl
        | some v =>
          rcases hinv.current v hc with h | ⟨_, h⟩
          · rw [hrel] at h; cases h
          · simp [h]
      simp only [go, hheld, if_true, List.cons_append, List.nil_append, List.mem_cons] at hp
      rcases hp with hp | hp
      · rw [hp]; exact hv
      · refine ih { disk := s.disk, copy := some (s.copy.getD s.disk), held := true } rel
          ⟨(fun h => by rw [hrel] at h; cases h), ?_⟩ h2 (by simpa [hheld] using hw.2) p hp
        intro v hvv
        simp only [Option.some.injEq] at hvv
        exact Or.inr ⟨rfl, by rw [← hvv]; exact hv⟩
    | otherCommit v =>
      simp only [twoPhase] at h2
      simp only [wellLocked] at hw
      simp only [go] at hp
      by_cases hh : s.held = true
      · simp only [hh, if_true] at hp
        exact ih s rel hinv h2 hw p hp
      · have hf : s.held = false := by cases h : s.held <;> simp_all
        simp only [hf, Bool.false_eq_true, if_false] at hp
        refine ih { disk := v, copy := s.copy, held := false } rel ⟨(fun _ => rfl), ?_⟩ h2 (by simpa [hf] using hw) p hp
        intro w hw'
        rcases hinv.current w hw' with h | ⟨h, _⟩
        · exact Or.inl h
        · rw [hf] at h; cases h

theorem init_inv : Inv {} false := ⟨(fun h => by cases h), (fun v h => by cases h)⟩

end GoNfsd.Model.OpCache

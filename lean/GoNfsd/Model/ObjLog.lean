/-
M9c: `obj.Log` of go-journal — the layer between a file-system transaction and the write-ahead
log that REMEMBERS A LOG POSITION: `doCommit` appends the transaction to the in-memory log and
stores the position it got in `l.pos`; `CommitWait(wait = true)` then flushes up to ITS OWN
position; `Flush()` flushes up to the REMEMBERED one.  `doCommit` stores the position also when the
in-memory log refuses the transaction (it does not fit): the position is then 0 (go-journal
v0.5.4 obj/obj.go, "FIXME: should only be set if ok").

Transactions are counted, not looked into: `next` = how many have been appended, `durable` = how
many of them (a prefix: the log is written in order) are on disk.  The logger may write more at
any time (`bg`).  Hand-written from the dependency (outside /repo: modelled, not verified); what
/repo may rely on is in Props/C07.
-/
namespace GoNfsd.Model.ObjLog

structure OL where
  next : Nat := 0
  durable : Nat := 0
  pos : Nat := 0
  deriving Repr, DecidableEq

inductive Ev where
  | commit (fits wait : Bool)   -- `CommitWait(wait)` of a non-empty transaction
  | flush                       -- `obj.Log.Flush()`
  | bg (k : Nat)                -- the logger writes up to position k on its own (full log, another flush)
  deriving Repr, DecidableEq

def step (s : OL) : Ev → OL
  | .commit true wait =>
    { next := s.next + 1, pos := s.next + 1, durable := if wait then max s.durable (s.next + 1) else s.durable }
  | .commit false _ => { s with pos := 0 }     -- refused: nothing appended, the position is forgotten
  | .flush => { s with durable := max s.durable s.pos }
  | .bg k => { s with durable := max s.durable (min k s.next) }

def run (s : OL) (es : List Ev) : OL := es.foldl step s

end GoNfsd.Model.ObjLog

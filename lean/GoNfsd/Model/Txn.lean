/-
M8: the inode-cache protocol of `fstxn` (the cache holds the authoritative in-memory inode,
mutated in place by the lock holder; `WriteInode` puts the new value into the transaction's
buffer; commit makes the buffer the logical disk; abort drops the cached copies of the
transaction's inodes; the LRU may evict any entry at any time).  Values are abstract (`α`):
the protocol does not look inside an inode.  Hand-written from fstxn/fstxn.go, fstxn/commit.go,
cache/cache.go; tied to the code by the `-c10` coherence oracle of the seq harness (at every
quiescent point every cached inode is compared with the bytes of the logical disk, every name
cache with its directory, both allocators with the bitmaps).
-/
namespace GoNfsd.Model.Txn

structure St (α : Type) where
  disk : Nat → α                 -- the logical disk (journal view): inode number ↦ value
  cache : Nat → Option α         -- the inode cache
  buf : Nat → Option α           -- the open transaction's buffered writes
  owned : List Nat               -- inodes the open transaction has locked

inductive TOp (α : Type) where
  | load (i : Nat)                       -- `GetInodeLocked`: lock, fill the cache slot on a miss
  | modify (i : Nat) (f : α → α)         -- mutate the cached inode in place and `WriteInode`
  | evict (i : Nat)                      -- the LRU drops an entry (any entry, at any time)
  | commit                               -- `commitWait` succeeded: buffer becomes logical disk
  | abort                                -- `Abort`, or a commit the journal refused

variable {α : Type}

/-- what the transaction reads for inode `i` (`ReadBuf`: its own buffer, else the journal) -/
def St.read (s : St α) (i : Nat) : α := (s.buf i).getD (s.disk i)

def step (s : St α) : TOp α → St α
  | .load i =>
    { s with owned := i :: s.owned,
             cache := fun j => if j = i then (match s.cache i with | some v => some v | none => some (s.read i))
                               else s.cache j }
  | .modify i f =>
    -- only an inode the transaction holds (hence loaded) is modified
    if i ∈ s.owned then
      match s.cache i with
      | some v => { s with cache := fun j => if j = i then some (f v) else s.cache j,
                           buf := fun j => if j = i then some (f v) else s.buf j }
      | none => -- evicted while held: the holder keeps its pointer; the write still goes to the buffer
        { s with buf := fun j => if j = i then some (f (s.read i)) else s.buf j }
    else s
  | .evict i => { s with cache := fun j => if j = i then none else s.cache j }
  | .commit =>
    { disk := fun j => (s.buf j).getD (s.disk j), cache := s.cache, buf := fun _ => none, owned := [] }
  | .abort =>
    { s with cache := fun j => if j ∈ s.owned then none else s.cache j, buf := fun _ => none, owned := [] }

def run (s : St α) : List (TOp α) → St α
  | [] => s
  | op :: rest => run (step s op) rest

/-- a server (re)started on a disk: empty cache, no open transaction -/
def fresh (disk : Nat → α) : St α := { disk := disk, cache := fun _ => none, buf := fun _ => none, owned := [] }

/-- the protocol invariant: a cached inode equals what the open transaction reads for it, and
    only inodes the transaction holds have buffered writes -/
def Coherent (s : St α) : Prop :=
  (∀ i v, s.cache i = some v → v = s.read i) ∧ (∀ i, s.buf i ≠ none → i ∈ s.owned)

def Quiescent (s : St α) : Prop := (∀ i, s.buf i = none) ∧ s.owned = []

end GoNfsd.Model.Txn

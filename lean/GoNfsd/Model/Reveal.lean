/-
M14: what a reply reveals is durable — locks are given back only after the flush.

A transaction's changes sit in the journal's in-memory log from its commit on; they are on disk
only once the log has been written up to them (M9 / M9c).  Another transaction can see them as
soon as the writer gives the locks back.  `fstxn.commitWait(true)` therefore releases the inode
locks AFTER `CommitWait` has returned, i.e. after the flush (and `simple` holds its per-inode lock
across `CommitWait(true)`): whoever obtains the lock next reads only what a crash can no longer
undo.  This model has the log as a durable part and a pending part, per-key locks, commits with
and without waiting, the background logger, and releases; `Disciplined` is the rule "a
transaction releases a lock only when nothing of it is pending, unstable WRITEs aside".  `Lemmas/Reveal` proves that
under it a read under the lock returns the value the recovered server would have, for every
reachable state; `Props/C03` has the counterexample without it (the seeded changes C08k, C17k).
-/
namespace GoNfsd.Model.Reveal

/-- a committed transaction: who, what it wrote (key ↦ value; later entries win), and whether the
    protocol allows it to be lost (an UNSTABLE WRITE: the client keeps the data until COMMIT and
    detects the loss through the write verifier, C07) -/
abbrev Commit := Nat × (Bool × List (Nat × Nat))

structure St where
  dur : List Commit            -- the part of the log that is on disk: what recovery finds
  pend : List Commit           -- appended in memory, not yet on disk
  lock : Nat → Option Nat      -- key ↦ the transaction holding its lock

inductive Op where
  | acquire (t k : Nat)                              -- granted: nobody holds it
  | commit (t : Nat) (ws : List (Nat × Nat)) (wait unst : Bool)   -- append to the log; `wait`: flush; `unst`: an unstable WRITE
  | flush                                            -- somebody's stable commit, or NFS COMMIT
  | bg (n : Nat)                                     -- the logger writes n more transactions
  | release (t k : Nat)

def empty : St := { dur := [], pend := [], lock := fun _ => none }

def upd {β : Type} (f : Nat → β) (k : Nat) (v : β) : Nat → β := fun x => if x = k then v else f x

/-- one step; `none`: not enabled (lock taken; a write without the key's lock; not the holder) -/
def step (s : St) : Op → Option St
  | .acquire t k =>
    match s.lock k with
    | none => some { s with lock := upd s.lock k (some t) }
    | some _ => none
  | .commit t ws wait unst =>
    if ws.all (fun kv => s.lock kv.1 == some t) then
      if wait then some { s with dur := s.dur ++ s.pend ++ [(t, unst, ws)], pend := [] }
      else some { s with pend := s.pend ++ [(t, unst, ws)] }
    else none
  | .flush => some { s with dur := s.dur ++ s.pend, pend := [] }
  | .bg n => some { s with dur := s.dur ++ s.pend.take n, pend := s.pend.drop n }
  | .release t k =>
    if s.lock k = some t then some { s with lock := upd s.lock k none } else none

def run (s : St) : List Op → Option St
  | [] => some s
  | op :: rest => (step s op).bind fun s' => run s' rest

/-- the discipline: a lock is given back only by a transaction nothing of which is pending —
    unstable WRITEs aside -/
def Disciplined (s : St) : List Op → Prop
  | [] => True
  | op :: rest =>
    (match op with | .release t _ => ∀ c ∈ s.pend, c.1 = t → c.2.1 = true | _ => True) ∧
    (match step s op with | some s' => Disciplined s' rest | none => True)

/-- the last value a list of writes gives a key -/
def writeOf : List (Nat × Nat) → Nat → Option Nat
  | [], _ => none
  | kv :: r, k => match writeOf r k with
    | some v => some v
    | none => if kv.1 = k then some kv.2 else none

/-- the value of a key after a sequence of committed transactions (later ones win) -/
def valOf : List Commit → Nat → Option Nat
  | [], _ => none
  | c :: r, k => match valOf r k with
    | some v => some v
    | none => writeOf c.2.2 k

/-- what a transaction holding the key's lock reads: the log in memory -/
def St.read (s : St) (k : Nat) : Option Nat := valOf (s.dur ++ s.pend) k

/-- what the server has after a crash now -/
def St.recovered (s : St) (k : Nat) : Option Nat := valOf s.dur k

end GoNfsd.Model.Reveal

/-
M2 (format part): model of `nfs.makeFs` / `nfs.markAlloc` — the bits that formatting writes
into the block bitmap and the inode bitmap.  Hand-written loop model; tied to the Go code by
the `mkfs` correspondence run (the real `makeFs` on a sparse disk of every size in a range).

A bitmap block is an array of `NBITBLOCK` bits; bit number `bn` stands for Go's
`blk[bn/8] & (1 << (bn%8))`.
-/
import GoNfsd.Gen.Super

namespace GoNfsd.Model.Mkfs
open GoNfsd.Gen.Consts GoNfsd.Gen.Super

abbrev Blk := Array Bool

def zeroBlk : Blk := Array.replicate NBITBLOCK false

/-- `for bn := lo; bn < hi; bn++ { blk[bn/8] |= 1 << (bn%8) }` -/
def setBits (blk : Blk) (lo hi : Nat) : Blk :=
  (List.range' lo (hi - lo)).foldl (fun b bn => b.setIfInBounds bn true) blk

/-- The disk writes `markAlloc(super, n, m)` performs, in order: (block number, content). -/
def markAllocWrites (s : FsSuper) (n m : Nat) : List (Nat × Blk) :=
  let blk := setBits zeroBlk 0 n
  let blkno := m / NBITBLOCK + s.BitmapBlockStart
  -- `var blk1 = blk` aliases the first block unless a fresh one is made
  let blk1 := if blkno > s.BitmapBlockStart then zeroBlk else blk
  let blk1 := setBits blk1 (m % NBITBLOCK) NBITBLOCK
  let blk2 := (zeroBlk.setIfInBounds 0 true).setIfInBounds 1 true
  [(s.BitmapBlockStart, blk), (blkno, blk1), (s.BitmapInodeStart, blk2)]

/-- a disk restricted to what matters here: block number ↦ bits (all-zero initially) -/
def applyWrites (ws : List (Nat × Blk)) (d : Nat → Blk) : Nat → Blk :=
  ws.foldl (fun d w => fun a => if a = w.1 then w.2 else d a) d

def freshDisk (sz : Nat) : Nat → Blk :=
  let s := MkFsSuper sz
  applyWrites (markAllocWrites s (makeFsMarkFrom s) (makeFsMarkTo s)) (fun _ => zeroBlk)

/-- bit for block number `b` in the freshly formatted block bitmap -/
def freshBlockBit (sz b : Nat) : Bool :=
  let s := MkFsSuper sz
  (freshDisk sz (s.BitmapBlockStart + b / NBITBLOCK)).getD (b % NBITBLOCK) false

/-- bit for inode number `i` in the freshly formatted inode bitmap -/
def freshInodeBit (sz i : Nat) : Bool :=
  let s := MkFsSuper sz
  (freshDisk sz (s.BitmapInodeStart + i / NBITBLOCK)).getD (i % NBITBLOCK) false

/-- maximal runs `[a,b)` of set bits of a block, offset by `base` (for the correspondence) -/
def runsOf (blk : Blk) (base : Nat) : List (Nat × Nat) :=
  let (acc, cur) := (List.range blk.size).foldl (fun (st : List (Nat × Nat) × Option Nat) i =>
      match blk.getD i false, st.2 with
      | true, none => (st.1, some i)
      | true, some s => (st.1, some s)
      | false, none => (st.1, none)
      | false, some s => ((base + s, base + i) :: st.1, none)) ([], none)
  let acc := match cur with
    | some s => (base + s, base + blk.size) :: acc
    | none => acc
  acc.reverse

end GoNfsd.Model.Mkfs

/-
M7: the block map of an inode — `inode.bmap` / `indbmap` (map a file block to a disk block,
allocating the data block and whatever index blocks are missing) and `inode.Shrink` /
`indshrink` (free from the top down to the size) — transliterated from inode/inode.go and
inode/shrink.go as functions on
  * the inode's ten pointers (eight direct, one indirect root, one double-indirect root),
  * the contents of index blocks (`Store`: block ↦ slot ↦ pointer),
  * the block allocator as an oracle stream: the numbers `AllocBlock` returns, in order
    (0 = out of space).  A block handed out is all zeros (blocks are zeroed when freed).
Tied to the code by the `blockmap` correspondence: the pointer structure of a real file before
and after WRITE / READ-of-a-hole / truncation, with the numbers the real allocator handed out.
-/
import GoNfsd.Gen.Consts

namespace GoNfsd.Model.BlockMap
open GoNfsd.Gen.Consts

abbrev Store := Nat → Nat → Nat

def Store.put (st : Store) (b i v : Nat) : Store :=
  fun b' i' => if b' = b ∧ i' = i then v else st b' i'

def Store.zero (st : Store) (b : Nat) : Store :=
  fun b' i' => if b' = b then 0 else st b' i'

structure S where
  st : Store
  allocs : List Nat          -- what AllocBlock will return next
  freed : List Nat := []     -- blocks passed to FreeBlock, latest first

/-- `atxn.AllocBlock()` -/
def S.alloc (s : S) : Nat × S :=
  match s.allocs with
  | [] => (0, s)
  | b :: r => (b, { s with allocs := r })

/-- `atxn.FreeBlock(b)`: zero the block and remember it (nothing for the null block) -/
def S.free (s : S) (b : Nat) : S :=
  if b = 0 then s else { s with st := s.st.zero b, freed := b :: s.freed }

/-- `inode.pow` restricted to the levels in use: pow 0 = 1, pow 1 = 512 -/
def pow : Nat → Nat
  | 0 => 1
  | _ => NBLKBLK

/-- `indbmap(root, level, off)`: returns (state, block for `off` or 0, root or 0) -/
def indbmap (s : S) (root : Nat) : Nat → Nat → S × Nat × Nat
  | level, off =>
    let (root, s) := if root = 0 then s.alloc else (root, s)
    if root = 0 then (s, 0, 0) else
    match level with
    | 0 => (s, root, root)
    | l + 1 =>
      let divisor := pow l
      let o := off / divisor
      let ind := off % divisor
      let nxt := s.st root o
      let (s', blkno, newnxt) := indbmap s nxt l ind
      let s'' := if newnxt ≠ nxt then { s' with st := s'.st.put root o newnxt } else s'
      (s'', blkno, root)

/-- `ip.bmap(bn)` on the pointer array: (state, pointers, block or 0, alloc flag) -/
def bmap (s : S) (blks : List Nat) (bn : Nat) : S × List Nat × Nat × Bool :=
  if bn < NDIRECT then
    if blks.getD bn 0 = 0 then
      let (b, s') := s.alloc
      (s', blks.set bn b, b, decide (b ≠ 0))
    else (s, blks, blks.getD bn 0, false)
  else
    let off := bn - NDIRECT
    if off < NBLKBLK then
      let (s', blkno, root) := indbmap s (blks.getD INDIRECT 0) 1 off
      let alloc := decide (root ≠ blks.getD INDIRECT 0)
      (s', if alloc then blks.set INDIRECT root else blks, blkno, alloc)
    else
      let (s', blkno, root) := indbmap s (blks.getD DINDIRECT 0) 2 (off - NBLKBLK)
      -- (the flag compares with the INDIRECT pointer in the code: kept as it is)
      let alloc := decide (root ≠ blks.getD INDIRECT 0)
      (s', if alloc then blks.set DINDIRECT root else blks, blkno, alloc)

/-- `indshrink(root, level, bn)`: returns (state, block to be freed by the caller or 0) -/
def indshrink (s : S) (root : Nat) : Nat → Nat → S × Nat
  | level, bn =>
    if root = 0 then (s, 0) else
    match level with
    | 0 => (s, root)
    | l + 1 =>
      let divisor := pow l
      let off := bn / divisor
      let ind := bn % divisor
      let nxt := s.st root off
      let s' :=
        if nxt ≠ 0 then
          let (s1, freeroot) := indshrink s nxt l ind
          if freeroot ≠ 0 then ({ s1 with st := s1.st.put root off 0 }).free freeroot else s1
        else s
      (s', if off = 0 ∧ ind = 0 then root else 0)

/-- one round of the loop in `Shrink`: `ShrinkSize -= 1` (to `idx`), then free what serves index `idx` -/
def shrinkStep (s : S) (blks : List Nat) (idx : Nat) : S × List Nat :=
  if idx < NDIRECT then
    ((s.free (blks.getD idx 0)), blks.set idx 0)
  else
    let off := idx - NDIRECT
    if off < NBLKBLK then
      let (s', freeroot) := indshrink s (blks.getD INDIRECT 0) 1 off
      if freeroot ≠ 0 then (s'.free (blks.getD INDIRECT 0), blks.set INDIRECT 0) else (s', blks)
    else
      let (s', freeroot) := indshrink s (blks.getD DINDIRECT 0) 2 (off - NBLKBLK)
      if freeroot ≠ 0 then (s'.free (blks.getD DINDIRECT 0), blks.set DINDIRECT 0) else (s', blks)

/-- the loop of `Shrink`/`DoShrink` run to completion: from `shrink` blocks down to `target` -/
def shrinkTo (s : S) (blks : List Nat) (target : Nat) : Nat → S × List Nat
  | 0 => (s, blks)
  | shrink + 1 =>
    if target < shrink + 1 then
      let (s', blks') := shrinkStep s blks shrink
      shrinkTo s' blks' target shrink
    else (s, blks)

/-! ### the inode-level operations that use the block map (bookkeeping of size and ShrinkSize) -/

structure Ino where
  blks : List Nat
  size : Nat       -- bytes
  shrink : Nat     -- blocks (`ShrinkSize`)
  deriving Repr

def roundUp (n : Nat) : Nat := (n + BlockSize - 1) / BlockSize

/-- `Inode.Write` of whole blocks `[bn, bn+n)`: map block after block; stop at the first block that
    cannot be mapped.  Returns the number of blocks written (0 with nothing mapped = the request
    fails and its transaction is aborted: the caller discards the result). -/
def writeBlocks (s : S) (ino : Ino) (bn : Nat) : Nat → Nat → S × Ino × Nat
  | 0, cnt => (s, ino, cnt)
  | n + 1, cnt =>
    let (s', blks', blkno, _) := bmap s ino.blks (bn + cnt)
    if blkno = 0 then
      -- a short write records that index blocks may have been allocated for this block
      (s', { ino with blks := blks', shrink := if cnt > 0 ∧ bn + cnt + 1 > ino.shrink then bn + cnt + 1 else ino.shrink }, cnt)
    else writeBlocks s' { ino with blks := blks' } bn n (cnt + 1)

/-- `getShrink` / `DoShrink`: a request that changes the file first finishes a pending shrink
    (in transactions of its own, committed whatever happens to the request afterwards) -/
def finishShrink (s : S) (ino : Ino) : S × Ino :=
  if ino.shrink > roundUp ino.size then
    let (s', blks') := shrinkTo s ino.blks (roundUp ino.size) ino.shrink
    (s', { ino with blks := blks', shrink := roundUp ino.size })
  else (s, ino)

def opWrite (s : S) (ino : Ino) (bn n : Nat) : S × Ino × Nat :=
  let (s', ino', cnt) := writeBlocks s ino bn n 0
  (s', if cnt > 0 ∧ (bn + cnt) * BlockSize > ino'.size then { ino' with size := (bn + cnt) * BlockSize } else ino', cnt)

/-- `Inode.Read` of one block inside the file: a hole is filled (its index blocks in any case) -/
def opReadBlock (s : S) (ino : Ino) (bn : Nat) : S × Ino :=
  if bn * BlockSize ≥ ino.size then (s, ino) else
  let (s', blks', _, _) := bmap s ino.blks bn
  (s', { ino with blks := blks' })

/-- `Inode.Resize(sz)` followed by the shrink run to completion -/
def opResize (s : S) (ino : Ino) (sz : Nat) : S × Ino :=
  let oldsz := if ino.shrink > roundUp ino.size then ino.shrink else roundUp ino.size
  -- (the partial last block is cleared, and allocated if it was a hole)
  let (s1, blks1) :=
    if sz < ino.size ∧ sz % BlockSize ≠ 0 then
      let (s', blks', _, _) := bmap s ino.blks (sz / BlockSize)
      (s', blks')
    else (s, ino.blks)
  let newSz := roundUp sz
  if newSz < oldsz then
    let (s2, blks2) := shrinkTo s1 blks1 newSz oldsz
    (s2, { blks := blks2, size := sz, shrink := newSz })
  else (s1, { blks := blks1, size := sz, shrink := newSz })

/-! ### the budget of a transaction: `Shrink` may stop early -/

/-- the loop of `Shrink` with room for at most `budget` rounds in the current transaction
    (`shrinkFits(op, 5)` fails after that): returns the ShrinkSize it reached -/
def shrinkToB (s : S) (blks : List Nat) (target : Nat) : Nat → Nat → S × List Nat × Nat
  | 0, shrink => (s, blks, shrink)
  | _, 0 => (s, blks, 0)
  | budget + 1, shrink + 1 =>
    if target < shrink + 1 then
      let (s', blks') := shrinkStep s blks shrink
      shrinkToB s' blks' target budget shrink
    else (s, blks, shrink + 1)

/-- `Inode.Resize(sz)` as one request sees it: `fits` is the estimate `shrinkFits(oldsz - newSz)`,
    `budget` the number of rounds the transaction really has room for.  Returns the flag that
    tells the caller to start the background shrinker.  (After fix b79792e: the flag is what
    `Shrink` reports; before, it was `false` whenever `fits` held.) -/
def opResizeB (s : S) (ino : Ino) (sz : Nat) (fits : Bool) (budget : Nat) : S × Ino × Bool :=
  let oldsz := if ino.shrink > roundUp ino.size then ino.shrink else roundUp ino.size
  let (s1, blks1) :=
    if sz < ino.size ∧ sz % BlockSize ≠ 0 then
      let (s', blks', _, _) := bmap s ino.blks (sz / BlockSize)
      (s', blks')
    else (s, ino.blks)
  let newSz := roundUp sz
  if newSz < oldsz then
    if fits then
      let (s2, blks2, reached) := shrinkToB s1 blks1 newSz budget oldsz
      (s2, { blks := blks2, size := sz, shrink := reached }, decide (reached > newSz))
    else (s1, { blks := blks1, size := sz, shrink := oldsz }, true)
  else (s1, { blks := blks1, size := sz, shrink := newSz }, false)

end GoNfsd.Model.BlockMap

/-
M7d: the bytes of a file on disk blocks — the data path of `inode.Write`, `inode.Read` and
`inode.Resize` below the pointer structure of M7.

A file is a map from file block numbers to disk blocks (0 = hole; this is `ptr` of M7 at the data
positions, see `Lemmas/FileData.bmap_is_ensure`), the contents of the disk blocks, and a size.
  * `ensure`   — `bmap`: a hole gets the block the allocator hands out;
  * `poke`     — the copy loop of `Write`, one byte;
  * `writeFrom`/`write` — `Inode.Write`;
  * `zeroTail` + `resize` — `Inode.Resize`: the kept last block is cleared beyond the new size, the
    blocks behind it are unmapped (the shrink run to completion: M7 `shrinkTo`);
  * `byte` / `read` — `Inode.Read`: a hole reads as zeros, nothing is read beyond the size.
The theorems of `Lemmas/FileData` say that this is the content log of the reference model M6
(`Model/Fs.byteAt`): a write shows exactly its bytes, a truncation cuts, growing exposes zeros.
-/
import GoNfsd.Gen.Consts
import GoNfsd.Model.Fs

namespace GoNfsd.Model.FileData

def BS : Nat := 4096

theorem BS_is_the_block_size : BS = GoNfsd.Gen.Consts.BlockSize := rfl

structure F where
  map  : Nat → Nat            -- file block ↦ disk block (0: hole)
  data : Nat → Nat → UInt8    -- disk block ↦ offset ↦ byte
  size : Nat                  -- bytes

/-- what is stored for position `pos`, whatever the size says -/
def F.cell (f : F) (pos : Nat) : UInt8 :=
  if f.map (pos / BS) = 0 then 0 else f.data (f.map (pos / BS)) (pos % BS)

/-- `Inode.Read`, one byte -/
def F.byte (f : F) (pos : Nat) : UInt8 := if pos < f.size then f.cell pos else 0

/-- `Inode.Read` -/
def F.read (f : F) (off n : Nat) : List UInt8 := (List.range n).map fun k => f.byte (off + k)

/-- `bmap` on a data position: a hole gets block `b` -/
def F.ensure (f : F) (i b : Nat) : F :=
  if f.map i = 0 then { f with map := fun j => if j = i then b else f.map j } else f

/-- one byte of the copy loop -/
def F.poke (f : F) (pos : Nat) (x : UInt8) : F :=
  { f with data := fun b o => if b = f.map (pos / BS) ∧ o = pos % BS then x else f.data b o }

/-- the loop of `Inode.Write` from `pos` on; `fresh i`: what the allocator hands out when file
    block `i` turns out to be a hole -/
def F.writeFrom (f : F) (fresh : Nat → Nat) : Nat → List UInt8 → F
  | _, [] => f
  | pos, x :: xs => ((f.ensure (pos / BS) (fresh (pos / BS))).poke pos x).writeFrom fresh (pos + 1) xs

/-- `Inode.Write` -/
def F.write (f : F) (fresh : Nat → Nat) (off : Nat) (bytes : List UInt8) : F :=
  { f.writeFrom fresh off bytes with size := max f.size (off + bytes.length) }

/-- `Resize`, shrinking to a size inside a block: what the kept block holds beyond it is cleared -/
def F.zeroTail (f : F) (n : Nat) : F :=
  if n % BS = 0 then f else
  { f with data := fun b o => if b = f.map (n / BS) ∧ n % BS ≤ o then 0 else f.data b o }

def roundUp (n : Nat) : Nat := (n + BS - 1) / BS

/-- `Inode.Resize` (with the shrink it starts run to completion) -/
def F.resize (f : F) (n : Nat) : F :=
  if n < f.size then
    let g := f.zeroTail n
    { g with size := n, map := fun i => if roundUp n ≤ i then 0 else g.map i }
  else { f with size := n }

end GoNfsd.Model.FileData

namespace GoNfsd.Model.FileData

/-- the disk blocks a `Resize` to `n` gives back: those of the file blocks from `roundUp n` up to the
    end of the file (the run of `Shrink`) -/
def F.dropped (f : F) (n : Nat) : List Nat :=
  ((List.range (roundUp f.size)).filter fun i => roundUp n ≤ i).map f.map

/-- `Inode.Resize` with `FreeBlock`'s zeroing: every block given back is cleared -/
def F.resizeZ (f : F) (n : Nat) : F :=
  { f.resize n with data := fun b o => if b ≠ 0 ∧ b ∈ f.dropped n then 0 else (f.resize n).data b o }

/-! ### several files on one disk -/

/-- files (by number) sharing the blocks of one disk -/
structure G where
  maps  : Nat → Nat → Nat
  sizes : Nat → Nat
  data  : Nat → Nat → UInt8

def G.file (g : G) (a : Nat) : F := { map := g.maps a, data := g.data, size := g.sizes a }

def G.setFile (g : G) (a : Nat) (f : F) : G :=
  { maps := fun x => if x = a then f.map else g.maps x,
    sizes := fun x => if x = a then f.size else g.sizes x,
    data := f.data }

/-- WRITE to file `a` -/
def G.write (g : G) (a : Nat) (fresh : Nat → Nat) (off : Nat) (bytes : List UInt8) : G :=
  g.setFile a ((g.file a).write fresh off bytes)

/-- SETATTR size of file `a` (size 0: the content of a removed file is dropped the same way) -/
def G.resize (g : G) (a : Nat) (n : Nat) : G := g.setFile a ((g.file a).resizeZ n)

end GoNfsd.Model.FileData

/-
M10c: the lock manager as a transition system, with abort-and-retry.

`Model/Locks` states the waits-for argument about ONE state.  This model runs: transactions acquire
the locks of an ascending plan one at a time, may give up at any moment (an error reply), and may
RESTART — release everything and come back with another ascending plan — the way `lookupOrdered`,
RENAME, `getShrink` and `getAlloc` do.  A restart is not free: a transaction has a fixed budget
of restarts it may take on its own account (RENAME: one, when the target exists and three or
four inodes have to be locked in order), and every further one has to be charged to a transaction
that FINISHED since this one last started (a validation can only fail, a shrink can only be
pending again, because somebody else committed).

The two theorems of Lemmas/LockSched say that under this discipline every schedule is finite, with
an explicit bound, and that it cannot stop before every transaction has finished.
-/
namespace GoNfsd.Model.LockSched

structure Tx where
  held : List Nat          -- locks held
  todo : List Nat          -- locks still to be acquired, in this order
  fin  : Bool              -- committed or aborted for good: the reply is out
  seen : Nat               -- how many transactions had finished when this one last (re)started
  free : Nat               -- restarts it may still take on its own account
  deriving Repr, DecidableEq

structure Sys where
  txs : List Tx
  commits : Nat            -- transactions finished so far
  deriving Repr

inductive Act where
  | acquire                      -- take the next lock of the plan (blocks while somebody holds it)
  | finish                       -- commit, or abort for good: releases everything
  | restart (plan : List Nat)    -- abort and begin again with a new plan
  deriving Repr

def heldByAny (txs : List Tx) (n : Nat) : Bool := txs.any fun t => t.held.contains n

/-- One step of transaction `i`; `none`: the step is not enabled (the lock is taken, the
    transaction is over, the restart is neither within budget nor charged to anybody).
    `L` bounds the length of a plan (four inodes for RENAME). -/
def step (L : Nat) (s : Sys) (i : Nat) (a : Act) : Option Sys :=
  match s.txs[i]? with
  | none => none
  | some t =>
    if t.fin then none else
    match a with
    | .acquire =>
      match t.todo with
      | [] => none
      | n :: rest =>
        if heldByAny s.txs n then none
        else some { s with txs := s.txs.set i { t with held := n :: t.held, todo := rest } }
    | .finish =>
      some { txs := s.txs.set i { t with held := [], todo := [], fin := true }, commits := s.commits + 1 }
    | .restart plan =>
      if plan.Pairwise (· < ·) ∧ plan.length ≤ L then
        if t.seen < s.commits then
          some { s with txs := s.txs.set i { t with held := [], todo := plan, seen := s.commits } }
        else if 0 < t.free then
          some { s with txs := s.txs.set i { t with held := [], todo := plan, free := t.free - 1 } }
        else none
      else none

/-- a schedule: every listed step has to be enabled -/
def run (L : Nat) (s : Sys) : List (Nat × Act) → Option Sys
  | [] => some s
  | (i, a) :: rest => (step L s i a).bind fun s' => run L s' rest

/-- the step a transaction is waiting to take -/
def wanted (t : Tx) : Act := if t.todo = [] then .finish else .acquire

/-! ### the discipline -/

def TxOK (L c : Nat) (t : Tx) : Prop :=
  t.todo.Pairwise (· < ·) ∧ (∀ h ∈ t.held, ∀ w ∈ t.todo, h < w) ∧
  (t.fin = true → t.held = [] ∧ t.todo = []) ∧ t.seen ≤ c ∧ t.todo.length ≤ L

def Inv (L : Nat) (s : Sys) : Prop := ∀ t ∈ s.txs, TxOK L s.commits t

/-! ### the measure -/

def live (t : Tx) : Nat := if t.fin then 0 else 1

def notfin (txs : List Tx) : Nat := (txs.map live).sum

/-- constant along every run: the transactions there are -/
def cap (s : Sys) : Nat := s.commits + notfin s.txs

def weight (L c : Nat) (t : Tx) : Nat :=
  if t.fin then 0 else (c - t.seen + t.free) * (L + 1) + t.todo.length + 1

/-- what a system can still do, in steps -/
def mu (L : Nat) (s : Sys) : Nat := (s.txs.map (weight L (cap s))).sum

/-! ### validator for recorded traces

The transactions of ONE request of a sequential run, in the order they began: `true` = it
committed, `false` = it aborted; `own` = it ran in the handler's goroutine (the others are the
background shrinker's).  Every aborted own transaction that is followed by another own transaction
is a restart; it has to be within the budget or charged to a commit seen since the previous
restart (a synchronous `DoShrink`, a background shrinker). -/
def retriesCharged : (free : Nat) → (charged : Bool) → List (Bool × Bool) → Bool
  | _, _, [] => true
  | free, charged, (own, committed) :: rest =>
    if committed then retriesCharged free true rest
    else if own && rest.any (·.1) then
      if charged then retriesCharged free false rest
      else match free with
        | 0 => false
        | f + 1 => retriesCharged f false rest
    else retriesCharged free charged rest

end GoNfsd.Model.LockSched

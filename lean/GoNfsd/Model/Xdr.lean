/-
M13: a generic XDR codec over type descriptors, modelling go-rpcgen's `xdr` primitives
(`XdrU32/U64/Bool/String/VarArray/Array`), generated structs, bool- and enum-discriminated
unions, and pointer-chained optional lists, exactly as the generated `Xdr` methods of
/repo/nfstypes/nfs_xdr.go use them.  Hand-written; the descriptors it is applied to are
regenerated from nfs_xdr.go (Gen/Xdr.lean) and transcribed from the RFC (Spec/Rfc1813.lean);
tied to the real `Xdr` methods by the `xdr` correspondence run.

Leniencies of the real decoder that the model reproduces (they are findings, see DESIGN.md):
a boolean is any non-zero word; padding bytes are not checked; an enum discriminant without
a matching arm and without a default arm decodes to an empty body.
-/
namespace GoNfsd.Model.Xdr

inductive Ty where
  | u32 | u64 | bool
  | str (max : Option Nat)
  | opaqueVar (max : Option Nat)
  | opaqueFix (n : Nat)
  | arrU32 (max : Option Nat)
  | struct (fs : List Ty)
  | unionU32 (keys : List Nat) (arms : List Ty) (hasDflt : Bool) (dflt : Ty)
  | unionBool (t f : Ty)
  | chain (elem : List Ty)
  deriving Repr, Inhabited

inductive Val where
  | num (n : Nat)
  | bool (b : Bool)
  | bytes (bs : List UInt8)
  | nums (ns : List Nat)
  | struct (vs : List Val)
  | union (disc : Nat) (v : Val)
  | bunion (b : Bool) (v : Val)
  | list (vs : List Val)
  deriving Repr, Inhabited

/-- big-endian encoding of `n` in `k` bytes -/
def be : Nat → Nat → List UInt8
  | 0, _ => []
  | k + 1, n => UInt8.ofNat (n / 256 ^ k % 256) :: be k (n % 256 ^ k)

def beNat (bs : List UInt8) : Nat := bs.foldl (fun acc b => acc * 256 + b.toNat) 0

def padLen (n : Nat) : Nat := (4 - n % 4) % 4

def zeros (n : Nat) : List UInt8 := List.replicate n 0

def lenOk (max : Option Nat) (n : Nat) : Bool :=
  n < 2 ^ 32 && (match max with | some m => n ≤ m | none => true)

def takeN (n : Nat) (bs : List UInt8) : Option (List UInt8 × List UInt8) :=
  if bs.length < n then none else some (bs.take n, bs.drop n)

/-- the pointer-chain loop on the encoding side -/
def encChainWith (encElem : Val → Option (List UInt8)) : List Val → Option (List UInt8)
  | [] => some (be 4 0)
  | v :: vs =>
    match encElem v, encChainWith encElem vs with
    | some a, some b => some (be 4 1 ++ a ++ b)
    | _, _ => none

/-- the pointer-chain loop on the decoding side; `fuel` bounds the number of elements
    (every element consumes at least the 4 bytes of its presence flag). -/
def decChainWith (decElem : List UInt8 → Option (Val × List UInt8)) :
    Nat → List UInt8 → Option (List Val × List UInt8)
  | 0, _ => none
  | fuel + 1, bs =>
    match takeN 4 bs with
    | none => none
    | some (w, rest) =>
      if beNat w = 0 then some ([], rest) else
      match decElem rest with
      | none => none
      | some (v, rest') =>
        match decChainWith decElem fuel rest' with
        | none => none
        | some (vs, rest'') => some (v :: vs, rest'')

def encNums : List Nat → Option (List UInt8)
  | [] => some []
  | n :: ns => if n < 2 ^ 32 then (be 4 n ++ ·) <$> encNums ns else none

def decNums : Nat → List UInt8 → Option (List Nat × List UInt8)
  | 0, bs => some ([], bs)
  | k + 1, bs =>
    match takeN 4 bs with
    | none => none
    | some (w, rest) =>
      match decNums k rest with
      | none => none
      | some (ns, rest') => some (beNat w :: ns, rest')

mutual
def enc : Ty → Val → Option (List UInt8)
  | .u32, .num n => if n < 2 ^ 32 then some (be 4 n) else none
  | .u64, .num n => if n < 2 ^ 64 then some (be 8 n) else none
  | .bool, .bool b => some (be 4 (if b then 1 else 0))
  | .str max, .bytes bs =>
    if lenOk max bs.length then some (be 4 bs.length ++ bs ++ zeros (padLen bs.length)) else none
  | .opaqueVar max, .bytes bs =>
    if lenOk max bs.length then some (be 4 bs.length ++ bs ++ zeros (padLen bs.length)) else none
  | .opaqueFix n, .bytes bs =>
    if bs.length = n then some (bs ++ zeros (padLen n)) else none
  | .arrU32 max, .nums ns =>
    if lenOk max ns.length then (be 4 ns.length ++ ·) <$> encNums ns else none
  | .struct fs, .struct vs => encFields fs vs
  | .unionU32 keys arms hasDflt dflt, .union d v =>
    if d < 2 ^ 32 then
      match encArm keys arms d v with
      | some r => (be 4 d ++ ·) <$> r
      | none =>
        if hasDflt then (be 4 d ++ ·) <$> enc dflt v
        else match v with
          | .struct [] => some (be 4 d)
          | _ => none
    else none
  | .unionBool t f, .bunion b v =>
    (be 4 (if b then 1 else 0) ++ ·) <$> (if b then enc t v else enc f v)
  | .chain elem, .list vs =>
    encChainWith (fun v => match v with | .struct fvs => encFields elem fvs | _ => none) vs
  | _, _ => none

def encFields : List Ty → List Val → Option (List UInt8)
  | [], [] => some []
  | t :: ts, v :: vs =>
    match enc t v, encFields ts vs with
    | some a, some b => some (a ++ b)
    | _, _ => none
  | _, _ => none

/-- the arm selected by discriminant `d`, if any (`none` = no arm matches) -/
def encArm : List Nat → List Ty → Nat → Val → Option (Option (List UInt8))
  | k :: ks, t :: ts, d, v => if k = d then some (enc t v) else encArm ks ts d v
  | _, _, _, _ => none
end

def decBytes (max : Option Nat) (bs : List UInt8) : Option (Val × List UInt8) :=
  match takeN 4 bs with
  | none => none
  | some (w, r) =>
    if lenOk max (beNat w) then
      match takeN (beNat w) r with
      | none => none
      | some (d, r') => (takeN (padLen (beNat w)) r').map fun (_, r'') => (.bytes d, r'')
    else none

mutual
def dec : Ty → List UInt8 → Option (Val × List UInt8)
  | .u32, bs => (takeN 4 bs).map fun (w, r) => (.num (beNat w), r)
  | .u64, bs => (takeN 8 bs).map fun (w, r) => (.num (beNat w), r)
  | .bool, bs => (takeN 4 bs).map fun (w, r) => (.bool (beNat w != 0), r)
  | .str max, bs => decBytes max bs
  | .opaqueVar max, bs => decBytes max bs
  | .opaqueFix n, bs =>
    match takeN n bs with
    | none => none
    | some (d, r) => (takeN (padLen n) r).map fun (_, r') => (.bytes d, r')
  | .arrU32 max, bs =>
    match takeN 4 bs with
    | none => none
    | some (w, r) =>
      if lenOk max (beNat w) then (decNums (beNat w) r).map fun (ns, r') => (.nums ns, r') else none
  | .struct fs, bs => (decFields fs bs).map fun (vs, r) => (.struct vs, r)
  | .unionU32 keys arms hasDflt dflt, bs =>
    match takeN 4 bs with
    | none => none
    | some (w, r) =>
      match decArm keys arms (beNat w) r with
      | some res => res.map fun (v, r') => (.union (beNat w) v, r')
      | none =>
        if hasDflt then (dec dflt r).map fun (v, r') => (.union (beNat w) v, r')
        else some (.union (beNat w) (.struct []), r)
  | .unionBool t f, bs =>
    match takeN 4 bs with
    | none => none
    | some (w, r) =>
      if beNat w != 0 then (dec t r).map fun (v, r') => (.bunion true v, r')
      else (dec f r).map fun (v, r') => (.bunion false v, r')
  | .chain elem, bs =>
    (decChainWith (fun b => (decFields elem b).map fun p => (Val.struct p.1, p.2)) bs.length bs).map
      fun p => (Val.list p.1, p.2)

def decFields : List Ty → List UInt8 → Option (List Val × List UInt8)
  | [], bs => some ([], bs)
  | t :: ts, bs =>
    match dec t bs with
    | none => none
    | some (v, r) =>
      match decFields ts r with
      | none => none
      | some (vs, r') => some (v :: vs, r')

def decArm : List Nat → List Ty → Nat → List UInt8 → Option (Option (Val × List UInt8))
  | k :: ks, t :: ts, d, bs => if k = d then some (dec t bs) else decArm ks ts d bs
  | _, _, _, _ => none
end


/-- top-level decoding of a whole message: the go-rpcgen server hands the remaining bytes of
    the call to the argument decoder and ignores trailing bytes. -/
def decode (t : Ty) (bs : List UInt8) : Option Val := (dec t bs).map (·.1)

end GoNfsd.Model.Xdr

/-
M6 "FsSpec": the plain in-memory reference file system against which the NFS server is
compared (C02, C08, C09, C12, C13, C19, C11).  Hand-written from nfs/nfs_ops.go, nfs_ls.go,
lorder.go, dir/*.go, inode/inode.go, fh/nfs_fh.go as they are in /repo now; tied to the code
by the `seq` correspondence run (every reply of every operation is compared).

State: every inode number ever used with its kind (0 = free), persistent generation, size,
content (files, symlinks) as a log of writes/truncations, or slot list (directories).
Server-side nondeterminism that the properties do not constrain is an explicit `Choice`
validated by the model: the inode number handed out by the allocator (must be free) and the
directory slot used for a new name (must be a free slot or the end).
-/
import GoNfsd.Gen.Consts
import GoNfsd.Gen.Announce
import GoNfsd.Gen.Super

namespace GoNfsd.Model.Fs
open GoNfsd.Gen.Consts

abbrev Bytes := List UInt8

/-! ### file content -/

/-- one event in the life of a file's content, newest first in the list -/
inductive Ext where
  | write (off : Nat) (data : Array UInt8)
  | trunc (n : Nat)      -- everything at or beyond `n` is cut off (reads as zero when re-exposed)
  deriving Inhabited

/-- the byte at position `i` according to the history (newest first) -/
def byteAt : List Ext → Nat → UInt8
  | [], _ => 0
  | .write off data :: rest, i =>
    if off ≤ i ∧ i < off + data.size then data.getD (i - off) 0 else byteAt rest i
  | .trunc n :: rest, i => if n ≤ i then 0 else byteAt rest i

def readBytes (c : List Ext) (off n : Nat) : Bytes :=
  (List.range n).map fun k => byteAt c (off + k)

/-! ### directories -/

structure Slot where
  inum : Nat          -- 0 = free slot
  name : Bytes
  deriving DecidableEq, Inhabited, Repr

def freeSlot : Slot := { inum := 0, name := [] }

/-- scan from slot index `i` for the first live slot with this name -/
def lookupGo (name : Bytes) : List Slot → Nat → Option (Nat × Nat)
  | [], _ => none
  | s :: rest, i => if s.inum ≠ 0 ∧ s.name = name then some (s.inum, i) else lookupGo name rest (i + 1)

/-- `LookupName`: the first live slot with this name (names are unique in reachable states);
    result: (inode number, slot index) -/
def lookupSlots (slots : List Slot) (name : Bytes) : Option (Nat × Nat) := lookupGo name slots 0

/-- `IsDirEmpty`: no live slot beyond the first two -/
def dirEmpty (slots : List Slot) : Bool := (slots.drop 2).all fun s => s.inum = 0

/-- a slot choice is valid when it designates a free slot or the position just past the end -/
def slotOk (slots : List Slot) (i : Nat) : Bool :=
  i = slots.length || (match slots[i]? with | some s => s.inum = 0 | none => false)

def putSlot (slots : List Slot) (i : Nat) (s : Slot) : List Slot :=
  if i = slots.length then slots ++ [s] else slots.set i s

/-! ### inodes and the file system -/

structure Inode where
  kind : Nat := 0               -- 0 free, 1 REG, 2 DIR, 5 LNK
  gen : Nat := 0
  size : Nat := 0
  content : List Ext := []
  slots : List Slot := []
  atime : Option (Nat × Nat) := none     -- `none`: chosen by the server clock (not compared)
  mtime : Option (Nat × Nat) := none
  deriving Inhabited

structure FS where
  inodes : Nat → Inode
  unstable : Bool := true
  ninode : Nat := 32768
  wtmax : Nat := 0          -- largest WRITE accepted (announced by FSINFO)
  deriving Inhabited

def FS.get (s : FS) (i : Nat) : Inode := s.inodes i

def FS.set (s : FS) (i : Nat) (ino : Inode) : FS :=
  { s with inodes := fun j => if j = i then ino else s.inodes j }

/-- `nfs.maxWrite`: the largest transfer whose transaction always fits in the journal -/
def wtmaxOf (disksz : Nat) : Nat :=
  let nbb := (GoNfsd.Gen.Super.MkFsSuper disksz).NBlockBitmap
  (LogBlocks - 7 - min nbb (LogBlocks / 2)) * BlockSize

/-- a freshly formatted file system: the root directory (inode 1, generation 1) with `.`, `..` -/
def mkfs (unstable : Bool) (disksz : Nat) : FS :=
  let ninode := (GoNfsd.Gen.Super.MkFsSuper disksz).NInode
  { inodes := fun j =>
      if j = ROOTINUM then
        { kind := NF3DIR, gen := 1, size := 2 * DIRENTSZ,
          slots := [{ inum := ROOTINUM, name := [46] }, { inum := ROOTINUM, name := [46, 46] }] }
      else {},
    unstable := unstable, ninode := ninode, wtmax := wtmaxOf disksz }

/-! ### handles -/

def le64 (n : Nat) : Bytes := (List.range 8).map fun i => UInt8.ofNat (n / 256 ^ i % 256)

def leNat (bs : Bytes) : Nat := bs.foldr (fun b acc => b.toNat + 256 * acc) 0

def mkFh (inum gen : Nat) : Bytes := le64 inum ++ le64 gen

/-- `fh.MakeFh`: a handle shorter than 16 bytes denotes no object; extra bytes are ignored -/
def parseFh (fh : Bytes) : Nat × Nat :=
  if fh.length < 16 then (0, 0) else (leNat (fh.take 8), leNat ((fh.drop 8).take 8))

/-- `GetInodeFh`: the live inode a handle denotes, if any -/
def resolve (s : FS) (fh : Bytes) : Option Nat :=
  let (ino, gen) := parseFh fh
  if ino ≥ s.ninode then none
  else if (s.get ino).kind = 0 then none
  else if (s.get ino).gen ≠ gen then none
  else some ino

/-- `GetInodeInum` (lock by number only, as the two-directory RENAME path does first) -/
def resolveNum (s : FS) (ino : Nat) : Option Nat :=
  if ino ≥ s.ninode then none else if (s.get ino).kind = 0 then none else some ino

/-! ### operations, choices, replies -/

inductive TimeHow where
  | dont | server | client (sec nsec : Nat)
  deriving Inhabited, Repr

inductive Op where
  | getattr (fh : Bytes)
  | setattr (fh : Bytes) (size : Option Nat) (atime mtime : TimeHow)
  | lookup (dfh : Bytes) (name : Bytes)
  | access (fh : Bytes)
  | readlink (fh : Bytes)
  | read (fh : Bytes) (off count : Nat)
  | write (fh : Bytes) (off count stable : Nat) (data : Array UInt8)
  | create (dfh : Bytes) (name : Bytes) (mode : Nat)
  | mkdir (dfh : Bytes) (name : Bytes)
  | symlink (dfh : Bytes) (name : Bytes) (target : Array UInt8)
  | mknod (dfh : Bytes) (name : Bytes)
  | remove (dfh : Bytes) (name : Bytes)
  | rmdir (dfh : Bytes) (name : Bytes)
  | rename (ffh : Bytes) (fname : Bytes) (tfh : Bytes) (tname : Bytes)
  | link (fh dfh : Bytes) (name : Bytes)
  | readdir (fh : Bytes) (cookie count : Nat)
  | readdirplus (fh : Bytes) (cookie dircount maxcount : Nat)
  | fsstat (fh : Bytes)
  | fsinfo (fh : Bytes)
  | pathconf (fh : Bytes)
  | commit (fh : Bytes) (off count : Nat)
  | mnt (path : Bytes)
  | restart
  deriving Inhabited

/-- what the server chose where the properties leave it free -/
structure Choice where
  inum : Nat := 0      -- inode number handed out by the allocator (create, mkdir, symlink)
  slot : Nat := 0      -- directory slot index used for the new name (create…, rename)
  deriving Inhabited, Repr

inductive Status where
  | ok | stale | notsupp | err
  deriving DecidableEq, Inhabited, Repr

structure Attr where
  kind : Nat
  size : Nat
  fileid : Nat
  atime : Option (Nat × Nat) := none
  mtime : Option (Nat × Nat) := none
  deriving Inhabited

structure DirEntry where
  fileid : Nat
  name : Bytes
  cookie : Nat
  plus : Option (Attr × Bytes) := none     -- READDIRPLUS: attributes and handle
  deriving Inhabited

inductive Reply where
  | fail (st : Status)                      -- any non-OK outcome
  | badChoice (why : String)                -- the reported choice is not one the model allows
  | attr (a : Attr)                         -- GETATTR, SETATTR (post-op attributes)
  | handle (fh : Bytes) (a : Attr)          -- LOOKUP, CREATE, MKDIR, SYMLINK
  | access (bits : Nat)
  | data (count : Nat) (eof : Bool) (bytes : Bytes)       -- READ; READLINK uses `bytes`
  | written (count committed size : Nat)
  | done                                    -- REMOVE, RMDIR, RENAME, COMMIT
  | listing (eof : Bool) (es : List DirEntry)
  | fsinfo (wtmax : Nat) | pathconf
  | mounted (fh : Bytes)
  deriving Inhabited

def Reply.isOk : Reply → Bool
  | .fail _ => false
  | .badChoice _ => false
  | _ => true

def attrOf (ino : Nat) (i : Inode) : Attr :=
  { kind := i.kind, size := i.size, fileid := ino, atime := i.atime, mtime := i.mtime }

/-! ### the procedures -/

def illegalName (n : Bytes) : Bool := n = [46] || n = [46, 46]

/-- `dir.LookupName` on an inode: not a directory ⇒ nothing -/
def lookupIn (d : Inode) (name : Bytes) : Option (Nat × Nat) :=
  if d.kind ≠ NF3DIR then none else lookupSlots d.slots name

/-- `inode.Resize` seen from outside: the size changes; shrinking cuts the content off -/
def resize (i : Inode) (sz : Nat) : Inode :=
  if sz < i.size then { i with size := sz, content := .trunc sz :: i.content }
  else { i with size := sz }

/-- `doDecLink` when the link count reaches 0: content dropped, inode freed, generation bumped -/
def freeInode (i : Inode) : Inode :=
  { kind := 0, gen := i.gen + 1, size := 0, content := [], slots := [],
    atime := i.atime, mtime := i.mtime }

/-- `dir.AddName` into directory `d` (inode number `dino`): the checks, then the slot write -/
def addName (d : Inode) (slot : Nat) (inum : Nat) (name : Bytes) : Option Inode :=
  if d.kind ≠ NF3DIR ∨ name.length > MAXNAMELEN then none
  else if ¬ slotOk d.slots slot then none
  else
    let slots := putSlot d.slots slot { inum := inum, name := name }
    some { d with slots := slots, size := slots.length * DIRENTSZ }

/-- `dir.RemName` of an existing name at slot `idx` -/
def remNameAt (d : Inode) (idx : Nat) : Inode :=
  { d with slots := d.slots.set idx freeSlot }

def maxWrite (s : FS) : Nat := s.wtmax

/-- `InitInode` (+ `InitDir` / the symlink's target): the inode of a newly created object -/
def freshInode (kind gen inum parent : Nat) (target : Array UInt8) : Inode :=
  if kind = NF3DIR then
    { kind := kind, gen := gen, size := 2 * DIRENTSZ,
      slots := [{ inum := inum, name := [46] }, { inum := parent, name := [46, 46] }] }
  else if kind = NF3LNK then
    { kind := kind, gen := gen, size := target.size, content := [.write 0 target] }
  else { kind := kind, gen := gen, size := 0 }

/-- `doCreate` for the three kinds -/
def doCreate (s : FS) (c : Choice) (dfh name : Bytes) (kind : Nat) (target : Array UInt8) :
    FS × Reply :=
  match resolve s dfh with
  | none => (s, .fail .stale)
  | some dino =>
    let d := s.get dino
    match lookupIn d name with
    | some _ => (s, .fail .err)                       -- NFS3ERR_EXIST
    | none =>
      -- refusals that do not depend on what the allocator hands out (the code allocates first
      -- and aborts; the abort leaves no trace)
      if kind = NF3LNK ∧ target.size > MaxFileSize then (s, .fail .err) else
      if d.kind ≠ NF3DIR ∨ name.length > MAXNAMELEN then (s, .fail .err) else
      -- the allocator's choice: a free, valid, non-reserved number
      if c.inum < 2 ∨ c.inum ≥ s.ninode ∨ (s.get c.inum).kind ≠ 0 then
        (s, .badChoice "allocated inode number is not free")
      else
        let fresh := freshInode kind ((s.get c.inum).gen + 1) c.inum dino target
        match addName d c.slot c.inum name with
        | none => (s, .badChoice "directory slot is not free")
        | some d' =>
          let s' := (s.set c.inum fresh).set dino d'
          (s', .handle (mkFh c.inum fresh.gen) (attrOf c.inum fresh))

/-- `doRemove` -/
def doRemove (s : FS) (dfh name : Bytes) (isdir : Bool) : FS × Reply :=
  if illegalName name then (s, .fail .err) else
  match resolve s dfh with
  | none => (s, .fail .stale)
  | some dino =>
    let d := s.get dino
    match lookupIn d name with
    | none => (s, .fail .err)
    | some (cino, idx) =>
      let ch := s.get cino
      -- (an entry naming a free inode cannot occur in a well-formed state; refuse it)
      if ch.kind = 0 then (s, .fail .err)
      else if isdir ∧ ch.kind ≠ NF3DIR then (s, .fail .err)
      else if isdir ∧ ¬ dirEmpty ch.slots then (s, .fail .err)
      else if ¬ isdir ∧ ch.kind = NF3DIR then (s, .fail .err)
      else
        let s1 := s.set dino (remNameAt d idx)
        let s2 := s1.set cino (freeInode (s1.get cino))
        (s2, .done)

/-- which directories a RENAME names: one handle, or two resolved by number and then checked
    for their generations -/
def renameDirs (s : FS) (ffh tfh : Bytes) : Option (Nat × Nat) :=
  if ffh = tfh then (resolve s ffh).map fun d => (d, d)
  else
    let (fi, fg) := parseFh ffh
    let (ti, tg) := parseFh tfh
    match resolveNum s fi, resolveNum s ti with
    | some a, some b =>
      if (s.get a).gen ≠ fg ∨ (s.get b).gen ≠ tg then none else some (a, b)
    | _, _ => none

/-- an existing target of a RENAME is unlinked and freed first (`none`: the rename is refused) -/
def unlinkTarget (s : FS) (td fino : Nat) (toL : Option (Nat × Nat)) : Option FS :=
  match toL with
  | none => some s
  | some (tino, tidx) =>
    let t := s.get tino
    let f := s.get fino
    if t.kind = 0 ∨ t.kind ≠ f.kind then none
    else if t.kind = NF3DIR ∧ ¬ dirEmpty t.slots then none
    else
      let s1 := s.set td (remNameAt (s.get td) tidx)
      some (s1.set tino (freeInode (s1.get tino)))

/-- the source name is cleared and the target name added (`none`: refused) -/
def moveName (s1 : FS) (c : Choice) (fd fidx td fino : Nat) (tname : Bytes) : Option (FS × Reply) :=
  let s2 := s1.set fd (remNameAt (s1.get fd) fidx)
  let dto := s2.get td
  if dto.kind ≠ NF3DIR ∨ tname.length > MAXNAMELEN then none else
  match addName dto c.slot fino tname with
  | none => some (s1, .badChoice "directory slot is not free")
  | some d' => some (s2.set td d', .done)

/-- `NFSPROC3_RENAME` -/
def doRename (s : FS) (c : Choice) (ffh fname tfh tname : Bytes) : FS × Reply :=
  if illegalName fname ∨ illegalName tname then (s, .fail .err) else
  match renameDirs s ffh tfh with
  | none => (s, .fail .stale)
  | some (fd, td) =>
    match lookupIn (s.get fd) fname with
    | none => (s, .fail .err)
    | some (fino, fidx) =>
      if fino = td then (s, .fail .err) else      -- a directory cannot be moved into itself
      -- rename onto itself
      if fd = td ∧ ((lookupIn (s.get td) tname).map (·.1)) = some fino then (s, .done) else
      match unlinkTarget s td fino (lookupIn (s.get td) tname) with
      | none => (s, .fail .err)
      | some s1 =>
        match moveName s1 c fd fidx td fino tname with
        | none => (s, .fail .err)
        | some (_, .badChoice why) => (s, .badChoice why)
        | some (s3, r) => (s3, r)

/-- the loop of `dir.ApplyEnts` / `dir.Apply` from slot index `idx` on: skip slots before the
    start offset and free slots; emit a live slot with its cookie (the offset of the following
    slot), add to the two counters, and stop after the entry that makes a counter reach its
    limit.  Result: (eof, entries with cookies). -/
def pageGo (start lim1 lim2 : Nat) (inc1 inc2 : Nat → Nat) :
    List Slot → Nat → Nat → Nat → Bool × List (Slot × Nat)
  | [], _, _, _ => (true, [])
  | sl :: rest, idx, a, b =>
    if idx * DIRENTSZ < start ∨ sl.inum = 0 then pageGo start lim1 lim2 inc1 inc2 rest (idx + 1) a b
    else
      if a + inc1 sl.name.length ≥ lim1 ∨ b + inc2 sl.name.length ≥ lim2 then
        (false, [(sl, (idx + 1) * DIRENTSZ)])
      else
        ((pageGo start lim1 lim2 inc1 inc2 rest (idx + 1) (a + inc1 sl.name.length)
            (b + inc2 sl.name.length)).1,
         (sl, (idx + 1) * DIRENTSZ) ::
          (pageGo start lim1 lim2 inc1 inc2 rest (idx + 1) (a + inc1 sl.name.length)
            (b + inc2 sl.name.length)).2)

/-- `dir.ApplyEnts` / `dir.Apply`: page through the slots from byte offset `start`. -/
def page (slots : List Slot) (start : Nat) (lim1 lim2 : Nat) (inc1 inc2 : Nat → Nat) (n1 n2 : Nat) :
    Bool × List (Slot × Nat) :=
  pageGo start lim1 lim2 inc1 inc2 slots 0 n1 n2

def readdirPage (slots : List Slot) (cookie count : Nat) : Bool × List (Slot × Nat) :=
  page slots cookie count (count + 1) (fun l => 16 + l + 8 + 8) (fun _ => 0) 64 0

def entryplus3Baggage : Nat := 8 + 4 + 8 + (4 + 84) + 16 + 8

def readdirplusPage (slots : List Slot) (cookie dircount maxcount : Nat) : Bool × List (Slot × Nat) :=
  page slots cookie dircount maxcount (fun l => 8 + l) (fun l => entryplus3Baggage + l) 0 64

def step (s : FS) (op : Op) (c : Choice) : FS × Reply :=
  match op with
  | .getattr fh =>
    match resolve s fh with
    | none => (s, .fail .stale)
    | some i => (s, .attr (attrOf i (s.get i)))
  | .setattr fh size atime mtime =>
    match resolve s fh with
    | none => (s, .fail .stale)
    | some i =>
      let ino := s.get i
      if size.isSome ∧ ino.kind ≠ NF3REG then (s, .fail .err)
      else if (match size with | some sz => decide (sz > MaxFileSize) | none => false) then (s, .fail .err)
      else
        let ino := match size with | some sz => resize ino sz | none => ino
        let ino := match atime with
          | .dont => ino | .server => { ino with atime := none }
          | .client a b => { ino with atime := some (a, b) }
        let ino := match mtime with
          | .dont => ino | .server => { ino with mtime := none }
          | .client a b => { ino with mtime := some (a, b) }
        (s.set i ino, .attr (attrOf i ino))
  | .lookup dfh name =>
    match resolve s dfh with
    | none => (s, .fail .stale)
    | some d =>
      match lookupIn (s.get d) name with
      | none => (s, .fail .err)
      | some (ci, _) =>
        let ch := s.get ci
        (s, .handle (mkFh ci ch.gen) (attrOf ci ch))
  | .access fh =>
    match resolve s fh with
    | none => (s, .fail .stale)
    | some _ => (s, .access 63)
  | .readlink fh =>
    match resolve s fh with
    | none => (s, .fail .stale)
    | some i =>
      let ino := s.get i
      if ino.kind ≠ NF3LNK then (s, .fail .err)
      else (s, .data ino.size false (readBytes ino.content 0 ino.size))
  | .read fh off count =>
    match resolve s fh with
    | none => (s, .fail .stale)
    | some i =>
      let ino := s.get i
      if ino.kind ≠ NF3REG then (s, .fail .err)
      else if off ≥ ino.size then (s, .data 0 true [])
      else
        -- a READ larger than rtmax (= the journal-derived transfer bound) is a short read
        let n := if off + min count s.wtmax ≥ ino.size then ino.size - off else min count s.wtmax
        (s, .data n false (readBytes ino.content off n))
  | .write fh off count stable data =>
    match resolve s fh with
    | none => (s, .fail .stale)
    | some i =>
      let ino := s.get i
      if ino.kind ≠ NF3REG then (s, .fail .err)
      else if count > maxWrite s then (s, .fail .err)
      else if count > data.size then (s, .fail .err)
      else if count > MaxFileSize ∨ off > MaxFileSize - count then (s, .fail .err)
      else
        let committed := if s.unstable then stable else FILE_SYNC
        if count = 0 then (s, .written 0 committed ino.size)
        else
          let ino' := { ino with content := .write off (data.extract 0 count) :: ino.content,
                                 size := max ino.size (off + count) }
          (s.set i ino', .written count committed ino'.size)
  | .create dfh name mode =>
    if mode = EXCLUSIVE then (s, .fail .notsupp) else doCreate s c dfh name NF3REG #[]
  | .mkdir dfh name => doCreate s c dfh name NF3DIR #[]
  | .symlink dfh name target => doCreate s c dfh name NF3LNK target
  | .mknod _ _ => (s, .fail .notsupp)
  | .link _ _ _ => (s, .fail .notsupp)
  | .fsstat _ => (s, .fail .notsupp)
  | .remove dfh name => doRemove s dfh name false
  | .rmdir dfh name => doRemove s dfh name true
  | .rename ffh fname tfh tname => doRename s c ffh fname tfh tname
  | .readdir fh cookie count =>
    match resolve s fh with
    | none => (s, .fail .stale)
    | some i =>
      let ino := s.get i
      if ino.kind ≠ NF3DIR then (s, .fail .err)
      else if cookie % DIRENTSZ ≠ 0 then (s, .fail .err)
      else
        let (eof, es) := readdirPage ino.slots cookie count
        (s, .listing eof (es.map fun (sl, ck) => { fileid := sl.inum, name := sl.name, cookie := ck }))
  | .readdirplus fh cookie dircount maxcount =>
    match resolve s fh with
    | none => (s, .fail .stale)
    | some i =>
      let ino := s.get i
      if ino.kind ≠ NF3DIR then (s, .fail .err)
      else if cookie % DIRENTSZ ≠ 0 then (s, .fail .err)
      else
        let (eof, es) := readdirplusPage ino.slots cookie dircount maxcount
        -- attributes and handle only for entries whose inode can be locked in ascending order
        -- while the directory is held: the directory itself and larger numbers
        (s, .listing eof (es.map fun (sl, ck) =>
          let ch := s.get sl.inum
          { fileid := sl.inum, name := sl.name, cookie := ck,
            plus := if sl.inum ≥ i then some (attrOf sl.inum ch, mkFh sl.inum ch.gen) else none }))
  | .fsinfo fh =>
    match resolve s fh with
    | none => (s, .fail .stale)
    | some _ => (s, .fsinfo s.wtmax)
  | .pathconf fh =>
    match resolve s fh with
    | none => (s, .fail .stale)
    | some _ => (s, .pathconf)
  | .commit fh off count =>
    match resolve s fh with
    | none => (s, .fail .stale)
    | some i =>
      let ino := s.get i
      if ino.kind ≠ NF3REG then (s, .fail .err)
      else if (off + count) % 2 ^ 64 > ino.size then (s, .fail .err)
      else (s, .done)
  | .mnt _ => (s, .mounted (mkFh ROOTINUM 1))
  | .restart => (s, .done)

/-- run a whole history -/
def run (s : FS) : List (Op × Choice) → FS × List Reply
  | [] => (s, [])
  | (op, c) :: rest =>
    let (s', r) := step s op c
    let (s'', rs) := run s' rest
    (s'', r :: rs)

end GoNfsd.Model.Fs

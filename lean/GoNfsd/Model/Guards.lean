/-
M5 (guards): the argument guards of the data path, transliterated with Go's wrap-around
`uint64` arithmetic, and the block-map index arithmetic of `inode.bmap` / `indbmap`.
Hand-written from inode/inode.go and nfs/nfs_ops.go; the guards are exercised against the
code by the `seq` correspondence (offsets and counts up to 2^64-1).
-/
import GoNfsd.Gen.Consts

namespace GoNfsd.Model.Guards
open GoNfsd.Gen.Consts

def M64 : UInt64 := UInt64.ofNat MaxFileSize

/-- `inode.Write`: `if count > MaxFileSize() || offset > MaxFileSize()-count { refuse }` -/
def writeRefusedU64 (off count : UInt64) : Bool := count > M64 || off > M64 - count

/-- `NFSPROC3_COMMIT`: `uint64(args.Offset)+uint64(args.Count) > ip.Size` (the sum wraps) -/
def commitRefusedU64 (off count size : UInt64) : Bool := off + count > size

/-- `inode.Read`: `if offset+count >= ip.Size { count = ip.Size - offset }`, reached only with
    `offset < ip.Size`; `count` comes from a 32-bit field. -/
def readCountU64 (off count size : UInt64) : UInt64 := if off + count ≥ size then size - off else count

/-- where logical block `bn` of a file lives (`inode.bmap`): a direct pointer, an entry of the
    indirect block, or an entry of a second-level block reached through the double-indirect root.
    The numbers are the pointer indices; the byte offset inside the 4096-byte block is `8 * index`. -/
inductive BlkPath where
  | direct (i : Nat)
  | ind (i : Nat)
  | dind (i j : Nat)
  deriving Repr, DecidableEq

def bmapPath (bn : Nat) : BlkPath :=
  if bn < NDIRECT then .direct bn
  else if bn - NDIRECT < NBLKBLK then .ind (bn - NDIRECT)
  else .dind ((bn - NDIRECT - NBLKBLK) / NBLKBLK) ((bn - NDIRECT - NBLKBLK) % NBLKBLK)

def BlkPath.inRange : BlkPath → Prop
  | .direct i => i < NDIRECT
  | .ind i => 8 * i + 8 ≤ BlockSize
  | .dind i j => 8 * i + 8 ≤ BlockSize ∧ 8 * j + 8 ≤ BlockSize

end GoNfsd.Model.Guards

/-
M10: the lock manager and the locking discipline of the NFS transactions.

(1) A waits-for model of an exclusive lock manager (`lockmap`): who holds what, who waits for
    what, and whether the request is for a number the transaction has just allocated itself.
(2) The trace discipline that the hooks of `fstxn` (build tag verif) let the harness record per
    transaction: `acq n`, `rel n`, `commit`, `abort` — and executable validators for it
    (ascending acquisition, two-phase shape), run by the `locks` driver on the traces of real runs.
-/
namespace GoNfsd.Model.Locks

/-! ### waits-for model -/

structure Txn where
  held : List Nat                    -- locks held
  waiting : Option (Nat × Bool)      -- lock requested and not yet granted; `true`: a number this
                                     -- transaction allocated itself (may be below what it holds)
  deriving Repr

/-- every ordinary request is above everything the transaction holds (`lockInodes`,
    `getInodesLocked`: ascending inode order with abort-and-retry) -/
def Ascending (ts : List Txn) : Prop :=
  ∀ t ∈ ts, ∀ w, t.waiting = some (w, false) → ∀ h ∈ t.held, h < w

/-- a number that some transaction requests as its own fresh allocation is free; whoever holds
    its lock meanwhile (a stale-handle probe, the background shrinker) is not waiting for
    anything while holding it -/
def FreshHoldersDoNotWait (ts : List Txn) : Prop :=
  ∀ t ∈ ts, ∀ w, t.waiting = some (w, true) → ∀ u ∈ ts, w ∈ u.held → u.waiting = none

/-- a deadlock: a non-empty set of transactions each waiting for a lock held inside the set -/
def Deadlocked (ts D : List Txn) : Prop :=
  D ≠ [] ∧ (∀ t ∈ D, t ∈ ts) ∧ ∀ t ∈ D, ∃ w f, t.waiting = some (w, f) ∧ ∃ u ∈ D, w ∈ u.held

/-! ### per-transaction traces -/

inductive Ev where
  | acq (n : Nat)
  | rel (n : Nat)
  | commit
  | abort
  deriving DecidableEq, Repr

/-- acquisitions strictly ascending (except those listed as the transaction's own allocations)
    and no lock acquired twice without a release in between -/
def ascendingFrom (fresh : List Nat) : List Ev → List Nat → Bool
  | [], _ => true
  | .acq n :: rest, held =>
    (fresh.contains n || held.all (· < n)) && !held.contains n && ascendingFrom fresh rest (n :: held)
  | .rel n :: rest, held => ascendingFrom fresh rest (held.erase n)
  | _ :: rest, held => ascendingFrom fresh rest held

/-- two-phase shape: nothing is released before the commit / abort point, nothing is acquired
    after it, and everything acquired is released afterwards. `early` lists numbers whose early
    release is tolerated (a lock dropped at once because the inode turned out stale or free). -/
def twoPhase (early : List Nat) : List Ev → (ended : Bool) → (held : List Nat) → Bool
  | [], _, held => held.isEmpty
  | .acq n :: rest, ended, held => !ended && twoPhase early rest ended (n :: held)
  | .rel n :: rest, ended, held =>
    held.contains n && (ended || early.contains n) && twoPhase early rest ended (held.erase n)
  | .commit :: rest, ended, held => !ended && twoPhase early rest true held
  | .abort :: rest, _, held => twoPhase early rest true held     -- aborting twice is harmless

end GoNfsd.Model.Locks

/-! ### check and act in one transaction

An operation that inserts a name into a directory must have looked that name up IN THE SAME
TRANSACTION (the directory's lock is held from the lookup to the commit, so nobody can insert the
name in between).  A lookup in an earlier transaction of the same request proves nothing: the
lock was released.  `insertsChecked` validates the name events of one recorded transaction. -/
namespace GoNfsd.Model.Locks

inductive NameEv where
  | lookup (key : Nat)     -- dir.LookupName(directory, name); key identifies (directory, name)
  | insert (key : Nat)     -- dir.AddName(directory, name)
  deriving DecidableEq, Repr

/-- every insertion is preceded, in this transaction, by a lookup of the same (directory, name) -/
def insertsChecked : List NameEv → (looked : List Nat) → Bool
  | [], _ => true
  | .lookup k :: rest, looked => insertsChecked rest (k :: looked)
  | .insert k :: rest, looked => looked.contains k && insertsChecked rest looked

end GoNfsd.Model.Locks

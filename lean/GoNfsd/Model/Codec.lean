/-
M3: on-disk codecs — the 128-byte inode (`inode.Encode/Decode`), the 128-byte directory entry
(`dir.encodeDirEnt/decodeDirEnt`) and the 16-byte file handle (`fh.MakeFh/MakeFh3`), all
little-endian (`marshal`).  Hand-written; tied to the Go code by the `codec` correspondence.
-/
import GoNfsd.Gen.Consts

namespace GoNfsd.Model.Codec
open GoNfsd.Gen.Consts

abbrev Bytes := List UInt8

/-- little-endian encoding of `n` in `k` bytes (`marshal.PutInt` / `PutInt32`) -/
def le : Nat → Nat → Bytes
  | 0, _ => []
  | k + 1, n => UInt8.ofNat (n % 256) :: le k (n / 256)

/-- little-endian decoding (`marshal.GetInt` / `GetInt32`) -/
def leNat : Bytes → Nat
  | [] => 0
  | b :: bs => b.toNat + 256 * leNat bs

structure DInode where
  kind : Nat
  nlink : Nat
  gen : Nat
  size : Nat
  shrinkSize : Nat
  atimeSec : Nat
  atimeNsec : Nat
  mtimeSec : Nat
  mtimeNsec : Nat
  blks : List Nat
  deriving DecidableEq, Repr

def DInode.wf (i : DInode) : Prop :=
  i.kind < 2 ^ 32 ∧ i.nlink < 2 ^ 32 ∧ i.gen < 2 ^ 64 ∧ i.size < 2 ^ 64 ∧ i.shrinkSize < 2 ^ 64 ∧
  i.atimeSec < 2 ^ 32 ∧ i.atimeNsec < 2 ^ 32 ∧ i.mtimeSec < 2 ^ 32 ∧ i.mtimeNsec < 2 ^ 32 ∧
  i.blks.length = NBLKINO ∧ ∀ b ∈ i.blks, b < 2 ^ 64

def encodeInode (i : DInode) : Bytes :=
  le 4 i.kind ++ le 4 i.nlink ++ le 8 i.gen ++ le 8 i.size ++ le 8 i.shrinkSize ++
  le 4 i.atimeSec ++ le 4 i.atimeNsec ++ le 4 i.mtimeSec ++ le 4 i.mtimeNsec ++
  i.blks.flatMap (le 8)

/-- split `bs` into `n` chunks of `k` bytes and decode each -/
def decodeInts (k : Nat) : Nat → Bytes → List Nat
  | 0, _ => []
  | n + 1, bs => leNat (bs.take k) :: decodeInts k n (bs.drop k)

/-- `dec.GetInt()` / `dec.GetInt32()`: decode `k` bytes, return the rest -/
def getLe (k : Nat) (bs : Bytes) : Nat × Bytes := (leNat (bs.take k), bs.drop k)

def decodeInode (bs : Bytes) : DInode :=
  let (kind, r) := getLe 4 bs
  let (nlink, r) := getLe 4 r
  let (gen, r) := getLe 8 r
  let (size, r) := getLe 8 r
  let (shrinkSize, r) := getLe 8 r
  let (atimeSec, r) := getLe 4 r
  let (atimeNsec, r) := getLe 4 r
  let (mtimeSec, r) := getLe 4 r
  let (mtimeNsec, r) := getLe 4 r
  { kind := kind, nlink := nlink, gen := gen, size := size, shrinkSize := shrinkSize,
    atimeSec := atimeSec, atimeNsec := atimeNsec, mtimeSec := mtimeSec, mtimeNsec := mtimeNsec,
    blks := decodeInts 8 NBLKINO r }

/-- `dir.encodeDirEnt`: inode number, name length, name, zero padding to 128 bytes
    (the caller ensures the name fits) -/
def encodeDirEnt (inum : Nat) (name : Bytes) : Bytes :=
  le 8 inum ++ le 8 name.length ++ name ++ List.replicate (DIRENTSZ - 16 - name.length) 0

/-- `dir.decodeDirEnt`; `none` where the Go code panics (length field beyond the slot) -/
def decodeDirEnt (bs : Bytes) : Option (Nat × Bytes) :=
  let inum := leNat (bs.take 8)
  let l := leNat ((bs.drop 8).take 8)
  if 16 + l ≤ bs.length then some (inum, (bs.drop 16).take l) else none

def mkFh (inum gen : Nat) : Bytes := le 8 inum ++ le 8 gen

def parseFh (fh : Bytes) : Nat × Nat :=
  if fh.length < 16 then (0, 0) else (leNat (fh.take 8), leNat ((fh.drop 8).take 8))

end GoNfsd.Model.Codec

/-
M9: go-journal's write-ahead log on a disk with a volatile write buffer.

On-disk layout (wal/0circular.go): header 1 = (end, 511 addresses), header 2 = start, 511 log
slots; log position p lives in slot p % 511.  Two background threads:
  logger    — for p = diskEnd .. newEnd-1: write slot p; Barrier; write header 1 (newEnd); Barrier
  installer — for p = start .. installEnd-1: write U[p] to its home block; Barrier;
              write header 2 (installEnd); Barrier
A Barrier (by either thread) makes every earlier write durable; a crash keeps the durable
writes and ANY subset of the writes issued since the last barrier.  Recovery
(`recoverCircular`) reads both headers and the slots of [start, end).

The model keeps the protocol state as counters over the sequence `U` of all updates ever
assigned a log position (the log is written sequentially, so the contents of slots, headers
and home blocks are determined by how far each kind of write has got):
  slotDur ≤ slotEnd   positions whose slot write is durable / issued
  eD, pE              end value of the durable header 1 / of the header-1 writes still pending
  homeDur ≤ homeCur   positions whose home write is durable / issued
  sD, pS              start value of the durable header 2 / of the pending header-2 writes
Each step carries the guard under which the real thread performs it.  A crash state picks, per
disk cell, the durable content or the content of one pending write to that cell.
Hand-written from wal/*.go; tied to the code by `walcheck`, which maps the recorded disk
trace of a real run onto these steps and checks every guard.
-/
import GoNfsd.Gen.Consts

namespace GoNfsd.Model.Wal
open GoNfsd.Gen.Consts

/-- number of log slots -/
abbrev L : Nat := WAL_LOGSZ

structure Upd (α : Type) where
  addr : Nat
  blk : α

variable {α : Type}

/-- apply updates in order to a block map -/
def applyUpds (m : Nat → α) : List (Upd α) → Nat → α
  | [], a => m a
  | u :: us, a => applyUpds (fun x => if x = u.addr then u.blk else m x) us a

/-- the updates with positions in [lo, hi) -/
def seg (U : Nat → Upd α) (lo hi : Nat) : List (Upd α) := (List.range' lo (hi - lo)).map U

/-- the logical disk after the first `e` updates -/
def spec (base : Nat → α) (U : Nat → Upd α) (e : Nat) : Nat → α := applyUpds base (seg U 0 e)

/-- the protocol state -/
structure St where
  sD : Nat                 -- durable header 2
  pS : List Nat            -- pending header-2 writes (start values), in issue order
  homeDur : Nat
  homeCur : Nat
  eD : Nat                 -- durable header 1
  pE : List Nat            -- pending header-1 writes (end values), in issue order
  slotDur : Nat
  slotEnd : Nat
  deriving Repr

def St.eIssued (s : St) : Nat := s.pE.getLast?.getD s.eD
def St.sIssued (s : St) : Nat := s.pS.getLast?.getD s.sD

inductive Step where
  | slot              -- logger writes the slot of position slotEnd
  | hdr1 (e : Nat)    -- logger writes header 1 with end = e
  | home              -- installer writes position homeCur to its home block
  | hdr2 (s : Nat)    -- installer writes header 2 with start = s
  | barrier
  deriving Repr

/-- the guard under which the real threads take each step -/
def guard (s : St) : Step → Prop
  | .slot => s.slotEnd < s.sD + L                      -- waitForSpace: never over an un-installed entry
  | .hdr1 e => s.eIssued ≤ e ∧ e ≤ s.slotDur ∧ e ≤ s.sD + L    -- after the barrier that follows the slot writes
  | .home => s.homeCur < s.eD                           -- only entries of a durable header 1
  | .hdr2 x => s.sIssued ≤ x ∧ x ≤ s.homeDur            -- after the barrier that follows the home writes
  | .barrier => True

def step (s : St) : Step → St
  | .slot => { s with slotEnd := s.slotEnd + 1 }
  | .hdr1 e => { s with pE := s.pE ++ [e] }
  | .home => { s with homeCur := s.homeCur + 1 }
  | .hdr2 x => { s with pS := s.pS ++ [x] }
  | .barrier => { sD := s.sIssued, pS := [], homeDur := s.homeCur, homeCur := s.homeCur,
                  eD := s.eIssued, pE := [], slotDur := s.slotEnd, slotEnd := s.slotEnd }

def init : St := { sD := 0, pS := [], homeDur := 0, homeCur := 0, eD := 0, pE := [], slotDur := 0, slotEnd := 0 }

/-- the latest position below `e` that lives in slot `i` (what the slot / the header's address
    table holds for that slot once everything below `e` has been written) -/
def lastPos (e i : Nat) : Nat := if e % L > i then e - e % L + i else e - e % L + i - L

/-- a crash state: per cell, the durable content or one pending write -/
structure Crash where
  start : Nat                      -- header 2: sD or a member of pS
  endv : Nat                       -- header 1: eD or a member of pE
  slotPick : Nat → Option Nat      -- per slot index: a pending position living there, if picked
  homePick : Nat → Option Nat      -- per home address: a pending position writing there, if picked

/-- which picks a crash state may make.  For home blocks the pick may be ANY position between
    the durably installed prefix and the durable end of the log that writes that address: this
    covers the pending home writes of the running installer and, after a restart, whatever an
    earlier crash left half-installed. -/
def Crash.valid (s : St) (U : Nat → Upd α) (c : Crash) : Prop :=
  (c.start = s.sD ∨ c.start ∈ s.pS) ∧ (c.endv = s.eD ∨ c.endv ∈ s.pE) ∧
  (∀ i q, c.slotPick i = some q → s.slotDur ≤ q ∧ q < s.slotEnd ∧ q % L = i) ∧
  (∀ a q, c.homePick a = some q → s.homeDur ≤ q ∧ q < s.eD ∧ (U q).addr = a)

/-- the protocol state of a server restarted on a crash state: recovery reloads [start, end)
    into memory; nothing is pending -/
def restart (c : Crash) : St :=
  { sD := c.start, pS := [], homeDur := c.start, homeCur := c.start,
    eD := c.endv, pE := [], slotDur := c.endv, slotEnd := c.endv }

/-- the protocol states that can arise: steps taken under their guards, and restarts from any
    crash state (any number of times) -/
inductive Reach (U : Nat → Upd α) : St → Prop where
  | init : Reach U init
  | step (s : St) (x : Step) : Reach U s → guard s x → Reach U (step s x)
  | crash (s : St) (c : Crash) : Reach U s → c.valid s U → Reach U (restart c)

/-- the content of slot index `i` in a crash state -/
def crashSlot (s : St) (U : Nat → Upd α) (c : Crash) (i : Nat) : α :=
  match c.slotPick i with
  | some q => (U q).blk
  | none => (U (lastPos s.slotDur i)).blk

/-- the address header 1 records for slot index `i` in a crash state (the header written with
    end value `endv` carries the addresses of the latest positions below `endv`) -/
def crashAddr (U : Nat → Upd α) (c : Crash) (i : Nat) : Nat := (U (lastPos c.endv i)).addr

/-- the home blocks in a crash state -/
def crashHome (s : St) (base : Nat → α) (U : Nat → Upd α) (c : Crash) (a : Nat) : α :=
  match c.homePick a with
  | some q => (U q).blk
  | none => spec base U s.homeDur a

/-- what recovery reads from a crash state: the log entries of [start, end) ... -/
def recovered (s : St) (U : Nat → Upd α) (c : Crash) : List (Upd α) :=
  (List.range' c.start (c.endv - c.start)).map fun p => ⟨crashAddr U c (p % L), crashSlot s U c (p % L)⟩

/-- ... laid over the home blocks: the logical disk the recovered server serves -/
def logical (s : St) (base : Nat → α) (U : Nat → Upd α) (c : Crash) : Nat → α :=
  applyUpds (crashHome s base U c) (recovered s U c)

end GoNfsd.Model.Wal

/-
M9b: go-journal's in-memory log (`wal/0sliding.go`, `wal.MemAppend`, `wal.Flush`, the logger's
`takeFrom`) — the part between "a transaction commits" and "positions are written to the
on-disk log" that the WAL model M9 abstracts as the update sequence `U`.

  memLog = log positions [0, end); `mutable` splits them into the part the logger may already be
  writing (immutable) and the tail that later transactions may still ABSORB into:
  `memWrite` puts an update for address a in place of the latest update for a when that one
  lies in the mutable tail, and appends it otherwise.  A transaction is appended as a whole
  under the log's lock.  A flush request (`Flush` / a full log) moves `mutable` to `end`; the
  logger then logs positions up to `mutable` and writes header 1 with that end value.

Hand-written from go-journal v0.5.4 (outside /repo: modelled, not verified).
-/
import GoNfsd.Model.Wal

namespace GoNfsd.Model.MemLog
open GoNfsd.Model.Wal

variable {α : Type}

structure MemLog (α : Type) where
  log : List (Upd α)
  mutable : Nat          -- positions below it may be being logged: never touched again

/-- replace the LAST update for address `a` at or after index `from`, if there is one -/
def absorbFrom (a : Nat) (b : α) : List (Upd α) → Option (List (Upd α))
  | [] => none
  | u :: us =>
    match absorbFrom a b us with
    | some us' => some (u :: us')
    | none => if u.addr = a then some (⟨a, b⟩ :: us) else none

/-- `sliding.memWrite` for one update: absorb into the mutable tail or append -/
def write1 (m : MemLog α) (u : Upd α) : MemLog α :=
  match absorbFrom u.addr u.blk (m.log.drop m.mutable) with
  | some tail' => { m with log := m.log.take m.mutable ++ tail' }
  | none => { m with log := m.log ++ [u] }

/-- `MemAppend`: a whole transaction, atomically -/
def memAppend (m : MemLog α) (txn : List (Upd α)) : MemLog α := txn.foldl write1 m

/-- a flush request: everything appended so far becomes loggable -/
def flush (m : MemLog α) : MemLog α := { m with mutable := m.log.length }

inductive Ev (α : Type) where
  | txn (us : List (Upd α))
  | flush

def stepEv (m : MemLog α) : Ev α → MemLog α
  | .txn us => memAppend m us
  | .flush => flush m

def runEv (m : MemLog α) (es : List (Ev α)) : MemLog α := es.foldl stepEv m

/-- the transactions of an event list, in order -/
def txnsOf : List (Ev α) → List (Upd α)
  | [] => []
  | .txn us :: es => us ++ txnsOf es
  | .flush :: es => txnsOf es

end GoNfsd.Model.MemLog

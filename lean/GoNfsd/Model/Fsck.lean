/-
M7 (structure part): an image of the logical disk — the on-disk inodes, the indirect blocks,
the directory slots and the two bitmaps, decoded by the harness with the repository's own
decoders from a log-aware read of every block — and the executable structure checker `fsckOk`.

`Props/C04.lean` proves the checker sound: `fsckOk img = true` implies the declarative
well-formedness statement `WF img` (pointers in the data region, one owner per block, bitmap =
metadata ∪ owned, inode bitmap = live, directory tree with one name per live object, unique
well-formed names, "." and ".." right, sizes agree with the blocks present).

The layout (`DataStart`, `NInode`) is the one REGENERATED from super/super.go.
-/
import GoNfsd.Gen.Super

namespace GoNfsd.Model.Fsck
open GoNfsd.Gen.Consts GoNfsd.Gen.Super

/-- an on-disk inode (`inode.Decode`) -/
structure DInode where
  inum : Nat
  kind : Nat
  nlink : Nat
  gen : Nat
  size : Nat
  shrink : Nat
  blks : List Nat
  deriving Repr, Inhabited

/-- a directory slot in use (`dir.decodeDirEnt` with inum ≠ 0) -/
structure Ent where
  slot : Nat
  inum : Nat
  name : List UInt8
  deriving Repr, Inhabited

structure Image where
  sz : Nat
  /-- no RPC in flight, background freeing finished, never crashed: nothing is half-freed -/
  quiescent : Bool
  /-- every inode of the table that is not all-zero -/
  inodes : List DInode
  /-- blocks used as indirect blocks: their non-null entries (index, pointer) -/
  ind : List (Nat × List (Nat × Nat))
  /-- directories: their slots in use -/
  dirs : List (Nat × List Ent)
  /-- the block bitmap / the inode bitmap as maximal runs `[a,b)` of set bits -/
  bruns : List (Nat × Nat)
  iruns : List (Nat × Nat)
  /-- the running server's in-memory allocators (when there is a running server), as runs -/
  abruns : Option (List (Nat × Nat))
  airuns : Option (List (Nat × Nat))
  /-- directories that were the subject of a successful cross-directory RENAME (known finding:
      their ".." is left behind); empty in strict mode -/
  moved : List Nat
  deriving Inhabited

def dataStart (img : Image) : Nat := (MkFsSuper img.sz).DataStart
def nInode (img : Image) : Nat := (MkFsSuper img.sz).NInode

def padEnd (sz : Nat) : Nat := (sz / NBITBLOCK + 1) * NBITBLOCK

/-- blocks that formatting marks: everything below the data region, and the padding of the
    last bitmap block in use beyond the end of the disk (`nfs.markAlloc`) -/
def metaBlock (sz b : Nat) : Bool :=
  b < (MkFsSuper sz).DataStart || (sz ≤ b && b < padEnd sz)

/-- membership in a set given as runs -/
def inRuns (rs : List (Nat × Nat)) (b : Nat) : Bool := rs.any fun r => decide (r.1 ≤ b) && decide (b < r.2)

/-- block `b` is marked in use on disk / inode `i` is marked in use on disk -/
def marked (img : Image) (b : Nat) : Bool := inRuns img.bruns b
def imarked (img : Image) (i : Nat) : Bool := inRuns img.iruns i

/-- the whole range `[lo,hi)` lies inside one run -/
def covers (rs : List (Nat × Nat)) (lo hi : Nat) : Bool :=
  decide (hi ≤ lo) || rs.any fun r => decide (r.1 ≤ lo) && decide (hi ≤ r.2)

/-- the members of the runs that lie in `[lo,hi)` -/
def clipExpand (rs : List (Nat × Nat)) (lo hi : Nat) : List Nat :=
  rs.flatMap fun r => List.range' (max r.1 lo) (min r.2 hi - max r.1 lo)

/-! ### block ownership -/

/-- an owned block with the first logical block index it serves -/
structure Own where
  minIdx : Nat
  blk : Nat
  deriving Repr

def indOf (img : Image) (b : Nat) : List (Nat × Nat) :=
  match img.ind.find? (fun x => x.1 == b) with
  | some x => x.2
  | none => []

def ownDirectFrom : List Nat → Nat → List Own
  | [], _ => []
  | p :: ps, i => if p ≠ 0 then ⟨i, p⟩ :: ownDirectFrom ps (i + 1) else ownDirectFrom ps (i + 1)

def ownInd (img : Image) (root base : Nat) : List Own :=
  if root = 0 then [] else ⟨base, root⟩ :: (indOf img root).map fun jp => ⟨base + jp.1, jp.2⟩

def ownDind (img : Image) (root base : Nat) : List Own :=
  if root = 0 then []
  else ⟨base, root⟩ :: (indOf img root).flatMap fun jq => ownInd img jq.2 (base + jq.1 * NBLKBLK)

def owned (img : Image) (ino : DInode) : List Own :=
  ownDirectFrom (ino.blks.take NDIRECT) 0 ++ ownInd img (ino.blks.getD INDIRECT 0) NDIRECT ++
    ownDind img (ino.blks.getD DINDIRECT 0) (NDIRECT + NBLKBLK)

def allOwned (img : Image) : List Nat := img.inodes.flatMap fun ino => (owned img ino).map (·.blk)

/-- number of blocks the inode may still hold: its size rounded up, or more while it shrinks -/
def bound (ino : DInode) : Nat := max ((ino.size + BlockSize - 1) / BlockSize) ino.shrink

/-! ### directories -/

def entsOf (img : Image) (d : Nat) : List Ent :=
  match img.dirs.find? (fun x => x.1 == d) with
  | some x => x.2
  | none => []

def children (img : Image) (d : Nat) : List Ent := (entsOf img d).filter fun e => decide (2 ≤ e.slot)

def dirInodes (img : Image) : List DInode := img.inodes.filter fun i => i.kind == NF3DIR

def live (img : Image) : List DInode := img.inodes.filter fun i => i.kind != 0

/-- (parent directory, child) for every name other than "." and ".." -/
def refs (img : Image) : List (Nat × Nat) :=
  (dirInodes img).flatMap fun d => (children img d.inum).map fun e => (d.inum, e.inum)

def liveNonRoot (img : Image) : List Nat :=
  ((live img).filter fun i => i.inum != ROOTINUM).map (·.inum)

def parentOf (img : Image) (i : Nat) : Option Nat :=
  match (refs img).find? (fun r => r.2 == i) with
  | some r => some r.1
  | none => none

def isDirInum (img : Image) (i : Nat) : Bool := (dirInodes img).any fun d => d.inum == i

/-- follow parents up to the root (or, in lenient mode, up to a directory moved by RENAME) -/
def climbs (img : Image) : Nat → Nat → Bool
  | 0, i => decide (i = ROOTINUM) || img.moved.contains i
  | fuel + 1, i => decide (i = ROOTINUM) || img.moved.contains i ||
      (match parentOf img i with
       | some p => climbs img fuel p
       | none => false)

def dot : List UInt8 := [46]
def dotdot : List UInt8 := [46, 46]

def slotEnt (img : Image) (d slot : Nat) : Option Ent := (entsOf img d).find? fun e => e.slot == slot

/-- the "." and ".." of directory `d` whose parent is `p` -/
def dotsOk (img : Image) (d p : Nat) : Bool :=
  (match slotEnt img d 0 with
   | some e => e.name == dot && e.inum == d
   | none => false) &&
  (match slotEnt img d 1 with
   | some e => e.name == dotdot && (e.inum == p || img.moved.contains d)
   | none => false)

def nameOk (e : Ent) : Bool :=
  decide (e.name.length ≤ MAXNAMELEN) && (decide (e.slot < 2) || (e.name != dot && e.name != dotdot))

/-! ### the checker -/

def chkInodes (img : Image) : Bool :=
  decide (img.inodes.map (·.inum)).Nodup && img.inodes.all fun i => decide (i.inum < nInode img) && decide (i.blks.length = NDIRECT + 2)

def chkPtrs (img : Image) : Bool :=
  (allOwned img).all fun b => decide (dataStart img ≤ b) && decide (b < img.sz)

def chkOneOwner (img : Image) : Bool := decide (allOwned img).Nodup

def chkBitmap (img : Image) : Bool :=
  img.bruns.all (fun r => decide (r.2 ≤ padEnd img.sz)) &&
  covers img.bruns 0 (dataStart img) && covers img.bruns img.sz (padEnd img.sz) &&
  (clipExpand img.bruns (dataStart img) img.sz).all (fun b => (allOwned img).contains b) &&
  (allOwned img).all (fun b => marked img b)

def chkIBitmap (img : Image) : Bool :=
  img.iruns.all (fun r => decide (r.2 ≤ nInode img)) &&
  (clipExpand img.iruns 0 (nInode img)).all (fun i => i == 0 || (live img).any fun ino => ino.inum == i) &&
  (live img).all (fun ino => imarked img ino.inum) && imarked img 0

def chkSizes (img : Image) : Bool :=
  img.inodes.all fun ino =>
    (owned img ino).all (fun o => decide (o.minIdx < bound ino)) &&
    (ino.kind != NF3DIR ||
      (decide (ino.size % DIRENTSZ = 0) && (entsOf img ino.inum).all fun e => decide ((e.slot + 1) * DIRENTSZ ≤ ino.size)))

def chkNames (img : Image) : Bool :=
  (dirInodes img).all fun d =>
    decide ((entsOf img d.inum).map (·.name)).Nodup && decide ((entsOf img d.inum).map (·.slot)).Nodup &&
    (entsOf img d.inum).all nameOk

/-- every live object other than the root has exactly one name, and every name denotes a live object -/
def chkOneName (img : Image) : Bool :=
  decide ((refs img).map (·.2)).Nodup &&
  ((refs img).map (·.2)).all (fun i => (liveNonRoot img).contains i) &&
  (liveNonRoot img).all (fun i => ((refs img).map (·.2)).contains i)

def chkDots (img : Image) : Bool :=
  dotsOk img ROOTINUM ROOTINUM &&
  (refs img).all fun r => !isDirInum img r.2 || dotsOk img r.2 r.1

def chkRootDir (img : Image) : Bool := isDirInum img ROOTINUM

def chkReach (img : Image) : Bool :=
  (live img).all fun i => climbs img (img.inodes.length + 1) i.inum

/-- at a quiescent point of a server that never crashed nothing is half-freed -/
def chkQuiescent (img : Image) : Bool :=
  !img.quiescent || img.inodes.all (fun ino => ino.kind != 0 || (owned img ino).isEmpty)

/-- whenever no request is in flight, the running server's allocators equal the bitmaps of the logical disk -/
def chkAlloc (img : Image) : Bool :=
  (match img.abruns with
   | some a => a == img.bruns
   | none => true) &&
  (match img.airuns with
   | some a => a == img.iruns
   | none => true)

def checks : List (String × (Image → Bool)) :=
  [("inode-table", chkInodes), ("pointer-outside-data-region", chkPtrs), ("block-with-two-owners", chkOneOwner),
   ("block-bitmap-differs-from-ownership", chkBitmap), ("inode-bitmap-differs-from-live-inodes", chkIBitmap),
   ("blocks-beyond-size", chkSizes), ("directory-names", chkNames), ("live-object-without-exactly-one-name", chkOneName),
   ("dot-or-dotdot-wrong", chkDots), ("root-not-a-directory", chkRootDir), ("object-unreachable-from-root", chkReach),
   ("half-freed-object-at-quiescence", chkQuiescent), ("allocator-differs-from-bitmap", chkAlloc)]

def fsckOk (img : Image) : Bool :=
  chkInodes img && chkPtrs img && chkOneOwner img && chkBitmap img && chkIBitmap img && chkSizes img &&
  chkNames img && chkOneName img && chkDots img && chkRootDir img && chkReach img && chkQuiescent img && chkAlloc img

/-- which checks fail (diagnosis; the verdict is `fsckOk`) -/
def failing (img : Image) : List String := (checks.filter fun c => !c.2 img).map (·.1)

end GoNfsd.Model.Fsck

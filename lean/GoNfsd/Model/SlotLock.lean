/-
M8d: inode locks and cache slots together — why a slot must be fetched UNDER the lock.

The inode cache (M8c) hands out slots by inode number and evicts entries whoever still uses them;
a slot is never recycled (`cache_slot_stands_for_one_id`), so an evicted slot lives on as an orphan
in the hands of whoever holds a pointer to it.  A transaction mutates the cached inode IN PLACE
while it holds the inode's lock; if it aborts, `forgetInodes` clears the slot the cache has for the
inode AT THAT MOMENT.  Tokens stand for slot addresses, `tainted` for "holds changes of a
transaction that has not committed".

The discipline (`Gen.Skeleton.slotUses`, `slots_are_fetched_under_the_lock`): `lookup` only by the
holder of the lock.  Under it, nobody ever obtains a slot holding another transaction's
uncommitted changes (`Lemmas/SlotLock.lookup_never_returns_foreign_taint`); without it the seeded
change C03i is a four-step counterexample (`Props/C03`).
-/
namespace GoNfsd.Model.SlotLock

structure St where
  cache : Nat → Option Nat          -- inode number ↦ token of its current slot
  next : Nat                        -- the next fresh token
  tainted : Nat → Option Nat        -- token ↦ the transaction whose uncommitted changes it holds
  lock : Nat → Option Nat           -- inode number ↦ transaction holding its lock
  ptr : Nat → Nat → Option Nat      -- transaction ↦ inode number ↦ the slot pointer it keeps

inductive Op where
  | acquire (t i : Nat)     -- `Lockmap.Acquire` (granted: nobody holds it)
  | lookup (t i : Nat)      -- `Icache.LookupSlot`: the current slot, or a fresh one on a miss
  | evict (i : Nat)         -- the LRU drops the entry of any inode at any time
  | modify (t i : Nat)      -- mutate the cached inode in place through the kept pointer
  | commit (t i : Nat)      -- commit: the changes become the disk's; release
  | abort (t i : Nat)       -- `forgetInodes` (clear the CURRENT slot), release

def empty : St :=
  { cache := fun _ => none, next := 0, tainted := fun _ => none, lock := fun _ => none, ptr := fun _ _ => none }

def upd {β : Type} (f : Nat → β) (k : Nat) (v : β) : Nat → β := fun x => if x = k then v else f x

/-- one step; `none`: not enabled (lock taken, no pointer, not the holder where the code requires it) -/
def step (s : St) : Op → Option St
  | .acquire t i =>
    match s.lock i with
    | none => some { s with lock := upd s.lock i (some t) }
    | some _ => none
  | .lookup t i =>
    match s.cache i with
    | some k => some { s with ptr := upd s.ptr t (upd (s.ptr t) i (some k)) }
    | none => some { s with cache := upd s.cache i (some s.next), next := s.next + 1,
                            ptr := upd s.ptr t (upd (s.ptr t) i (some s.next)) }
  | .evict i => some { s with cache := upd s.cache i none }
  | .modify t i =>
    if s.lock i = some t then
      match s.ptr t i with
      | some k => some { s with tainted := upd s.tainted k (some t) }
      | none => none
    else none
  | .commit t i =>
    if s.lock i = some t then
      some { s with lock := upd s.lock i none, ptr := upd s.ptr t (upd (s.ptr t) i none),
                    tainted := fun k => if s.tainted k = some t then none else s.tainted k }
    else none
  | .abort t i =>
    if s.lock i = some t then
      -- forgetInodes: LookupSlot(i) and clear what it returns (a fresh slot on a miss: nothing to clear)
      let s1 : St := match s.cache i with
        | some k => { s with tainted := upd s.tainted k none }
        | none => { s with cache := upd s.cache i (some s.next), next := s.next + 1 }
      some { s1 with lock := upd s1.lock i none, ptr := upd s1.ptr t (upd (s1.ptr t) i none) }
    else none

def run (s : St) : List Op → Option St
  | [] => some s
  | op :: rest => (step s op).bind fun s' => run s' rest

/-- the discipline: a slot is looked up only by the holder of the inode's lock -/
def Disciplined (s : St) : List Op → Prop
  | [] => True
  | op :: rest =>
    (match op with | .lookup t i => s.lock i = some t | _ => True) ∧
    (match step s op with | some s' => Disciplined s' rest | none => True)

end GoNfsd.Model.SlotLock

/-
M8c: `cache.Cache` — the LRU cache of slots the inode cache is built on.  `LookupSlot(id)` returns
the slot registered for `id`, registering a NEW slot (evicting the least recently used entry when
the cache is full) on a miss.  A slot is identified by a token (in the code: the address of the
`Cslot`): callers keep the slot pointer across blocking operations, so a slot must never come to
stand for another id.  Hand-written from cache/cache.go; tied to the code by the `cache`
correspondence (random lookups on the real cache, slot identity observed through the pointers).
-/
namespace GoNfsd.Model.Cache

structure C where
  sz : Nat
  entries : List (Nat × Nat)     -- (id, token), least recently used first
  next : Nat                     -- the next fresh token

def mk (sz : Nat) : C := { sz := sz, entries := [], next := 0 }

def find (es : List (Nat × Nat)) (id : Nat) : Option Nat := (es.find? fun e => e.1 == id).map (·.2)

/-- `LookupSlot`: (cache, token of the slot returned; none = the Go code panics: capacity 0) -/
def lookupSlot (c : C) (id : Nat) : C × Option Nat :=
  match find c.entries id with
  | some t =>
    ({ c with entries := (c.entries.filter fun e => e.1 != id) ++ [(id, t)] }, some t)
  | none =>
    if c.entries.length ≥ c.sz then
      match c.entries with
      | [] => (c, none)                                   -- evict() on an empty list panics
      | _ :: rest => ({ c with entries := rest ++ [(id, c.next)], next := c.next + 1 }, some c.next)
    else ({ c with entries := c.entries ++ [(id, c.next)], next := c.next + 1 }, some c.next)

def run (c : C) : List Nat → C × List (Option Nat)
  | [] => (c, [])
  | id :: rest =>
    let r := lookupSlot c id
    let rr := run r.1 rest
    (rr.1, r.2 :: rr.2)

end GoNfsd.Model.Cache

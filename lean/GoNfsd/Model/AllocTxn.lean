/-
M8b: the allocation discipline of `alloctxn` — how the in-memory allocators and the on-disk
bitmaps are kept in step by concurrent transactions.
  AllocINum / AllocBlock : the in-memory allocator marks the number at once (nobody else can get
                           it) and the transaction remembers it in its `alloc` list
  FreeINum / FreeBlock   : the transaction remembers the number in its `free` list; the
                           in-memory allocator is NOT touched (the number stays unavailable)
  PreCommit + commit     : the bitmap bits of the `alloc` list are set, then those of the `free`
                           list cleared, in the transaction's own journal transaction
  PostCommit             : the `free` list is given back to the in-memory allocator
  PostAbort              : the `alloc` list is given back to the in-memory allocator
Hand-written from alloctxn/alloctxn.go and fstxn/commit.go; numbers are block or inode numbers
(one instance of the model per allocator).  Tied to the code by the coherence oracle (at every
quiescent point both allocators are compared with the bitmaps of the logical disk).
-/
namespace GoNfsd.Model.AllocTxn

structure St where
  disk : Nat → Bool                    -- the bitmap on the logical disk
  mem : Nat → Bool                     -- the in-memory allocator
  tx : Nat → List Nat × List Nat       -- per transaction id: (alloc list, free list); ([], []) = not open

inductive AOp where
  | alloc (t n : Nat)      -- AllocNum returned n to transaction t
  | free (t n : Nat)       -- transaction t frees n
  | commit (t : Nat)
  | abort (t : Nat)

def setTx (tx : Nat → List Nat × List Nat) (t : Nat) (v : List Nat × List Nat) : Nat → List Nat × List Nat :=
  fun u => if u = t then v else tx u

def step (s : St) : AOp → St
  | .alloc t n =>
    { s with mem := fun m => if m = n then true else s.mem m, tx := setTx s.tx t (n :: (s.tx t).1, (s.tx t).2) }
  | .free t n =>
    { s with tx := setTx s.tx t ((s.tx t).1, n :: (s.tx t).2) }
  | .commit t =>
    { disk := fun n => (s.disk n || (s.tx t).1.contains n) && !(s.tx t).2.contains n,
      mem := fun n => s.mem n && !(s.tx t).2.contains n,
      tx := setTx s.tx t ([], []) }
  | .abort t =>
    { s with mem := fun n => s.mem n && !(s.tx t).1.contains n, tx := setTx s.tx t ([], []) }

/-- what the callers guarantee: the allocator hands out only numbers it holds free
    (`allocator_hands_out_only_free_numbers`), and a transaction frees only a number that is in
    use and that it alone works on (it holds the lock of the object owning the number) -/
def Allowed (s : St) : AOp → Prop
  | .alloc _ n => s.mem n = false
  | .free t n => s.mem n = true ∧ ∀ u, u ≠ t → n ∉ (s.tx u).1 ∧ n ∉ (s.tx u).2
  | _ => True

/-- every operation of the history is allowed in the state it meets -/
def AllowedAll : St → List AOp → Prop
  | _, [] => True
  | s, op :: rest => Allowed s op ∧ AllowedAll (step s op) rest

def run (s : St) : List AOp → St
  | [] => s
  | op :: rest => run (step s op) rest

/-- a server started on a disk: the allocators are built from the bitmaps, nothing is open -/
def fresh (disk : Nat → Bool) : St := { disk := disk, mem := disk, tx := fun _ => ([], []) }

def Quiescent (s : St) : Prop := ∀ t, s.tx t = ([], [])

end GoNfsd.Model.AllocTxn

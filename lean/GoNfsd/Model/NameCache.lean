/-
M8e "NameCache": the per-directory name cache of `dir/dcache.go` + `dcache/dcache.go` together with
the slot choice of `dir.AddNameDir` (the `Lastoff` hint) and `dir.RemNameDir`, on the slot lists of the
reference model M6 (`Model/Fs`: `Slot`, `putSlot`, `lookupSlots`).

Hand-written from the code as it is in /repo now:

* `dcache.Dcache` is a Go map name ↦ (inum, offset) plus `Lastoff`; here an association list
  (`DC.add` = map assignment: replaces an entry of the same name; `DC.del` = `delete`) and a slot
  INDEX (offset / DIRENTSZ; every offset the code stores is one it got from the slot loop, and the
  `dcache` correspondence checks divisibility).
* `mkDcache` = `ApplyEnts` over the whole directory with `Add` as callback: `build`.
* `LookupName`, `AddName`, `RemName` build the cache when `dip.Dcache == nil` and then trust it.
* `AddNameDir` scans from `Lastoff` for the first free slot; offset 0 doubles as "nothing found"
  (`if finalOff == 0 { finalOff = dip.Size }`): `addSlot`.
* a cached inode is dropped by eviction, by a restart and by `forgetInodes` of an aborted transaction
  (`drop`, `abort`); the abort also undoes the directory's slots.

Tied to the code by the `dcache` correspondence (`harness dcache` → `drv dcache`): real transactions
on a real directory inode calling `dir.LookupName / AddName / RemName`, with commits, aborts and dropped
caches; after every step the reply, `Lastoff`, the whole cache map (read by reflection) and the
directory's slots as read from the inode are compared with the model.

Not modelled: a slot WRITE that fails (no space; the transaction then aborts and the cache is dropped),
the directory inode's kind test (the model is of a directory).
-/
import GoNfsd.Model.Fs

namespace GoNfsd.Model.NameCache
open GoNfsd.Model.Fs GoNfsd.Gen.Consts

/-- one entry of the Go map `cache map[string]Dentry` -/
structure Ent where
  name : Bytes
  inum : Nat
  idx : Nat          -- slot index = `Dentry.Off / DIRENTSZ`
  deriving DecidableEq, Repr, Inhabited

structure DC where
  ents : List Ent := []
  lastoff : Nat := 0   -- slot index = `Lastoff / DIRENTSZ`
  deriving Repr, Inhabited

/-- `Dcache.Lookup` -/
def DC.lookup (dc : DC) (name : Bytes) : Option (Nat × Nat) :=
  match dc.ents.find? (fun e => e.name = name) with
  | some e => some (e.inum, e.idx)
  | none => none

/-- `Dcache.Add`: map assignment -/
def DC.add (dc : DC) (name : Bytes) (inum idx : Nat) : DC :=
  { dc with ents := { name := name, inum := inum, idx := idx } :: dc.ents.filter (fun e => e.name ≠ name) }

/-- `Dcache.Del` -/
def DC.del (dc : DC) (name : Bytes) : DC :=
  { dc with ents := dc.ents.filter (fun e => e.name ≠ name) }

/-- the loop of `ApplyEnts` with `mkDcache`'s callback, from slot index `i` on -/
def buildGo : List Slot → Nat → DC → DC
  | [], _, dc => dc
  | s :: rest, i, dc => buildGo rest (i + 1) (if s.inum = 0 then dc else dc.add s.name s.inum i)

/-- `mkDcache` -/
def build (slots : List Slot) : DC := buildGo slots 0 {}

/-- the loop of `AddNameDir` over the slots from index `i` on -/
def firstFreeGo : List Slot → Nat → Option Nat
  | [], _ => none
  | s :: rest, i => if s.inum = 0 then some i else firstFreeGo rest (i + 1)

def firstFree (slots : List Slot) (start : Nat) : Option Nat := firstFreeGo (slots.drop start) start

/-- the slot `AddNameDir` writes: the first free one from the hint on, else the end; offset 0 means
    "none found" in the code, so a free slot 0 is never used -/
def addSlot (slots : List Slot) (lastoff : Nat) : Nat :=
  match firstFree slots lastoff with
  | some 0 => slots.length
  | some j => j
  | none => slots.length

/-- a directory as the server holds it: the slots (disk) and the name cache of the cached inode -/
structure Dir where
  slots : List Slot := []
  dc : Option DC := none
  deriving Inhabited

/-- `if dip.Dcache == nil { mkDcache(dip, op) }` -/
def Dir.cache (d : Dir) : DC :=
  match d.dc with
  | some c => c
  | none => build d.slots

/-- `dir.LookupName`: (inum, slot index) -/
def lookupName (d : Dir) (name : Bytes) : Dir × Option (Nat × Nat) :=
  let c := d.cache
  ({ d with dc := some c }, c.lookup name)

/-- `dir.AddName`: the slot index written, `none` when refused (name too long: before the cache is built) -/
def addName (d : Dir) (inum : Nat) (name : Bytes) : Dir × Option Nat :=
  if name.length > MAXNAMELEN then (d, none)
  else
    let c := d.cache
    let i := addSlot d.slots c.lastoff
    ({ slots := putSlot d.slots i { inum := inum, name := name },
       dc := some { (c.add name inum i) with lastoff := i } }, some i)

/-- `dir.RemName`: the slot index cleared, `none` when the name is not there -/
def remName (d : Dir) (name : Bytes) : Dir × Option Nat :=
  if name.length > MAXNAMELEN then (d, none)
  else
    let c := d.cache
    match c.lookup name with
    | none => ({ d with dc := some c }, none)
    | some (_, i) =>
      ({ slots := d.slots.set i freeSlot, dc := some { (c.del name) with lastoff := i } }, some i)

/-! ### the directory inside transactions -/

inductive Op where
  | look (name : Bytes)
  | add (name : Bytes) (inum : Nat)   -- as every caller in nfs/ uses it: after a lookup under the same lock
  | rem (name : Bytes)
  | drop                              -- the cached inode is evicted / the server restarts
  | begin_                            -- a transaction takes the directory's lock
  | abort                             -- it aborts: slots as at `begin_`, cached inode forgotten
  deriving Repr

inductive Out where
  | found (inum idx : Nat)
  | absent
  | added (idx : Nat)
  | present                           -- the lookup before the insertion found the name
  | refused
  | removed (idx : Nat)
  | unit
  deriving DecidableEq, Repr

structure St where
  cur : Dir := {}
  saved : List Slot := []
  deriving Inhabited

def step (s : St) : Op → St × Out
  | .look name =>
    let r := lookupName s.cur name
    ({ s with cur := r.1 }, match r.2 with | some (ino, i) => .found ino i | none => .absent)
  | .add name inum =>
    let r := lookupName s.cur name
    match r.2 with
    | some _ => ({ s with cur := r.1 }, .present)
    | none =>
      if inum = 0 then ({ s with cur := r.1 }, .refused)
      else
        let a := addName r.1 inum name
        ({ s with cur := a.1 }, match a.2 with | some i => .added i | none => .refused)
  | .rem name =>
    let r := remName s.cur name
    ({ s with cur := r.1 }, match r.2 with | some i => .removed i | none => .absent)
  | .drop => ({ s with cur := { s.cur with dc := none } }, .unit)
  | .begin_ => ({ s with saved := s.cur.slots }, .unit)
  | .abort => ({ s with cur := { slots := s.saved, dc := none } }, .unit)

def run (s : St) (ops : List Op) : St := ops.foldl (fun s o => (step s o).1) s

/-- a directory as `InitDir` / `MkRootDir` leave it, cache as built by the two `AddName`s -/
def initDir (self parent : Nat) : Dir :=
  ((addName ((addName {} self [46]).1) parent [46, 46]).1)

end GoNfsd.Model.NameCache

import GoNfsd.Props.C15
import GoNfsd.Props.C16
import GoNfsd.Driver.Mkfs
import GoNfsd.Driver.Xdr

import GoNfsd.Props.C15
import GoNfsd.Driver.Mkfs

#!/bin/sh
# [TIER=quick|thorough] [PROPS="C01 …"] tools/sweep.sh <seeds...> — one tier of the checks for several VERIF_SEED values, on a private snapshot of /repo's HEAD
# when run under `vp run --with-repo` (so that experiments on /repo's working tree do not disturb it).  Prints one line per
# (seed, property) that is not a plain OK.  Not evidence: a finding here is re-run in /verif against /repo itself.
cd "$(dirname "$0")/.."
if [ -n "$VP_RUN_REPO" ]; then
  export VERIF_REPO="$VP_RUN_REPO"
  sed -i "s#=> /repo#=> $VP_RUN_REPO#" go/go.mod
fi
bin/setup >/dev/null 2>&1 || { echo "setup failed"; exit 2; }
TIER=${TIER:-quick}
PROPS=${PROPS:-C01 C02 C03 C04 C05 C06 C07 C08 C09 C10 C11 C12 C13 C14 C15 C16 C17 C18 C19}
for s in "$@"; do
  for p in $PROPS; do
    out=$(VERIF_SEED=$s bin/check $p --tier $TIER 2>&1 | grep -E '^(OK|VIOLATION|KNOWN-FINDING)' | tr '\n' ' ')
    case "$out" in
      "OK "*) ;;
      "KNOWN-FINDING"*"OK "*) ;;
      *) echo "seed=$s $p: $out"; ls replays 2>/dev/null | tail -2 ;;
    esac
  done
  echo "seed $s done"
done

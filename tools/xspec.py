#!/usr/bin/env python3
"""One-off transcription tool: parses an XDR language file (RFC 1813's definitions as shipped in
go-rpcgen's rfc1813/prot.x) and prints lean/GoNfsd/Spec/Rfc1813.lean — the table of
fully-inlined type descriptors and the procedure table.  The OUTPUT is committed and reviewed
(Spec/Rfc1813.lean is the expectation the regenerated tables are compared with); this tool is
kept for provenance only and is not run by the checks.
"""
import re
import sys

src = open(sys.argv[1]).read()
src = re.sub(r"/\*.*?\*/", "", src, flags=re.S)
toks = re.findall(r"0x[0-9a-fA-F]+|[A-Za-z_][A-Za-z_0-9]*|\d+|[{}()\[\]<>;,=*:]", src)
pos = 0


def peek():
    return toks[pos] if pos < len(toks) else None


def nxt():
    global pos
    t = toks[pos]
    pos += 1
    return t


def expect(t):
    x = nxt()
    assert x == t, (x, t, toks[pos - 5:pos + 5])


consts = {}
types = {}     # name -> decl
order = []
progs = []
uniondisc = {}
armsnamed = {}
armslabels = {}


def value(t):
    if t.isdigit():
        return int(t)
    return consts[t]


def parse_decl():
    """type-specifier declarator ; returns (name, typeexpr)"""
    t = nxt()
    if t == "void":
        return (None, ("void",))
    if t == "unsigned":
        u = nxt()
        base = {"int": ("u32",), "hyper": ("u64",)}[u]
    elif t == "int":
        base = ("s32",)
    elif t == "hyper":
        base = ("s64",)
    elif t == "bool":
        base = ("bool",)
    elif t == "opaque":
        base = ("opaque",)
    elif t == "string":
        base = ("string",)
    else:
        base = ("ref", t)
    ptr = False
    if peek() == "*":
        nxt()
        ptr = True
    name = nxt()
    ty = base
    if peek() == "[":
        nxt()
        n = value(nxt())
        expect("]")
        assert base == ("opaque",)
        ty = ("opaqueFix", n)
    elif peek() == "<":
        nxt()
        mx = None
        if peek() != ">":
            mx = value(nxt())
        expect(">")
        if base == ("opaque",):
            ty = ("opaqueVar", mx)
        elif base == ("string",):
            ty = ("str", mx)
        elif base == ("u32",):
            ty = ("arrU32", mx)
        else:
            raise Exception("array of " + str(base))
    if ptr:
        ty = ("ptr", ty)
    return (name, ty)


while pos < len(toks):
    t = nxt()
    if t == "const":
        n = nxt(); expect("="); consts[n] = int(nxt(), 0); expect(";")
    elif t == "typedef":
        n, ty = parse_decl(); expect(";")
        types[n] = ("typedef", ty); order.append(n)
    elif t == "enum":
        n = nxt(); expect("{")
        while True:
            k = nxt(); expect("="); consts[k] = int(nxt())
            if peek() == ",":
                nxt(); continue
            break
        expect("}"); expect(";")
        types[n] = ("typedef", ("u32",)); order.append(n)
    elif t == "struct":
        n = nxt(); expect("{")
        fs = []
        while peek() != "}":
            fn, ty = parse_decl(); expect(";")
            fs.append((fn, ty))
        expect("}"); expect(";")
        types[n] = ("struct", fs); order.append(n)
    elif t == "union":
        n = nxt(); expect("switch"); expect("(")
        dn, dty = parse_decl(); expect(")"); expect("{")
        uniondisc[n] = dn
        armsnamed[n] = []
        armslabels[n] = []
        arms = []
        dflt = None
        while peek() != "}":
            labels = []
            isdef = False
            while peek() in ("case", "default"):
                if nxt() == "case":
                    labels.append(nxt()); expect(":")
                else:
                    isdef = True; expect(":")
            an, aty = parse_decl(); expect(";")
            for l in labels:
                arms.append((l, aty))
                armsnamed[n].append((l, an)); armslabels[n].append((l, aty))
            if isdef:
                dflt = aty
                armsnamed[n].append(("default", an)); armslabels[n].append(("default", aty))
        expect("}"); expect(";")
        types[n] = ("union", dty, arms, dflt); order.append(n)
    elif t == "program":
        pn = nxt(); expect("{")
        vers = []
        while peek() == "version":
            nxt(); vn = nxt(); expect("{")
            procs = []
            while peek() != "}":
                rt = nxt()
                if rt == "unsigned":
                    rt += " " + nxt()
                name = nxt(); expect("(")
                at = nxt()
                expect(")"); expect("="); num = int(nxt()); expect(";")
                procs.append((num, name, at, rt))
            expect("}"); expect("="); vnum = int(nxt()); expect(";")
            consts[vn] = vnum
            vers.append((vn, vnum, procs))
        expect("}"); expect("="); pnum = int(nxt()); expect(";")
        consts[pn] = pnum
        progs.append((pn, pnum, vers))
    else:
        raise Exception("unexpected token " + t)


def opt(n):
    return "none" if n is None else "(some %d)" % n


def resolve(ty, selfname=None):
    k = ty[0]
    if k == "u32" or k == "s32":
        return ".u32"
    if k == "u64" or k == "s64":
        return ".u64"
    if k == "bool":
        return ".bool"
    if k == "void":
        return "(.struct [])"
    if k == "str":
        return "(.str %s)" % opt(ty[1])
    if k == "opaqueVar":
        return "(.opaqueVar %s)" % opt(ty[1])
    if k == "opaqueFix":
        return "(.opaqueFix %d)" % ty[1]
    if k == "arrU32":
        return "(.arrU32 %s)" % opt(ty[1])
    if k == "ref":
        return named(ty[1])
    if k == "ptr":
        # optional pointer to a struct whose last field is a pointer to the same struct
        assert ty[1][0] == "ref"
        tn = ty[1][1]
        d = types[tn]
        assert d[0] == "struct", tn
        fs = d[1]
        last = fs[-1][1]
        assert last == ("ptr", ("ref", tn)), (tn, last)
        return "(.chain [%s])" % ", ".join(resolve(f[1]) for f in fs[:-1])
    raise Exception(ty)


def named(n):
    d = types[n]
    if d[0] == "typedef":
        return resolve(d[1])
    if d[0] == "struct":
        return "(.struct [%s])" % ", ".join(resolve(f[1]) for f in d[1])
    if d[0] == "union":
        _, dty, arms, dflt = d
        disc = resolve(dty)
        if disc == ".bool":
            t = f = "(.struct [])"
            for l, a in arms:
                if l == "TRUE":
                    t = resolve(a)
                elif l == "FALSE":
                    f = resolve(a)
            if dflt is not None:
                if not any(l == "FALSE" for l, _ in arms):
                    f = resolve(dflt)
                if not any(l == "TRUE" for l, _ in arms):
                    t = resolve(dflt)
            return "(.unionBool %s %s)" % (t, f)
        assert disc == ".u32"
        al = sorted((consts[l], resolve(a)) for l, a in arms)
        return "(.unionU32 [%s] [%s] %s %s)" % (", ".join("%d" % x[0] for x in al), ", ".join(x[1] for x in al),
                                                "false" if dflt is None else "true",
                                                "(.struct [])" if dflt is None else resolve(dflt))


out = []
out.append("""/-
RFC 1813 (NFSv3 and MOUNTv3) XDR definitions as type descriptors, and the procedure tables.

Transcribed from the RFC's XDR language text (as shipped in go-rpcgen v0.1.5 rfc1813/prot.x)
with /verif/tools/xspec.py, then committed: this file is the EXPECTATION.  It is independent
of /repo/nfstypes (which the translator turns into Gen/Xdr.lean and Gen/Dispatch.lean on
every run); Props/C16 proves the two equal.  Names are lower-cased.
-/
import GoNfsd.Model.Xdr

namespace GoNfsd.Spec.Rfc1813
open GoNfsd.Model.Xdr

def types : List (String × Ty) := [""")
rows = []
for n in sorted(order, key=lambda z: z.lower()):
    rows.append('  ("%s", %s)' % (n.lower(), named(n).strip()))
out.append(",\n".join(rows))
out.append("]\n")
out.append("/-- (program, version, procedure number, procedure name, argument type, result type) -/")
out.append("def procs : List (Nat × Nat × Nat × String × String × String) := [")
rows = []
for pn, pnum, vers in progs:
    for vn, vnum, procs in vers:
        for num, name, at, rt in procs:
            rows.append('  (%d, %d, %d, "%s", "%s", "%s")' % (pnum, vnum, num, name, at.lower(), rt.lower()))
out.append(",\n".join(rows))
out.append("]\n")
# field names, in wire order (struct fields; union: discriminant then arm fields in case order)
def fieldnames(n):
    d = types[n]
    if d[0] == "struct":
        return [f[0] for f in d[1]]
    if d[0] == "union":
        _, dty, arms, dflt = d
        # discriminant name is kept in uniondisc
        names = [uniondisc[n]]
        seen = []
        for l, a in armsnamed[n]:
            if a is not None and a not in seen:
                seen.append(a)
        return names + seen
    return []

out.append("/-- field names of every struct / union type in wire order (union: discriminant, then the arm fields) -/")
out.append("def fields : List (String × List String) := [")
rows = []
for n in sorted(order, key=lambda z: z.lower()):
    fn = fieldnames(n)
    if fn:
        rows.append('  ("%s", [%s])' % (n.lower(), ", ".join('"%s"' % x for x in fn)))
out.append(",\n".join(rows))
out.append("]\n")
out.append("end GoNfsd.Spec.Rfc1813")
print("\n".join(out))

# ---- JSON descriptor with Go field names, for the correspondence harness ----
import json
def cap(x):
    return x[0].upper() + x[1:]

def jleaf(ty, field):
    k = ty[0]
    base = {"f": field, "max": -1, "n": 0}
    if k in ("u32", "s32"):
        return dict(base, k="u32")
    if k in ("u64", "s64"):
        return dict(base, k="u64")
    if k == "bool":
        return dict(base, k="bool")
    if k == "str":
        return dict(base, k="str", max=-1 if ty[1] is None else ty[1])
    if k == "opaqueVar":
        return dict(base, k="opaqueVar", max=-1 if ty[1] is None else ty[1])
    if k == "opaqueFix":
        return dict(base, k="opaqueFix", n=ty[1])
    if k == "arrU32":
        return dict(base, k="arrU32", max=-1 if ty[1] is None else ty[1])
    if k == "ref":
        return dict(base, k="ref", ref=cap(ty[1]))
    if k == "ptr":
        return dict(base, k="chain", ref=cap(ty[1][1]))
    raise Exception(ty)

def jarm(aname, aty):
    if aty == ("void",):
        return []
    return [jleaf(aty, cap(aname))]

bodies = {}
arrayLen = {}
ptrTypedef = {}
for n in order:
    d = types[n]
    if d[0] == "typedef":
        ty = d[1]
        if ty[0] == "ptr":
            ptrTypedef[cap(n)] = True
            bodies[cap(n)] = [jleaf(ty, "P")]
        else:
            if ty[0] == "opaqueFix":
                arrayLen[cap(n)] = ty[1]
            bodies[cap(n)] = [jleaf(ty, "")]
    elif d[0] == "struct":
        bodies[cap(n)] = [jleaf(f[1], cap(f[0])) for f in d[1]]
    else:
        _, dty, arms, dflt = d
        disc = jleaf(dty, cap(uniondisc[n]))
        isbool = dty == ("bool",)
        u = {"k": "union", "f": cap(uniondisc[n]), "max": -1, "n": 0, "bool": isbool,
             "ref": disc.get("ref", ""), "keys": [], "arms": [], "hasDflt": False, "dflt": [], "t": [], "fa": []}
        named_arms = armsnamed[n]
        dfl = None
        for (l, an), (l2, aty) in zip(named_arms, armslabels[n]):
            if l == "default":
                dfl = jarm(an, aty)
                continue
            if isbool:
                if l == "TRUE":
                    u["t"] = jarm(an, aty)
                else:
                    u["fa"] = jarm(an, aty)
            else:
                u["keys"].append(consts[l]); u["arms"].append(jarm(an, aty))
        if dfl is not None:
            if isbool:
                labels = [l for l, _ in named_arms]
                if "TRUE" not in labels:
                    u["t"] = dfl
                if "FALSE" not in labels:
                    u["fa"] = dfl
            else:
                u["hasDflt"] = True; u["dflt"] = dfl
        bodies[cap(n)] = [u]
json.dump({"bodies": bodies, "arrayLen": arrayLen, "ptrTypedef": ptrTypedef}, open(sys.argv[2], "w"), indent=1, sort_keys=True)

//go:build verif

package main

// Name-cache correspondence (model M8e): real transactions on ONE real directory inode calling
// dir.LookupName / dir.AddName / dir.RemName as the nfs layer does (an insertion follows a lookup that
// found nothing, under the same lock), committed or aborted, with the name cache dropped now and then
// (what eviction of the cached inode and a restart do).  After every step the reply and the whole
// state — Lastoff, the cache map (read by reflection), the directory's slots as read through the
// inode — are written out; the Lean driver `drv dcache` replays the steps on the model and compares.

import (
	"flag"
	"fmt"
	"sort"
	"strings"

	"github.com/mit-pdos/go-journal/common"

	"github.com/mit-pdos/go-nfsd/dir"
	"github.com/mit-pdos/go-nfsd/fh"
	"github.com/mit-pdos/go-nfsd/fstxn"
	"github.com/mit-pdos/go-nfsd/inode"
	"github.com/mit-pdos/go-nfsd/nfstypes"
)

func dcState(dip *inode.Inode, op *fstxn.FsTxn) string {
	var slots []string
	for off := uint64(0); off < dip.Size; off += 128 {
		data, _ := dip.Read(op.Atxn, off, 128)
		if len(data) != 128 {
			slots = append(slots, "short")
			break
		}
		i, n := dir.VerifDecodeDirEnt(data)
		slots = append(slots, fmt.Sprintf("%d:%s", i, hx([]byte(n))))
	}
	sl := dashIfEmpty(strings.Join(slots, ","))
	if dip.Dcache == nil {
		return "L=- cache=nil slots=" + sl
	}
	m := peekDcache(dip.Dcache)
	var es []string
	for name, de := range m {
		x := fmt.Sprintf("%s:%d:%d", hx([]byte(name)), uint64(de.Inum), de.Off/128)
		if de.Off%128 != 0 {
			x += "!misaligned"
		}
		es = append(es, x)
	}
	// sorted by the hex of the name (the prefix before the first ':')
	sort.Slice(es, func(a, b int) bool { return strings.SplitN(es[a], ":", 2)[0] < strings.SplitN(es[b], ":", 2)[0] })
	l := fmt.Sprintf("%d", dip.Dcache.Lastoff/128)
	if dip.Dcache.Lastoff%128 != 0 {
		l += "!misaligned"
	}
	return "L=" + l + " cache=" + dashIfEmpty(strings.Join(es, ",")) + " slots=" + sl
}

func cmdDcache(fs *flag.FlagSet, args []string) {
	seed := fs.Uint64("seed", 1, "seed")
	ncase := fs.Int("cases", 12, "directories")
	ntxn := fs.Int("txns", 120, "transactions per directory")
	fs.Parse(args)
	root := NewRng(*seed)
	for c := 0; c < *ncase; c++ {
		s := newSeqRun(root.Fork(), 100000, true)
		s.sink = func(string) {}
		r := s.r
		d := s.mk("mkdir", fh.MkRootFh3().Data, "d")
		if d == nil {
			s.close()
			continue
		}
		dinum := common.Inum(inumOf(d))
		st := s.srv.VerifFsState()
		// the pool of names: short ones, long ones around the 112-byte limit, a few beyond it
		var pool []string
		npool := 6 + r.Intn(40)
		big := c%4 == 3 // a directory of several blocks (32 slots each)
		if big {
			npool = 70 + r.Intn(40)
		}
		long := c%4 == 1 // a directory of long names: a slot holds little more than the name
		if long {
			npool = 30 + r.Intn(20)
		}
		for i := 0; i < npool; i++ {
			l := 1 + r.Intn(4)
			kind := r.Intn(8)
			if long && kind > 2 {
				kind = r.Intn(2)
			}
			switch kind {
			case 0:
				l = 96 + r.Intn(17) // 96..112
			case 1:
				l = 112
			case 2:
				if r.Chance(1, 2) {
					l = 113 + r.Intn(8)
				}
			}
			b := make([]byte, l)
			for j := range b {
				b[j] = byte('a' + (i+j*7)%26)
			}
			copy(b, fmt.Sprintf("%02d", i))
			pool = append(pool, string(b))
		}
		emit("dinit %d %d", uint64(dinum), 1)
		dump := func() bool {
			ok := true
			if !s.guarded("dcache dump", func() {
				op := fstxn.Begin(st)
				dip := op.GetInodeInum(dinum)
				if dip == nil {
					ok = false
					op.Abort()
					return
				}
				emit("dstate %s", dcState(dip, op))
				op.Commit()
			}) {
				return false
			}
			return ok
		}
		if !dump() {
			s.close()
			continue
		}
		nextInum := uint64(100)
		for t := 0; t < *ntxn && !s.dead; t++ {
			nsteps := 1 + r.Intn(4)
			abort := r.Chance(1, 5)
			drop := r.Chance(1, 9)
			var lines []string
			if !s.guarded("dcache txn", func() {
				op := fstxn.Begin(st)
				dip := op.GetInodeInum(dinum)
				if dip == nil {
					op.Abort()
					lines = append(lines, "# directory vanished")
					return
				}
				lines = append(lines, "dbegin")
				if drop {
					dip.Dcache = nil
					lines = append(lines, "ddrop")
				}
				for k := 0; k < nsteps; k++ {
					name := pool[r.Intn(len(pool))]
					k10 := r.Intn(10)
					if (big || long) && k10 >= 8 && r.Chance(2, 3) {
						k10 = 3 // mostly insertions
					}
					switch k10 {
					case 0, 1, 2:
						ino, off := dir.LookupName(dip, op, nfstypes.Filename3(name))
						if ino == common.NULLINUM {
							lines = append(lines, fmt.Sprintf("dlook %s => absent", hx([]byte(name))))
						} else {
							lines = append(lines, fmt.Sprintf("dlook %s => found %d %s", hx([]byte(name)), uint64(ino), slotIdx(off)))
						}
					case 3, 4, 5, 6:
						nextInum++
						ino, _ := dir.LookupName(dip, op, nfstypes.Filename3(name))
						res := "present"
						if ino == common.NULLINUM {
							if dir.AddName(dip, op, common.Inum(nextInum), nfstypes.Filename3(name)) {
								// the slot written is what the cache now says
								_, off := dir.LookupName(dip, op, nfstypes.Filename3(name))
								res = "added " + slotIdx(off)
							} else {
								res = "refused"
							}
						}
						lines = append(lines, fmt.Sprintf("dadd %s %d => %s", hx([]byte(name)), nextInum, res))
					default:
						// the slot a removal clears: looked up before (a lookup changes nothing but builds the cache, which RemName
						// does as well — except for names beyond the limit, which RemName refuses before it builds the cache)
						var off uint64
						var ino common.Inum
						if len(name) <= 112 {
							ino, off = dir.LookupName(dip, op, nfstypes.Filename3(name))
						}
						ok := dir.RemName(dip, op, nfstypes.Filename3(name))
						if ok && ino != common.NULLINUM {
							lines = append(lines, fmt.Sprintf("drem %s => removed %s", hx([]byte(name)), slotIdx(off)))
						} else if ok {
							lines = append(lines, fmt.Sprintf("drem %s => removed-but-lookup-found-nothing", hx([]byte(name))))
						} else {
							lines = append(lines, fmt.Sprintf("drem %s => absent", hx([]byte(name))))
						}
					}
					lines = append(lines, "dstate "+dcState(dip, op))
				}
				if abort {
					op.Abort()
					lines = append(lines, "dabort")
				} else {
					op.Commit()
				}
			}) {
				break
			}
			for _, l := range lines {
				emit("%s", l)
			}
			if !dump() {
				break
			}
		}
		s.close()
	}
}

func slotIdx(off uint64) string {
	if off%128 != 0 {
		return fmt.Sprintf("%d!misaligned", off/128)
	}
	return fmt.Sprintf("%d", off/128)
}

package main

import (
	"flag"
	"fmt"
	"runtime"
	"sync"
	"time"

	"github.com/mit-pdos/go-nfsd/nfstypes"
	"github.com/mit-pdos/go-nfsd/simple"
)

// cmdSimple runs request sequences on the real SimpleNFS server.

type simpleRun struct {
	r    *Rng
	srv  *simple.Nfs
	dead bool
}

// memPerRequest: no request of either server transfers more than about 2 MB
const memPerRequest = 64 << 20

func (s *simpleRun) guarded(desc string, f func()) bool {
	if s.dead {
		return false
	}
	done := make(chan string, 1)
	var m0, m1 runtime.MemStats
	runtime.ReadMemStats(&m0)
	go func() {
		defer func() {
			if r := recover(); r != nil {
				done <- fmt.Sprintf("PANIC %v", r)
			}
		}()
		f()
		done <- ""
	}()
	select {
	case msg := <-done:
		if msg != "" {
			emit("# %s :: %s", msg, desc)
			s.dead = true
			return false
		}
		// what one request may allocate is bounded by what it transfers (4 KB files), whatever
		// count or size it names
		runtime.ReadMemStats(&m1)
		if d := m1.TotalAlloc - m0.TotalAlloc; d > memPerRequest {
			emit("# ORACLE C11 memory-per-request a request allocated %d bytes (bound %d): %s", d, uint64(memPerRequest), trunc(desc))
		}
		return true
	case <-time.After(20 * time.Second):
		emit("# HANG :: %s", desc)
		s.dead = true
		return false
	}
}

func (s *simpleRun) pickFh() []byte {
	r := s.r
	var ino uint64
	switch k := r.Intn(20); {
	case k < 12:
		ino = 2 + uint64(r.Intn(4))
	case k < 15:
		ino = uint64(r.Intn(40))
	case k < 16:
		ino = []uint64{0, 1, 31, 32, 33, 1 << 32, 1 << 63, ^uint64(0)}[r.Intn(8)]
	default:
		ino = 2 + uint64(r.Intn(30))
	}
	h := simple.Fh{Ino: ino}.MakeFh3().Data
	if r.Chance(1, 30) {
		h = h[:r.Intn(9)]
	}
	return h
}

func (s *simpleRun) pickU64(limit uint64) uint64 {
	r := s.r
	b := []uint64{0, 1, 2, 100, 4094, 4095, 4096, 4097, 8192, 1 << 32, 1<<32 + 1, 1 << 63, ^uint64(0), ^uint64(0) - 1, ^uint64(0) - 4095, ^uint64(0) - 4096}
	switch k := r.Intn(10); {
	case k < 4:
		return b[r.Intn(len(b))]
	case k < 8:
		return uint64(r.Intn(int(limit) + 1))
	default:
		return uint64(r.Intn(5000))
	}
}

func cmdSimple(fs *flag.FlagSet, args []string) {
	seed := fs.Uint64("seed", 1, "seed")
	nseq := fs.Int("seqs", 10, "sequences")
	nops := fs.Int("ops", 300, "operations per sequence")
	fs.Parse(args)
	root := NewRng(*seed)
	for q := 0; q < *nseq; q++ {
		s := &simpleRun{r: root.Fork()}
		d := NewSparseDisk(2000)
		s.srv = simple.MakeNfs(d)
		emit("sinit")
		sizes := map[string]uint64{}
		for i := 0; i < *nops && !s.dead; i++ {
			r := s.r
			if r.Chance(1, 60) {
				// the server is started again on the same disk, the way cmd/simple-nfsd starts (MakeNfs:
				// log recovery + inode initialisation) or the way the recovery example does (Recover)
				how := r.Intn(2)
				if !s.guarded("srestart", func() {
					if how == 0 {
						s.srv = simple.MakeNfs(d)
					} else {
						s.srv = simple.Recover(d)
					}
				}) {
					break
				}
				emit("srestart")
			}
			h := s.pickFh()
			cur := sizes[hx(h)]
			switch k := r.Intn(20); {
			case k < 2:
				var rep nfstypes.GETATTR3res
				desc := fmt.Sprintf("sgetattr %s", hx(h))
				if !s.guarded(desc, func() { rep = s.srv.NFSPROC3_GETATTR(nfstypes.GETATTR3args{Object: mkfh3(h)}) }) {
					break
				}
				if rep.Status == 0 {
					a := rep.Resok.Obj_attributes
					emit("%s => 0 %d %d %d", desc, a.Ftype, a.Size, a.Fileid)
					sizes[hx(h)] = uint64(a.Size)
				} else {
					emit("%s => %d", desc, rep.Status)
				}
			case k < 5:
				var args nfstypes.SETATTR3args
				args.Object = mkfh3(h)
				szs := "-"
				if r.Chance(5, 6) {
					v := s.pickU64(4096)
					if r.Chance(1, 3) {
						v = cur + uint64(r.Intn(200))
					}
					args.New_attributes.Size = nfstypes.Set_size3{Set_it: true, Size: nfstypes.Size3(v)}
					szs = fmt.Sprintf("%d", v)
				}
				desc := fmt.Sprintf("ssetattr %s %s", hx(h), szs)
				var rep nfstypes.SETATTR3res
				if !s.guarded(desc, func() { rep = s.srv.NFSPROC3_SETATTR(args) }) {
					break
				}
				emit("%s => %d", desc, rep.Status)
			case k < 11:
				off := s.pickU64(cur)
				cnt := uint32(s.pickU64(4096))
				desc := fmt.Sprintf("sread %s %d %d", hx(h), off, cnt)
				var rep nfstypes.READ3res
				if !s.guarded(desc, func() {
					rep = s.srv.NFSPROC3_READ(nfstypes.READ3args{File: mkfh3(h), Offset: nfstypes.Offset3(off), Count: nfstypes.Count3(cnt)})
				}) {
					break
				}
				if rep.Status == 0 {
					emit("%s => 0 %d %d %s", desc, rep.Resok.Count, b01(rep.Resok.Eof), hx(rep.Resok.Data))
				} else {
					emit("%s => %d", desc, rep.Status)
				}
			case k < 18:
				off := s.pickU64(cur)
				if r.Chance(1, 2) {
					off = cur // append: the only way to grow by writing
				}
				cnt := uint32(s.pickU64(300))
				dl := int(cnt)
				if cnt > 5000 {
					dl = r.Intn(100)
				}
				if r.Chance(1, 12) {
					dl = r.Intn(50)
				}
				data := make([]byte, dl)
				for j := range data {
					data[j] = byte(1 + r.Intn(255))
				}
				desc := fmt.Sprintf("swrite %s %d %d %s", hx(h), off, cnt, hx(data))
				var rep nfstypes.WRITE3res
				if !s.guarded(desc, func() {
					rep = s.srv.NFSPROC3_WRITE(nfstypes.WRITE3args{File: mkfh3(h), Offset: nfstypes.Offset3(off), Count: nfstypes.Count3(cnt), Stable: nfstypes.Stable_how(r.Intn(3)), Data: data})
				}) {
					break
				}
				if rep.Status == 0 {
					// the level reported is part of the reply: SimpleNFS always answers FILE_SYNC,
					// whatever stability the client asked for
					emit("%s => 0 %d %d", desc, rep.Resok.Count, rep.Resok.Committed)
					if off+uint64(cnt) > cur {
						sizes[hx(h)] = off + uint64(cnt)
					}
				} else {
					emit("%s => %d", desc, rep.Status)
				}
			case k < 19:
				name := []string{"a", "b", "c", "", "ab"}[r.Intn(5)]
				var rep nfstypes.LOOKUP3res
				desc := fmt.Sprintf("slookup %s", hx([]byte(name)))
				if !s.guarded(desc, func() {
					rep = s.srv.NFSPROC3_LOOKUP(nfstypes.LOOKUP3args{What: nfstypes.Diropargs3{Dir: mkfh3(simple.MkRootFh3().Data), Name: nfstypes.Filename3(name)}})
				}) {
					break
				}
				if rep.Status == 0 {
					emit("%s => 0 %d", desc, simple.MakeFh(rep.Resok.Object).Ino)
				} else {
					emit("%s => %d", desc, rep.Status)
				}
			default:
				if r.Chance(1, 2) {
					var rep nfstypes.COMMIT3res
					desc := fmt.Sprintf("scommit %s", hx(h))
					if !s.guarded(desc, func() { rep = s.srv.NFSPROC3_COMMIT(nfstypes.COMMIT3args{File: mkfh3(h)}) }) {
						break
					}
					emit("%s => %d", desc, rep.Status)
				} else {
					var st nfstypes.Nfsstat3
					which := r.Intn(5)
					names := []string{"create", "mkdir", "remove", "rename", "readdirplus"}
					if !s.guarded("sunsup", func() {
						switch which {
						case 0:
							st = s.srv.NFSPROC3_CREATE(nfstypes.CREATE3args{}).Status
						case 1:
							st = s.srv.NFSPROC3_MKDIR(nfstypes.MKDIR3args{}).Status
						case 2:
							st = s.srv.NFSPROC3_REMOVE(nfstypes.REMOVE3args{}).Status
						case 3:
							st = s.srv.NFSPROC3_RENAME(nfstypes.RENAME3args{}).Status
						case 4:
							st = s.srv.NFSPROC3_READDIRPLUS(nfstypes.READDIRPLUS3args{}).Status
						}
					}) {
						break
					}
					emit("sunsup %s => %d", names[which], st)
				}
			}
		}
	}
}

// cmdSimpleConc: concurrent requests on ONE file of the simple server (C17, linearizability).  Each
// round runs 2-4 WRITE/SETATTR requests at the same time against the same inode and then reads the
// file; the Lean driver demands that some order of the requests, applied by the model, yields every
// reply and the final contents.
func cmdSimpleConc(fs *flag.FlagSet, args []string) {
	seed := fs.Uint64("seed", 1, "seed")
	rounds := fs.Int("rounds", 300, "rounds")
	fs.Parse(args)
	r := NewRng(*seed)
	d := NewSparseDisk(2000)
	srv := simple.MakeNfs(d)
	emit("sinit")
	for rd := 0; rd < *rounds; rd++ {
		ino := uint64(2 + r.Intn(3))
		h := le64b(ino)
		// size of the file now (the model tracks it; ask the server so that writes are mostly valid)
		ga := srv.NFSPROC3_GETATTR(nfstypes.GETATTR3args{Object: mkfh3(h)})
		cur := uint64(ga.Resok.Obj_attributes.Size)
		emit("sgetattr %s => 0 %d %d %d", hx(h), ga.Resok.Obj_attributes.Ftype, ga.Resok.Obj_attributes.Size, ga.Resok.Obj_attributes.Fileid)
		n := 2 + r.Intn(3)
		descs := make([]string, n)
		fns := make([]func() string, n)
		for i := 0; i < n; i++ {
			if r.Chance(3, 4) {
				off := uint64(0)
				if cur > 0 {
					off = uint64(r.Intn(int(cur) + 1))
				}
				cnt := 1 + r.Intn(600)
				if off+uint64(cnt) > 4096 {
					cnt = int(4096 - off)
				}
				data := make([]byte, cnt)
				for j := range data {
					data[j] = byte(16*(i+1) + j%7)
				}
				descs[i] = fmt.Sprintf("swrite %s %d %d %s", hx(h), off, cnt, hx(data))
				how := nfstypes.Stable_how(r.Intn(3))
				fns[i] = func() string {
					rep := srv.NFSPROC3_WRITE(nfstypes.WRITE3args{File: mkfh3(h), Offset: nfstypes.Offset3(off), Count: nfstypes.Count3(cnt), Stable: how, Data: data})
					if rep.Status == 0 {
						return fmt.Sprintf("0 %d %d", rep.Resok.Count, rep.Resok.Committed)
					}
					return fmt.Sprintf("%d", rep.Status)
				}
			} else {
				sz := uint64(r.Intn(4097))
				var a nfstypes.SETATTR3args
				a.Object = mkfh3(h)
				a.New_attributes.Size = nfstypes.Set_size3{Set_it: true, Size: nfstypes.Size3(sz)}
				descs[i] = fmt.Sprintf("ssetattr %s %d", hx(h), sz)
				fns[i] = func() string { return fmt.Sprintf("%d", srv.NFSPROC3_SETATTR(a).Status) }
			}
		}
		res := make([]string, n)
		var wg sync.WaitGroup
		start := make(chan bool)
		for i := 0; i < n; i++ {
			wg.Add(1)
			go func(i int) {
				defer wg.Done()
				defer func() {
					if x := recover(); x != nil {
						res[i] = "panic"
					}
				}()
				<-start
				res[i] = fns[i]()
			}(i)
		}
		close(start)
		wg.Wait()
		emit("sround-begin")
		for i := 0; i < n; i++ {
			emit("%s => %s", descs[i], res[i])
		}
		rdr := srv.NFSPROC3_READ(nfstypes.READ3args{File: mkfh3(h), Offset: 0, Count: 4096})
		emit("sround-end sread %s 0 4096 => 0 %d %v %s", hx(h), rdr.Resok.Count, b01(rdr.Resok.Eof), hx(rdr.Resok.Data))
	}
}

package main

import (
	"bufio"
	"flag"
	"fmt"
	"os"
	"runtime"
	"sort"
	"strconv"
	"strings"
	"sync"
	"sync/atomic"
	"time"
	"unsafe"

	"github.com/mit-pdos/go-nfsd/fh"
	"github.com/mit-pdos/go-nfsd/fstxn"
	"github.com/mit-pdos/go-nfsd/nfs"
)

// Concurrent correspondence.  Several clients issue operations on shared
// directories and files through one server.  The verif hooks of fstxn report
// every lock acquisition/release and every commit/abort with a global
// sequence number; from them each operation gets
//   * its linearization point: the sequence number of its last successful
//     commit (taken while all its locks are held), or - for an operation that
//     fails without committing - of its last lock acquisition;
//   * its lock trace (for the `locks` driver: ascending order, two-phase shape).
// The operations are printed sorted by linearization point in the line format
// of `seq`, so that the reference model replays them sequentially in commit
// order and compares every reply.

type evRec struct {
	seq  uint64
	kind string
	arg  uint64
	txn  uintptr
	// who ran it, in a sequential run: 'S' the goroutine issuing the requests, 'B' a background
	// shrinker; 0 in a concurrent run (the other clients' commits are not part of the trace)
	who byte
	// commit-done: the transaction had written something (a read-only transaction reveals nothing)
	dirty bool
}

// txnDirty: whether the transaction has written any journal object (asked at its commit point)
func txnDirty(kind string, op *fstxn.FsTxn) (d bool) {
	if kind != "commit-done" || op == nil {
		return false
	}
	defer func() { recover() }()
	return op.Atxn.Op.NDirty() > 0
}

type concClient struct {
	id      int
	s       *seqRun
	events  []evRec
	lines   []string // lines emitted by the current operation
	slot    int
	wantDir []byte // directory whose slot for wantName is captured at commit
	wantNm  string
	yield   int
}

type concLine struct {
	point, invoke, ret uint64
	client             int
	text               string
	locks              string
}

var (
	evSeq    uint64
	gidMap   sync.Map // goroutine id -> *concClient
	concSrvM sync.Mutex
)

func curGid() uint64 {
	var buf [64]byte
	n := runtime.Stack(buf[:], false)
	// "goroutine 123 [running]:"
	f := strings.Fields(string(buf[:n]))
	if len(f) < 2 {
		return 0
	}
	id, _ := strconv.ParseUint(f[1], 10, 64)
	return id
}

func concObserver(kind string, op *fstxn.FsTxn, arg uint64) {
	v, ok := gidMap.Load(curGid())
	if !ok {
		return // background shrinker
	}
	c := v.(*concClient)
	seq := atomic.AddUint64(&evSeq, 1)
	c.events = append(c.events, evRec{seq: seq, kind: kind, arg: arg, txn: txnID(kind, op), dirty: txnDirty(kind, op)})
	if (kind == "commit-start") && c.wantDir != nil {
		// all locks are held: read the slot the new name went to from the directory's name cache
		func() {
			defer func() { recover() }()
			dip := op.GetInodeUnlocked(inumOf(c.wantDir))
			if dip.Dcache != nil {
				if de, ok := dip.Dcache.Lookup(c.wantNm); ok {
					c.slot = int(de.Off / 128)
				}
			}
		}()
	}
	if c.yield > 0 && (kind == "acq-req" || kind == "commit-start" || kind == "acq") {
		if c.s.r.Intn(100) < c.yield {
			runtime.Gosched()
		}
	}
	if c.yield > 0 && (kind == "commit-end" || kind == "abort-end") {
		// the transaction is over and its locks are free: let the other clients run whole
		// operations before this handler builds its reply — whatever it still reads of an inode
		// now is unprotected, and a reply that shows a later operation's effect is not explained
		// by the commit order
		sizeOp := strings.HasPrefix(c.s.curDesc, "setattr") || strings.HasPrefix(c.s.curDesc, "write")
		if sizeOp || c.s.r.Intn(100) < c.yield {
			if len(c.s.cur) > 0 {
				hotHandle.Store(append([]byte(nil), c.s.cur[0]...))
			}
			time.Sleep(300 * time.Microsecond)
			hotHandle.Store([]byte(nil))
		}
	}
}

// lockTrace renders the events of one operation, transaction by transaction:
//
//	T a3 a7 c r3 r7 | T a5 r5 x        (a=acquired r=released c=commit ok f=commit refused x=abort
//	                                    u=commit ok of a transaction that wrote something, WITHOUT waiting for the disk)
func lockTrace(evs []evRec) string {
	var order []uintptr
	per := map[uintptr]*strings.Builder{}
	nowait := map[uintptr]bool{}
	for _, e := range evs {
		b, ok := per[e.txn]
		if !ok {
			b = &strings.Builder{}
			if e.who != 0 {
				b.WriteByte(e.who)
			} else {
				b.WriteString("T")
			}
			per[e.txn] = b
			order = append(order, e.txn)
		}
		switch e.kind {
		case "acq":
			fmt.Fprintf(b, " a%d", e.arg)
		case "rel":
			fmt.Fprintf(b, " r%d", e.arg)
		case "commit-start":
			nowait[e.txn] = e.arg == 0
		case "commit-done", "flush-done":
			if e.arg == 1 && e.kind == "commit-done" && nowait[e.txn] && e.dirty {
				b.WriteString(" u")
			} else if e.arg == 1 {
				b.WriteString(" c")
			} else {
				b.WriteString(" f")
			}
		case "abort":
			b.WriteString(" x")
		case "name-lookup":
			fmt.Fprintf(b, " l%d", e.arg)
		case "name-add":
			fmt.Fprintf(b, " i%d", e.arg)
		}
	}
	var parts []string
	for _, t := range order {
		parts = append(parts, per[t].String())
	}
	return strings.Join(parts, " | ")
}

// txnID names the transaction an event belongs to.  The address of the FsTxn is not a name: the
// allocator reuses it once the transaction is garbage, and two transactions of one request were
// then rendered as one (a false "not two-phase").  A fresh number is drawn at every "begin".
var (
	txnMu   sync.Mutex
	txnCur  = map[uintptr]uintptr{}
	txnNext uintptr
)

func txnID(kind string, op *fstxn.FsTxn) uintptr {
	p := uintptr(unsafe.Pointer(op))
	txnMu.Lock()
	defer txnMu.Unlock()
	id, ok := txnCur[p]
	if kind == "begin" || !ok {
		txnNext++
		id = txnNext
		txnCur[p] = id
	}
	return id
}

// seqObserver collects the events of the operation a sequential run is issuing
// (and of background shrinker transactions that run meanwhile).
var (
	seqEvMu  sync.Mutex
	seqEvBuf []evRec
	// the goroutine that issues the requests of a sequential run (set where the observer is installed)
	seqMainGid uint64
)

func seqObserver(kind string, op *fstxn.FsTxn, arg uint64) {
	who := byte('B')
	if curGid() == atomic.LoadUint64(&seqMainGid) {
		who = 'S'
	}
	seqEvMu.Lock()
	seqEvBuf = append(seqEvBuf, evRec{seq: atomic.AddUint64(&evSeq, 1), kind: kind, arg: arg, txn: txnID(kind, op), who: who, dirty: txnDirty(kind, op)})
	seqEvMu.Unlock()
}

// takeSeqEvents returns the events of the transactions that have finished and
// keeps those of transactions still running (a background shrinker may span
// several client operations).
func takeSeqEvents() []evRec {
	seqEvMu.Lock()
	defer seqEvMu.Unlock()
	done := map[uintptr]bool{}
	for _, e := range seqEvBuf {
		if e.kind == "commit-end" || e.kind == "abort-end" {
			done[e.txn] = true
		}
	}
	var out, keep []evRec
	for _, e := range seqEvBuf {
		if done[e.txn] {
			out = append(out, e)
		} else {
			keep = append(keep, e)
		}
	}
	seqEvBuf = keep
	return out
}

func cmdConc(fs *flag.FlagSet, args []string) {
	seed := fs.Uint64("seed", 1, "seed")
	nhist := fs.Int("hists", 4, "number of concurrent histories")
	nclients := fs.Int("clients", 4, "clients per history")
	nops := fs.Int("ops", 100, "operations per client")
	yield := fs.Int("yield", 20, "percent chance of yielding at lock/commit events")
	disksz := fs.Uint64("disk", 100000, "disk size")
	imgPath := fs.String("imgout", "", "file the image of the logical disk after each history goes to (structure checker)")
	fs.Parse(args)
	var imgOut func(string)
	if *imgPath != "" {
		f, err := os.Create(*imgPath)
		if err != nil {
			die("imgout: %v", err)
		}
		iw := bufio.NewWriterSize(f, 1<<20)
		defer func() { iw.Flush(); f.Close() }()
		imgOut = func(l string) { iw.WriteString(l); iw.WriteByte('\n') }
	}
	root := NewRng(*seed)
	fstxn.VerifObserver = concObserver
	defer func() { fstxn.VerifObserver = nil }()
	for h := 0; h < *nhist; h++ {
		d := NewSparseDisk(*disksz)
		srv := nfs.MakeNfs(d)
		unstable := h%2 == 0
		srv.Unstable = unstable
		atomic.StoreUint64(&evSeq, 0)
		pool := []string{"s0", "s1", "s2", "s3", "s4", "s5", "d0", "d1"}
		var all []concLine
		var mu sync.Mutex
		dead := int32(0)
		// shared setup by client 0 (sequential, recorded like everything else)
		clients := make([]*concClient, *nclients)
		for i := range clients {
			s := &seqRun{r: root.Fork(), d: d, srv: srv, unstable: unstable, objs: map[string]*objInfo{}, dirs: map[string]*dirInfo{},
				hist: map[string]int{}, opTimeout: 30 * time.Second, deadH: map[string]bool{}, issued: map[string]bool{}, pool: pool, inline: true}
			rootfh := fh.MkRootFh3().Data
			s.objs[hx(rootfh)] = &objInfo{fh: rootfh, kind: 2}
			s.dirs[hx(rootfh)] = &dirInfo{names: map[string][]byte{}}
			s.chaseHot = *yield > 0
			clients[i] = &concClient{id: i, s: s, yield: *yield}
		}
		runOp := func(c *concClient, f func()) {
			c.events = nil
			c.lines = nil
			c.slot = -1
			c.wantDir, c.wantNm = nil, ""
			invoke := atomic.AddUint64(&evSeq, 1)
			f()
			ret := atomic.AddUint64(&evSeq, 1)
			// linearization point
			point := invoke
			lastAcq := uint64(0)
			committed := uint64(0)
			for _, e := range c.events {
				if e.kind == "acq" {
					lastAcq = e.seq
				}
				if (e.kind == "commit-done" || e.kind == "flush-done") && e.arg == 1 {
					committed = e.seq
				}
			}
			if committed != 0 {
				point = committed
			} else if lastAcq != 0 {
				point = lastAcq
			}
			lt := lockTrace(c.events)
			mu.Lock()
			for _, l := range c.lines {
				if strings.HasPrefix(l, "#") {
					all = append(all, concLine{point: point, text: l, client: c.id})
					if strings.HasPrefix(l, "# PANIC") || strings.HasPrefix(l, "# HANG") {
						atomic.StoreInt32(&dead, 1)
					}
					continue
				}
				all = append(all, concLine{point: point, invoke: invoke, ret: ret, client: c.id, text: l, locks: lt})
			}
			mu.Unlock()
		}
		// watchdog: a history in which no operation completes for 60 s is hung
		var progress uint64
		stop := make(chan bool)
		go func() {
			last := uint64(0)
			idle := 0
			for {
				select {
				case <-stop:
					return
				case <-time.After(time.Second):
				}
				cur := atomic.LoadUint64(&progress)
				if cur == last {
					idle++
				} else {
					idle = 0
					last = cur
				}
				if idle >= 15 {
					mu.Lock()
					emit("config 1 %d", *disksz)
					for _, l := range all {
						emit("%s", l.text)
					}
					for _, c := range clients {
						emit("# BLOCKED client=%d op=[%s] locks=[%s]", c.id, trunc(c.s.curDesc), lockTrace(c.events))
					}
					emit("# HANG :: no operation of history %d completed for 60 s (clients blocked on each other)", h)
					out.Flush()
					mu.Unlock()
					osExit(3)
				}
			}
		}()
		var wg sync.WaitGroup
		for _, c := range clients {
			wg.Add(1)
			go func(c *concClient) {
				defer wg.Done()
				gid := curGid()
				gidMap.Store(gid, c)
				defer gidMap.Delete(gid)
				c.s.sink = func(l string) { c.lines = append(c.lines, l) }
				c.s.slotHook = func() int { return c.slot }
				// guarded() runs the call in another goroutine: register that one too
				for j := 0; j < *nops && atomic.LoadInt32(&dead) == 0 && !c.s.dead; j++ {
					runOp(c, func() { c.concOp() })
					atomic.AddUint64(&progress, 1)
				}
			}(c)
		}
		wg.Wait()
		close(stop)
		for i := 0; i < 3000 && srv.VerifShrinker().VerifNthread() > 0; i++ {
			time.Sleep(time.Millisecond)
		}
		if atomic.LoadInt32(&dead) == 0 && imgOut != nil {
			srv.VerifFsState().Txn.Flush()
			var moved []uint64
			for _, c := range clients {
				if c.s.crossRenames > 0 {
					moved = []uint64{^uint64(0)}
				}
			}
			emitImage(srv.VerifFsState(), fmt.Sprintf("end of concurrent history %d (%d clients)", h, *nclients), true, true, moved, imgOut)
		}
		if atomic.LoadInt32(&dead) == 0 {
			srv.ShutdownNfs()
		}
		sort.SliceStable(all, func(i, j int) bool { return all[i].point < all[j].point })
		u := 0
		if unstable {
			u = 1
		}
		emit("config %d %d", u, *disksz)
		emit("# history %d clients=%d", h, *nclients)
		for _, l := range all {
			if strings.HasPrefix(l.text, "#") {
				emit("%s", l.text)
				continue
			}
			emit("%s", l.text)
			emit("# LIN client=%d invoke=%d point=%d return=%d", l.client, l.invoke, l.point, l.ret)
			emit("# LOCKS %s :: %s", strings.Fields(l.text)[0], l.locks)
		}
	}
}

// concOp issues one operation of the concurrent mix (namespace and data
// operations on a small shared pool of names in the root and two directories).
func (c *concClient) concOp() {
	s := c.s
	r := s.r
	// directories this client knows
	dir := func() []byte {
		var ds [][]byte
		ks := make([]string, 0, len(s.dirs))
		for k := range s.dirs {
			ks = append(ks, k)
		}
		sort.Strings(ks)
		for _, k := range ks {
			if o, ok := s.objs[k]; ok {
				ds = append(ds, o.fh)
			}
		}
		if len(ds) == 0 || r.Chance(1, 3) {
			return s.root()
		}
		return ds[r.Intn(len(ds))]
	}
	name := func() string { return s.pool[r.Intn(len(s.pool))] }
	file := func() []byte { return s.pickHandle(1) }
	if s.chaseHot {
		// another client's transaction on this file has just ended and its handler has not
		// returned yet: change the file now
		if h, _ := hotHandle.Load().([]byte); len(h) > 0 && r.Chance(2, 3) {
			if o, ok := s.objs[hx(h)]; ok && o.kind == 1 {
				f := append([]byte(nil), h...)
				if r.Chance(1, 2) {
					sz := uint64([]int{0, 7, 300, 4097, 8192, 20000}[r.Intn(6)])
					s.opSetattr(f, &sz, timeHow{}, timeHow{})
				} else {
					n := []int{9, 100, 4096}[r.Intn(3)]
					s.opWrite(f, uint64(r.Intn(4))*5000, uint32(n), uint32(r.Intn(3)), s.mkData(n))
				}
				return
			}
		}
	}
	switch k := r.Intn(100); {
	case k < 14:
		d, n := dir(), name()
		c.wantDir, c.wantNm = d, n
		s.opCreate("create", d, n, 0, nil)
	case k < 20:
		d, n := dir(), name()
		c.wantDir, c.wantNm = d, n
		s.opCreate("mkdir", d, n, 0, nil)
	case k < 23:
		d, n := dir(), name()
		c.wantDir, c.wantNm = d, n
		s.opCreate("symlink", d, n, 0, []byte("t"))
	case k < 35:
		s.opLookup(dir(), name())
	case k < 45:
		s.opRemove("remove", dir(), name())
	case k < 49:
		s.opRemove("rmdir", dir(), name())
	case k < 62:
		fd, td := dir(), dir()
		tn := name()
		c.wantDir, c.wantNm = td, tn
		s.opRename(fd, name(), td, tn)
	case k < 72:
		f := file()
		off := uint64(r.Intn(3)) * 4096
		if r.Chance(1, 4) {
			off = uint64(r.Intn(9000))
		}
		n := []int{10, 100, 4096, 5000}[r.Intn(4)]
		s.opWrite(f, off, uint32(n), uint32(r.Intn(3)), s.mkData(n))
	case k < 80:
		s.opRead(file(), uint64(r.Intn(3))*4096, uint32([]int{10, 4096, 9000}[r.Intn(3)]))
	case k < 84:
		f := file()
		sz := uint64([]int{0, 100, 4096, 5000, 12000}[r.Intn(5)])
		s.opSetattr(f, &sz, timeHow{}, timeHow{})
	case k < 88:
		s.opGetattr(s.pickHandle(0))
	case k < 93:
		s.opReaddir(dir(), 0, 0xffffffff)
	case k < 96:
		s.opReaddirplus(dir(), 0, 0xffffffff, 0xffffffff)
	case k < 98:
		f := file()
		s.opCommit(f, 0, 0)
	default:
		s.opAccess(s.pickHandle(0))
	}
}

func osExit(code int) { os.Exit(code) }

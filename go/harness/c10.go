package main

import (
	"bytes"
	"fmt"
	"reflect"
	"sort"
	"unsafe"

	"github.com/mit-pdos/go-journal/addr"
	"github.com/mit-pdos/go-journal/alloc"
	"github.com/mit-pdos/go-journal/common"
	"github.com/mit-pdos/go-nfsd/cache"
	"github.com/mit-pdos/go-nfsd/dcache"
	"github.com/mit-pdos/go-nfsd/inode"
	"github.com/mit-pdos/go-nfsd/nfs"
	"github.com/mit-pdos/go-nfsd/nfstypes"
)

// C10 oracle: at a quiescent point (no request in flight, background freeing
// finished, everything flushed) the in-memory state agrees with the logical
// disk, and a restarted / recovered server is indistinguishable through the API.

func unexported(v reflect.Value) reflect.Value {
	return reflect.NewAt(v.Type(), unsafe.Pointer(v.UnsafeAddr())).Elem()
}

// peekCache returns the cached inodes without touching the LRU order.
func peekCache(c *cache.Cache) map[uint64]*inode.Inode {
	out := map[uint64]*inode.Inode{}
	ents := unexported(reflect.ValueOf(c).Elem().FieldByName("entries"))
	for _, k := range ents.MapKeys() {
		e := ents.MapIndex(k)
		obj := unexported(e.Elem().FieldByName("slot").FieldByName("Obj"))
		if obj.IsNil() {
			continue
		}
		if ip, ok := obj.Interface().(*inode.Inode); ok && ip != nil {
			out[k.Uint()] = ip
		}
	}
	return out
}

func peekDcache(dc *dcache.Dcache) map[string]dcache.Dentry {
	out := map[string]dcache.Dentry{}
	m := unexported(reflect.ValueOf(dc).Elem().FieldByName("cache"))
	for _, k := range m.MapKeys() {
		out[k.String()] = m.MapIndex(k).Interface().(dcache.Dentry)
	}
	return out
}

func peekBitmap(a *alloc.Alloc) []byte {
	return unexported(reflect.ValueOf(a).Elem().FieldByName("bitmap")).Bytes()
}

// coherenceInodes: part (a) of the coherence oracle alone — every cached inode equals the inode of
// the logical disk.  Cheap enough to run after EVERY request (an in-place change that no
// transaction wrote lives in the cache only until the next write, abort or eviction heals it).
func (s *seqRun) coherenceInodes(after string) {
	if s.dead || s.srv == nil {
		return
	}
	s.waitIdle()
	if s.srv.VerifShrinker().VerifNthread() != 0 {
		return // a background shrinker is still at work (it changes cached inodes in place under their locks): not a quiescent point
	}
	st := s.srv.VerifFsState()
	cached := peekCache(st.Icache)
	for inum, ip := range cached {
		if ip.Inum != inum {
			continue
		}
		disk := st.Txn.Load(st.Super.Inum2Addr(inum), common.INODESZ*8).Data
		if !bytes.Equal(ip.Encode(), disk) {
			s.oracle("C10", "cached-inode-differs-from-disk", fmt.Sprintf("after [%s]: inode %d: cache %v, logical disk %s", trunc(after), inum, ip, hx(disk)))
			return
		}
	}
}

func (s *seqRun) coherence() {
	if s.dead {
		return
	}
	// (the listings issued here are helper requests: their lock events must not be attributed to the next traced operation)
	defer func() {
		if s.locks && !s.inline {
			takeSeqEvents()
		}
	}()
	s.waitIdle()
	st := s.srv.VerifFsState()
	st.Txn.Flush()
	// (a) cached inodes = logical disk
	cached := peekCache(st.Icache)
	var ks []uint64
	for k := range cached {
		ks = append(ks, k)
	}
	sort.Slice(ks, func(i, j int) bool { return ks[i] < ks[j] })
	for _, inum := range ks {
		ip := cached[inum]
		if ip.Inum != inum {
			s.oracle("C10", "cache-slot-wrong-inode", fmt.Sprintf("cache slot %d holds inode %d", inum, ip.Inum))
			continue
		}
		disk := st.Txn.Load(st.Super.Inum2Addr(inum), common.INODESZ*8).Data
		if !bytes.Equal(ip.Encode(), disk) {
			s.oracle("C10", "cached-inode-differs-from-disk", fmt.Sprintf("inode %d: cache %v, logical disk %s", inum, ip, hx(disk)))
		}
		// (b) name cache = directory contents
		if ip.Dcache != nil && ip.Kind == nfstypes.NF3DIR {
			dc := peekDcache(ip.Dcache)
			var rep nfstypes.READDIR3res
			h := mkfh3((&struct{ b []byte }{b: append(le64b(inum), le64b(ip.Gen)...)}).b)
			if !s.guarded("c10 readdir", func() {
				rep = s.srv.NFSPROC3_READDIR(nfstypes.READDIR3args{Dir: h, Count: 0xffffffff})
			}) {
				return
			}
			if rep.Status == nfstypes.NFS3_OK {
				n := 0
				for e := rep.Resok.Reply.Entries; e != nil; e = e.Nextentry {
					n++
					de, ok := dc[string(e.Name)]
					if !ok || uint64(de.Inum) != uint64(e.Fileid) || de.Off+128 != uint64(e.Cookie) {
						s.oracle("C10", "name-cache-differs-from-directory", fmt.Sprintf("directory %d entry %q: on disk (inode %d, slot offset %d), name cache %v present=%v", inum, string(e.Name), e.Fileid, uint64(e.Cookie)-128, de, ok))
						break
					}
				}
				if n != len(dc) {
					s.oracle("C10", "name-cache-differs-from-directory", fmt.Sprintf("directory %d has %d entries on disk, its name cache %d", inum, n, len(dc)))
				}
			}
		}
	}
	// (c) allocators = bitmaps of the logical disk
	s.waitIdle()
	for _, x := range []struct {
		name  string
		a     *alloc.Alloc
		start uint64
		n     uint64
	}{{"block", st.Balloc, uint64(st.Super.BitmapBlockStart()), st.Super.NBlockBitmap},
		{"inode", st.Ialloc, uint64(st.Super.BitmapInodeStart()), st.Super.NInodeBitmap}} {
		mem := peekBitmap(x.a)
		var disk []byte
		for i := uint64(0); i < x.n; i++ {
			disk = append(disk, st.Txn.Load(addr.MkAddr(x.start+i, 0), common.NBITBLOCK).Data...)
		}
		// (numbers the allocator does not cover cannot be handed out: they count as in use)
		for len(mem) < len(disk) {
			mem = append(mem, 0xff)
		}
		if !bytes.Equal(mem, disk) {
			for i := range disk {
				if mem[i] != disk[i] {
					s.oracle("C10", "allocator-differs-from-bitmap", fmt.Sprintf("%s allocator byte %d (numbers %d..%d): memory %08b, logical disk %08b", x.name, i, i*8, i*8+7, mem[i], disk[i]))
					break
				}
			}
		}
	}
	s.hist["coherence:ok"]++
}

func le64b(n uint64) []byte {
	b := make([]byte, 8)
	for i := 0; i < 8; i++ {
		b[i] = byte(n >> (8 * uint(i)))
	}
	return b
}

// restartCompare: dump, recover a second server from a copy of the raw image,
// restart the first cleanly; all three dumps must be equal.
func (s *seqRun) restartCompare() {
	defer func() {
		if s.locks && !s.inline {
			takeSeqEvents()
		}
	}()
	if s.dead {
		return
	}
	s.coherence()
	if s.dead {
		return
	}
	before := s.dumpTree()
	s.srv.VerifFsState().Txn.Flush()
	img := s.d.Snapshot()
	// recovery from the image at this instant (the log may hold un-installed transactions)
	first := s.srv
	s.srv = nfs.MakeNfs(NewOverlay(s.d.Size(), img))
	s.srv.Unstable = s.unstable
	rec := s.dumpTree()
	s.srv.ShutdownNfs()
	s.srv = first
	if s.dead {
		return
	}
	if rec != before {
		s.oracle("C10", "recovered-server-differs", "a server recovered from a copy of the raw image differs from the running one: "+firstDiff(before, rec))
	}
	s.opRestart()
	after := s.dumpTree()
	if after != before {
		s.oracle("C10", "restarted-server-differs", "the server differs after a clean restart: "+firstDiff(before, after))
	}
	s.coherence()
	s.hist["restartcompare:ok"]++
}

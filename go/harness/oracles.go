package main

import (
	"crypto/sha1"
	"fmt"
	"reflect"
	"sort"
	"strings"
	"time"
	"unsafe"

	"github.com/mit-pdos/go-nfsd/nfstypes"
)

// Property oracles evaluated on the implementation's own answers (no model
// involved).  They are the search for a concrete failing input when a proof
// obligation or the correspondence breaks, and a cross-check of the model
// otherwise.

// waitIdle waits until no background shrinker runs.
func (s *seqRun) waitIdle() {
	for i := 0; i < 2000; i++ {
		if s.srv.VerifShrinker().VerifNthread() == 0 {
			return
		}
		time.Sleep(time.Millisecond)
	}
}

func (s *seqRun) freeCounts() [2]uint64 {
	s.waitIdle()
	st := s.srv.VerifFsState()
	return [2]uint64{st.Balloc.NumFree(), st.Ialloc.NumFree()}
}

// dumpTree walks the whole tree through the API and returns a canonical text:
// one line per object reachable from the root with its path, handle, type,
// size and a digest of its content (files up to 1 MiB, link targets).
func (s *seqRun) dumpTree() string {
	var lines []string
	s.dumpFiles = nil
	s.dumpWhere = nil
	type item struct {
		path string
		h    []byte
	}
	seen := map[string]bool{}
	queue := []item{{"/", s.root()}}
	for len(queue) > 0 && !s.dead {
		it := queue[0]
		queue = queue[1:]
		if seen[hx(it.h)] {
			continue
		}
		seen[hx(it.h)] = true
		var rep nfstypes.READDIRPLUS3res
		if !s.guarded("dump readdirplus", func() {
			rep = s.srv.NFSPROC3_READDIRPLUS(nfstypes.READDIRPLUS3args{Dir: mkfh3(it.h), Dircount: 0xffffffff, Maxcount: 0xffffffff})
		}) {
			return "DEAD"
		}
		if rep.Status != nfstypes.NFS3_OK {
			lines = append(lines, fmt.Sprintf("%s !readdirplus=%d", it.path, rep.Status))
			continue
		}
		for e := rep.Resok.Reply.Entries; e != nil; e = e.Nextentry {
			a := e.Name_attributes.Attributes
			p := it.path + hx([]byte(e.Name))
			digest := "-"
			h := e.Name_handle.Handle.Data
			if !e.Name_attributes.Attributes_follow || !e.Name_handle.Handle_follows {
				// attributes omitted by the server: ask for them
				var lr nfstypes.LOOKUP3res
				if !s.guarded("dump lookup", func() {
					lr = s.srv.NFSPROC3_LOOKUP(nfstypes.LOOKUP3args{What: nfstypes.Diropargs3{Dir: mkfh3(it.h), Name: e.Name}})
				}) {
					return "DEAD"
				}
				if lr.Status != nfstypes.NFS3_OK {
					lines = append(lines, fmt.Sprintf("%s !lookup=%d", p, lr.Status))
					continue
				}
				a = lr.Resok.Obj_attributes.Attributes
				h = lr.Resok.Object.Data
			}
			switch a.Ftype {
			case nfstypes.NF3REG:
				s.dumpFiles = append(s.dumpFiles, append([]byte{}, h...))
				if s.dumpWhere == nil {
					s.dumpWhere = map[string]dumpLoc{}
				}
				s.dumpWhere[hx(h)] = dumpLoc{dir: append([]byte{}, it.h...), name: string(e.Name)}
				if a.Size <= 1<<20 {
					var rr nfstypes.READ3res
					if !s.guarded("dump read", func() {
						rr = s.srv.NFSPROC3_READ(nfstypes.READ3args{File: mkfh3(h), Offset: 0, Count: nfstypes.Count3(a.Size)})
					}) {
						return "DEAD"
					}
					digest = fmt.Sprintf("%d:%x", rr.Status, sha1.Sum(rr.Resok.Data))
				}
			case nfstypes.NF3LNK:
				var rl nfstypes.READLINK3res
				if !s.guarded("dump readlink", func() {
					rl = s.srv.NFSPROC3_READLINK(nfstypes.READLINK3args{Symlink: mkfh3(h)})
				}) {
					return "DEAD"
				}
				digest = fmt.Sprintf("%d:%x", rl.Status, sha1.Sum([]byte(rl.Resok.Data)))
			case nfstypes.NF3DIR:
				if string(e.Name) != "." && string(e.Name) != ".." {
					queue = append(queue, item{p + "/", h})
				}
			}
			lines = append(lines, fmt.Sprintf("%s %s t%d s%d id%d c%d %s", p, hx(h), a.Ftype, a.Size, a.Fileid, e.Cookie, digest))
		}
	}
	sort.Strings(lines)
	return strings.Join(lines, "\n")
}

// afterOp implements the C09 oracle: the dump and the allocators' free counts
// after a failed operation must equal those before it.
func (s *seqRun) afterOp(desc string, failed bool) {
	if !s.c09 || s.dead {
		return
	}
	free := s.freeCounts()
	if failed && s.lastDump != "" {
		if free != s.lastFree {
			s.oracle("C09", "failed-op-consumed-space", fmt.Sprintf("after the failed operation [%s] the allocators report %d free blocks / %d free inodes, before it %d / %d", trunc(desc), free[0], free[1], s.lastFree[0], s.lastFree[1]))
		}
	}
	d := s.dumpTree()
	if failed && d != s.lastDump && s.lastDump != "" {
		s.oracle("C09", "failed-op-changed-tree", fmt.Sprintf("the tree differs after the failed operation [%s]: %s", trunc(desc), firstDiff(s.lastDump, d)))
	}
	s.lastDump = d
	s.lastFree = s.freeCounts()
}

func trunc(x string) string {
	if len(x) > 160 {
		return x[:160] + "…"
	}
	return x
}

func firstDiff(a, b string) string {
	al, bl := strings.Split(a, "\n"), strings.Split(b, "\n")
	am := map[string]bool{}
	for _, l := range al {
		am[l] = true
	}
	bm := map[string]bool{}
	for _, l := range bl {
		bm[l] = true
	}
	for _, l := range al {
		if !bm[l] {
			return "before only: " + trunc(l)
		}
	}
	for _, l := range bl {
		if !am[l] {
			return "after only: " + trunc(l)
		}
	}
	return "(order)"
}

type dent struct {
	fileid uint64
	name   string
	cookie uint64
}

// C13 oracle: cookie-paged enumeration with small budgets returns exactly the
// one-shot listing, each entry once, and terminates.
func (s *seqRun) dirScan(d []byte) {
	// (the listings issued here are helper requests: their lock events must not be attributed to
	// the next traced operation, which would be judged by that operation's rules)
	defer func() {
		if s.locks && !s.inline {
			takeSeqEvents()
		}
	}()
	list := func(plus bool, cookie uint64, b1, b2 uint32) (es []dent, eof bool, st nfstypes.Nfsstat3, ok bool) {
		ok = s.guarded("dirscan", func() {
			if plus {
				rep := s.srv.NFSPROC3_READDIRPLUS(nfstypes.READDIRPLUS3args{Dir: mkfh3(d), Cookie: nfstypes.Cookie3(cookie), Dircount: nfstypes.Count3(b1), Maxcount: nfstypes.Count3(b2)})
				st = rep.Status
				for e := rep.Resok.Reply.Entries; e != nil; e = e.Nextentry {
					es = append(es, dent{uint64(e.Fileid), string(e.Name), uint64(e.Cookie)})
				}
				eof = rep.Resok.Reply.Eof
			} else {
				rep := s.srv.NFSPROC3_READDIR(nfstypes.READDIR3args{Dir: mkfh3(d), Cookie: nfstypes.Cookie3(cookie), Count: nfstypes.Count3(b1)})
				st = rep.Status
				for e := rep.Resok.Reply.Entries; e != nil; e = e.Nextentry {
					es = append(es, dent{uint64(e.Fileid), string(e.Name), uint64(e.Cookie)})
				}
				eof = rep.Resok.Reply.Eof
			}
		})
		return
	}
	full, eof, st, ok := list(false, 0, 0xffffffff, 0)
	if !ok || st != nfstypes.NFS3_OK {
		return
	}
	if !eof {
		s.oracle("C13", "oneshot-no-eof", "READDIR with the maximum count did not reach end of directory "+hx(d))
		return
	}
	type budget struct {
		plus   bool
		b1, b2 uint32
	}
	for _, b := range []budget{{false, 0, 0}, {false, 97, 0}, {false, 150, 0}, {false, 400, 0}, {false, 1000, 0}, {false, 2500, 0},
		{true, 0, 0xffffffff}, {true, 0xffffffff, 197}, {true, 20, 500}, {true, 0xffffffff, 0},
		// budgets that put several entries on a page: the reply-size accounting decides where a page ends
		{true, 0xffffffff, 1269}, {true, 0xffffffff, 1500}, {true, 0xffffffff, 2048}, {true, 0xffffffff, 3001}, {true, 4096, 4096}, {true, 700, 0xffffffff}} {
		var got []dent
		cookie := uint64(0)
		calls := 0
		for {
			es, eof, st, ok := list(b.plus, cookie, b.b1, b.b2)
			if !ok {
				return
			}
			calls++
			if st != nfstypes.NFS3_OK {
				s.oracle("C13", "page-error", fmt.Sprintf("listing %s with cookie %d returned status %d", hx(d), cookie, st))
				return
			}
			got = append(got, es...)
			if eof {
				break
			}
			if len(es) == 0 {
				s.oracle("C13", "no-progress", fmt.Sprintf("listing %s (plus=%v budgets %d/%d) with cookie %d returned no entry and no end of directory", hx(d), b.plus, b.b1, b.b2, cookie))
				return
			}
			cookie = es[len(es)-1].cookie
			if calls > len(full)+3 {
				s.oracle("C13", "no-termination", fmt.Sprintf("listing %s (plus=%v budgets %d/%d) did not end after %d calls for %d entries", hx(d), b.plus, b.b1, b.b2, calls, len(full)))
				return
			}
		}
		if len(got) != len(full) {
			s.oracle("C13", "enumeration-differs", fmt.Sprintf("paged listing of %s (plus=%v budgets %d/%d) returned %d entries, the one-shot listing %d", hx(d), b.plus, b.b1, b.b2, len(got), len(full)))
			return
		}
		for i := range got {
			if got[i] != full[i] {
				s.oracle("C13", "enumeration-differs", fmt.Sprintf("paged listing of %s (plus=%v budgets %d/%d): entry %d is %v, one-shot listing has %v", hx(d), b.plus, b.b1, b.b2, i, got[i], full[i]))
				return
			}
		}
	}
	s.hist["dirscan:ok"]++
}

// C19 oracle: the limits announced by FSINFO / PATHCONF, probed at limit and limit+1.
func (s *seqRun) limitsProbe() {
	var fi nfstypes.FSINFO3res
	var pc nfstypes.PATHCONF3res
	if !s.guarded("limits", func() {
		fi = s.srv.NFSPROC3_FSINFO(nfstypes.FSINFO3args{Fsroot: mkfh3(s.root())})
		pc = s.srv.NFSPROC3_PATHCONF(nfstypes.PATHCONF3args{Object: mkfh3(s.root())})
	}) {
		return
	}
	if fi.Status != nfstypes.NFS3_OK || pc.Status != nfstypes.NFS3_OK {
		s.oracle("C19", "announce-failed", "FSINFO or PATHCONF on the root failed")
		return
	}
	nmax := int(pc.Resok.Name_max)
	wtmax := uint32(fi.Resok.Wtmax)
	mfs := uint64(fi.Resok.Maxfilesize)
	d := s.mk("mkdir", s.root(), "limits")
	if d == nil {
		return
	}
	for i, kind := range []string{"create", "mkdir", "symlink"} {
		okName := strings.Repeat(string(rune('A'+i)), nmax)
		badName := okName + "x"
		if h := s.mk(kind, d, okName); h == nil {
			s.oracle("C19", "name-max-refused", fmt.Sprintf("%s of a name of the announced maximum length %d was refused", kind, nmax))
		}
		if h := s.mk(kind, d, badName); h != nil {
			s.oracle("C19", "name-beyond-max-accepted", fmt.Sprintf("%s of a name of length %d (announced maximum %d) was accepted", kind, nmax+1, nmax))
		}
		s.opLookup(d, okName)
		s.opLookup(d, badName)
	}
	s.mk("create", d, "r")
	s.opRename(d, "r", d, strings.Repeat("R", nmax))
	if s.lastStatus != nfstypes.NFS3_OK {
		s.oracle("C19", "name-max-refused", fmt.Sprintf("RENAME to a name of the announced maximum length %d was refused", nmax))
	}
	s.opRename(d, strings.Repeat("R", nmax), d, strings.Repeat("R", nmax+1))
	if s.lastStatus == nfstypes.NFS3_OK {
		s.oracle("C19", "name-beyond-max-accepted", fmt.Sprintf("RENAME to a name of length %d (announced maximum %d) was accepted", nmax+1, nmax))
	}
	s.opReaddir(d, 0, 0xffffffff)
	f := s.mk("create", d, "big")
	if f == nil {
		return
	}
	// transfer size
	data := s.mkData(int(wtmax) + 1)
	before := s.hist["write:ok"]
	s.opWrite(f, 0, wtmax, 2, data[:wtmax])
	if s.hist["write:ok"] != before+1 {
		s.oracle("C19", "wtmax-refused", fmt.Sprintf("a FILE_SYNC WRITE of the announced maximum transfer size %d to a fresh file was refused", wtmax))
	}
	s.opRead(f, uint64(wtmax)-70000, 65536)
	s.opRead(f, 0, uint32(fi.Resok.Rtmax))
	before = s.hist["write:ok"]
	s.opWrite(f, 0, wtmax+1, 2, data)
	if s.hist["write:ok"] != before {
		s.oracle("C19", "beyond-wtmax-accepted", fmt.Sprintf("a WRITE of %d bytes (announced maximum %d) was accepted", wtmax+1, wtmax))
	}
	s.opGetattr(f)
	// file size
	g := s.mk("create", d, "sparse")
	before = s.hist["write:ok"]
	s.opWrite(g, mfs-10, 10, 2, pat(3, 10))
	if s.hist["write:ok"] != before+1 {
		s.oracle("C19", "maxfilesize-refused", fmt.Sprintf("a WRITE ending exactly at the announced maximum file size %d was refused", mfs))
	}
	s.opRead(g, mfs-20, 40)
	before = s.hist["write:ok"]
	s.opWrite(g, mfs-9, 10, 2, pat(4, 10))
	s.opWrite(g, mfs, 1, 2, pat(4, 1))
	s.opWrite(g, ^uint64(0)-4, 10, 2, pat(4, 10))
	if s.hist["write:ok"] != before {
		s.oracle("C19", "beyond-maxfilesize-accepted", "a WRITE ending beyond the announced maximum file size was accepted")
	}
	s.opGetattr(g)
	k := s.mk("create", d, "sized")
	okb := s.hist["setattr:ok"]
	s.opSetattr(k, &mfs, timeHow{}, timeHow{})
	if s.hist["setattr:ok"] != okb+1 {
		s.oracle("C19", "maxfilesize-refused", "SETATTR to the announced maximum file size was refused")
	}
	m1 := mfs + 1
	okb = s.hist["setattr:ok"]
	s.opSetattr(k, &m1, timeHow{}, timeHow{})
	if s.hist["setattr:ok"] != okb {
		s.oracle("C19", "beyond-maxfilesize-accepted", "SETATTR beyond the announced maximum file size was accepted")
	}
	// every size beyond the maximum, up to the largest 64-bit value (sums that wrap around included)
	for _, big := range []uint64{mfs + 4096, 2 * mfs, 1 << 32, 1 << 62, 1 << 63, ^uint64(0) - 8192, ^uint64(0) - 4095, ^uint64(0) - 4094, ^uint64(0) - 1, ^uint64(0)} {
		okb = s.hist["setattr:ok"]
		b := big
		s.opSetattr(k, &b, timeHow{}, timeHow{})
		if s.hist["setattr:ok"] != okb {
			s.oracle("C19", "beyond-maxfilesize-accepted", fmt.Sprintf("SETATTR to size %d (announced maximum file size %d) was accepted", big, mfs))
		}
	}
	s.opGetattr(k)
	s.opRead(k, mfs-100, 200)
	z := uint64(0)
	s.opSetattr(k, &z, timeHow{}, timeHow{})
	s.opSetattr(g, &z, timeHow{}, timeHow{})
	s.opRemove("remove", d, "big")
	s.opRemove("remove", d, "sparse")
	// a file far below the announced maximum whose blocks lie on both sides of a block-bitmap
	// boundary and reach into the double-indirect range: it can be truncated, written again and removed
	// (what a freeing transaction touches — data, index, inode and TWO bitmap blocks — must fit the journal)
	if st := s.srv.VerifFsState(); st.Super.MaxBnum() > 34000 && !s.dead {
		s.waitIdle()
		nextp := reflect.ValueOf(st.Balloc).Elem().FieldByName("next")
		*(*uint64)(unsafe.Pointer(nextp.UnsafeAddr())) = 32768 - 1260
		sf := s.mk("create", d, "straddle")
		piece := s.mkData(128 * 4096)
		for i := uint64(0); i < 12 && sf != nil && !s.dead; i++ {
			s.opWrite(sf, i*128*4096, 128*4096, 2, piece)
		}
		if sf != nil && !s.dead {
			okb = s.hist["setattr:ok"]
			s.opSetattr(sf, &z, timeHow{}, timeHow{})
			s.waitIdle()
			before = s.hist["write:ok"]
			s.opWrite(sf, 0, 4096, 2, piece[:4096])
			if s.hist["setattr:ok"] != okb+1 || s.hist["write:ok"] != before+1 {
				s.oracle("C19", "file-within-limits-unusable", "a 1536-block file (6 MB, announced maximum file size far above) whose blocks straddle block 32768 was truncated to 0; the truncation or the WRITE after it failed")
			}
			s.opRead(sf, 0, 4096)
			s.opRemove("remove", d, "straddle")
			s.waitIdle()
		}
	}
}

package main

import (
	"encoding/binary"
	"flag"
	"fmt"

	"github.com/mit-pdos/go-journal/addr"
	"github.com/mit-pdos/go-journal/buf"
	"github.com/mit-pdos/go-nfsd/dir"
	"github.com/mit-pdos/go-nfsd/fh"
	"github.com/mit-pdos/go-nfsd/inode"
	"github.com/mit-pdos/go-nfsd/nfstypes"
)

// cmdCodec exercises the on-disk codecs of the real code on random inputs.
func cmdCodec(fs *flag.FlagSet, args []string) {
	seed := fs.Uint64("seed", 1, "seed")
	n := fs.Int("n", 2000, "cases per codec")
	fs.Parse(args)
	r := NewRng(*seed)
	for i := 0; i < *n; i++ {
		// inode: decode random bytes (every 128-byte string is an inode), re-encode
		b := make([]byte, 128)
		for j := range b {
			switch r.Intn(4) {
			case 0:
				b[j] = 0
			case 1:
				b[j] = 0xff
			default:
				b[j] = byte(r.U64())
			}
		}
		ip := inode.Decode(buf.MkBuf(addr.MkAddr(0, 0), 1024, b), 7)
		blks := ip.VerifBlks()
		enc := ip.Encode()
		line := fmt.Sprintf("cinode %s %d %d %d %d %d %d %d %d %d", hx(b), ip.Kind, ip.Nlink, ip.Gen, ip.Size, ip.ShrinkSize,
			ip.Atime.Seconds, ip.Atime.Nseconds, ip.Mtime.Seconds, ip.Mtime.Nseconds)
		for _, bn := range blks {
			line += fmt.Sprintf(" %d", bn)
		}
		emit("%s %s", line, hx(enc))
		// directory entries
		nl := r.Intn(113)
		if r.Chance(1, 5) {
			nl = []int{0, 1, 111, 112}[r.Intn(4)]
		}
		name := make([]byte, nl)
		for j := range name {
			name[j] = byte(r.U64())
		}
		inum := r.U64()
		if r.Chance(1, 3) {
			inum = uint64(r.Intn(40000))
		}
		de := dir.VerifEncodeDirEnt(inum, string(name))
		emit("cdirent %d %s %s", inum, hx(name), hx(de))
		// decode: the encoding, and arbitrary slot contents
		slot := de
		if r.Chance(1, 2) {
			slot = make([]byte, 128)
			for j := range slot {
				slot[j] = byte(r.U64())
			}
			binary.LittleEndian.PutUint64(slot[8:], uint64(r.Intn(140))) // length field around the limit
		}
		ok := 1
		var di uint64
		var dn string
		func() {
			defer func() {
				if recover() != nil {
					ok = 0
				}
			}()
			di, dn = dir.VerifDecodeDirEnt(slot)
		}()
		if ok == 1 {
			emit("cdirdec %s 1 %d %s", hx(slot), di, hx([]byte(dn)))
		} else {
			emit("cdirdec %s 0 0 -", hx(slot))
		}
		// handles
		hl := r.Intn(40)
		h := make([]byte, hl)
		for j := range h {
			h[j] = byte(r.U64())
		}
		f := fh.MakeFh(nfstypes.Nfs_fh3{Data: h})
		emit("cfh %s %d %d", hx(h), f.Ino, f.Gen)
		f2 := fh.Fh{Ino: r.U64(), Gen: r.U64()}
		emit("cfh3 %d %d %s", f2.Ino, f2.Gen, hx(f2.MakeFh3().Data))
	}
	emit("cfh3 1 1 %s", hx(fh.MkRootFh3().Data))
}

package main

import (
	"unsafe"
	"reflect"
	"bufio"
	"bytes"
	"crypto/sha1"
	"encoding/binary"
	"flag"
	"fmt"
	"os"
	"runtime"
	"sort"
	"strings"
	"sync"
	"time"

	"github.com/mit-pdos/go-nfsd/fh"
	"github.com/mit-pdos/go-nfsd/fstxn"
	"github.com/mit-pdos/go-nfsd/nfs"
	"github.com/mit-pdos/go-nfsd/nfstypes"
)

// Crash harness (C01, C07).  A workload runs on a RECORDING disk that logs
// every block write and barrier.  The same workload runs once more on a plain
// disk with a full API dump after every operation (the reference prefix
// states).  Then, for crash points over the recorded trace - a prefix of the
// events, with a subset of the writes issued since the last barrier missing -
// the image is built, the REAL server recovers from it, its tree is dumped
// through the API and must equal the reference state after some prefix of the
// operations that (a) contains every operation acknowledged with stable
// semantics before the crash and (b) contains no operation that had not
// started.  The recovered server must then keep serving.

type recEvent struct {
	write bool
	a     uint64
	blk   []byte
}

type RecDisk struct {
	inner  *SparseDisk
	mu     sync.Mutex
	events []recEvent
	slow   func(a uint64) // called before a write is recorded (nil: none): stretches the window in which a write is issued but not on disk
}

func NewRecDisk(sz uint64) *RecDisk { return &RecDisk{inner: NewSparseDisk(sz)} }

func (d *RecDisk) Read(a uint64) []byte      { return d.inner.Read(a) }
func (d *RecDisk) ReadTo(a uint64, b []byte) { d.inner.ReadTo(a, b) }
func (d *RecDisk) Size() uint64              { return d.inner.Size() }
func (d *RecDisk) Close()                    {}
func (d *RecDisk) Write(a uint64, v []byte) {
	c := make([]byte, len(v))
	copy(c, v)
	if d.slow != nil {
		d.slow(a)
	}
	d.mu.Lock()
	d.events = append(d.events, recEvent{write: true, a: a, blk: c})
	d.inner.Write(a, v)
	d.mu.Unlock()
}
func (d *RecDisk) Barrier() {
	d.mu.Lock()
	d.events = append(d.events, recEvent{})
	d.mu.Unlock()
}
func (d *RecDisk) pos() int {
	d.mu.Lock()
	defer d.mu.Unlock()
	return len(d.events)
}

type crashOp struct {
	start, ret int  // trace positions at invocation and return
	stable     bool // acknowledged with stable semantics (and successful)
	line       string
}

// crashWorkload issues the operations of one workload; when rec != nil their
// trace positions are recorded, otherwise the tree is dumped after every operation.
// noiseHook: set once the observer of a noise workload is installed; the refusing clients register their goroutines with it
var noiseHook func()

func crashWorkload(seed uint64, mix string, nops int, disksz uint64, unstable bool, rec *RecDisk, noise bool) (ops []crashOp, dumps []string, s *seqRun) {
	r := NewRng(seed)
	s = &seqRun{r: r, unstable: unstable, objs: map[string]*objInfo{}, dirs: map[string]*dirInfo{}, hist: map[string]int{},
		opTimeout: 30e9, deadH: map[string]bool{}, issued: map[string]bool{}}
	var lines []string
	s.sink = func(l string) { lines = append(lines, l) }
	if rec != nil {
		s.srv = nfs.MakeNfs(rec)
	} else {
		s.d = NewSparseDisk(disksz)
		s.srv = nfs.MakeNfs(s.d)
	}
	s.srv.Unstable = unstable
	root := fh.MkRootFh3().Data
	s.objs[hx(root)] = &objInfo{fh: root, kind: 2}
	s.dirs[hx(root)] = &dirInfo{names: map[string][]byte{}}
	dumps = append(dumps, s.dumpTree())
	var tripleH []byte
	if noise {
		// other clients whose requests the journal refuses (a SYMLINK whose target does not fit
		// into the log), each in a directory of its own so that they share no lock with the client
		// under test: they fail, change nothing and write nothing, so every reference state is the
		// same — but whatever the journal does when it refuses a transaction must not cost an
		// acknowledged operation of somebody else its durability.  Several of them: one is then
		// likely to be queued on the journal's lock whenever the client under test commits.
		stop := make(chan bool)
		var wg sync.WaitGroup
		big := make([]byte, 600*4096)
		for i := range big {
			big[i] = 'n'
		}
		srv := s.srv
		for g := 0; g < 4; g++ {
			dn := fmt.Sprintf("zz-refused-%d", g)
			dh := s.mk("mkdir", root, dn)
			if dh == nil {
				continue
			}
			wg.Add(1)
			go func(dh []byte) {
				defer wg.Done()
				for noiseHook == nil {
					runtime.Gosched()
				}
				noiseHook()
				for {
					select {
					case <-stop:
						return
					default:
					}
					func() {
						defer func() { recover() }()
						srv.NFSPROC3_SYMLINK(nfstypes.SYMLINK3args{Where: nfstypes.Diropargs3{Dir: mkfh3(dh), Name: "big"},
							Symlink: nfstypes.Symlinkdata3{Symlink_data: nfstypes.Nfspath3(big)}})
					}()
				}
			}(append([]byte(nil), dh...))
		}
		// the schedule is perturbed where the hooks allow it: after the journal has taken a
		// transaction of the client under test ("commit-done") the client pauses briefly, so
		// that the refused requests fall between the steps of its commit
		var noiseGids sync.Map
		prev := fstxn.VerifObserver
		fstxn.VerifObserver = func(kind string, op *fstxn.FsTxn, arg uint64) {
			if prev != nil {
				prev(kind, op, arg)
			}
			if kind == "commit-done" {
				if _, isNoise := noiseGids.Load(curGid()); !isNoise {
					time.Sleep(300 * time.Microsecond)
				}
			}
		}
		noiseStarted := func() { noiseGids.Store(curGid(), true) }
		noiseHook = noiseStarted
		defer func() { close(stop); wg.Wait(); fstxn.VerifObserver = prev; noiseHook = nil }()
		dumps[0] = s.dumpTree()
	}
	for i := 0; i < nops && !s.dead; i++ {
		start := 0
		if rec != nil {
			start = rec.pos()
		}
		lines = nil
		stableReq := true
		switch mix {
		case "data": // C07: interleavings of UNSTABLE / DATA_SYNC / FILE_SYNC writes, COMMITs and metadata operations
			// directed, every twelfth operation: an unstable write, then a request the journal
			// REFUSES (it fails and changes nothing), then COMMIT — which must still make the
			// write durable.  Three operations, each with its own reference state.
			if i%12 == 9 && s.objs[hx(s.pickFileLive())].kind == 1 {
				tripleH = s.pickFileLive()
				s.opWrite(tripleH, uint64(r.Intn(3))*2000, 1000, 0, s.mkData(1000))
				stableReq = !s.unstable
			} else if i%12 == 10 && tripleH != nil {
				if (i/12)%2 == 0 {
					s.opCreate("symlink", s.root(), "too-big-for-the-log", 0, pat('n', 600*4096))
				} else {
					// (round 15, C01o) ... or a request ON THE SAME FILE that fails and aborts: the cached inode of the file is
					// forgotten with whatever the server remembered in it about the unstable write
					s.opCommit(tripleH, 1<<40, 1)
				}
				stableReq = true
			} else if i%12 == 11 && tripleH != nil {
				s.opCommit(tripleH, 0, 0)
				tripleH = nil
				stableReq = true
			} else {
				stableReq = s.dataOp()
			}
		case "free": // C05: build a file too large to free in one transaction, then free it while other work goes on
			stableReq = s.freeOp(i)
		default:
			stableReq = s.metaOp()
		}
		ret := 0
		if rec != nil {
			ret = rec.pos()
		}
		ok := false
		text := ""
		for _, l := range lines {
			if !strings.HasPrefix(l, "#") {
				text = l
				if i := strings.Index(l, " => "); i >= 0 {
					f := strings.Fields(l[i+4:])
					ok = len(f) > 0 && f[0] == "0"
				}
			}
		}
		// a WRITE is classified by what the REPLY promises (committed >= DATA_SYNC), not by what
		// was requested; a committed level weaker than the requested one breaks the contract
		if f := strings.Fields(text); ok && len(f) > 5 && f[0] == "write" {
			if i := strings.Index(text, " => "); i >= 0 {
				rf := strings.Fields(text[i+4:])
				if len(rf) >= 3 {
					stableReq = rf[2] != "0"
					if rf[2] < f[4] {
						emit("# ORACLE C07 committed-weaker-than-requested WRITE with stable=%s is acknowledged with committed=%s", f[4], rf[2])
					}
					if !unstable && rf[2] != "2" {
						emit("# ORACLE C07 option-off-not-file-sync with the unstable option off a WRITE is acknowledged with committed=%s", rf[2])
					}
				}
			}
		}
		ops = append(ops, crashOp{start: start, ret: ret, stable: ok && stableReq, line: text})
		// the reference state after this operation, taken in the same run: the dump's own requests
		// are read-only at the API (their hole-filling transactions change no visible state)
		dumps = append(dumps, s.dumpTree())
	}
	return
}

// metaOp: one operation of the namespace-heavy mix; returns whether a
// successful reply promises durability (everything but an UNSTABLE write).
func (s *seqRun) metaOp() bool {
	r := s.r
	switch k := r.Intn(100); {
	case k < 16:
		s.opCreate("create", s.pickDirLive(), s.shortName(), 0, nil)
	case k < 24:
		s.opCreate("mkdir", s.pickDirLive(), s.shortName(), 0, nil)
	case k < 28:
		s.opCreate("symlink", s.pickDirLive(), s.shortName(), 0, s.mkData(20))
	case k < 48:
		h := s.pickFileLive()
		n := []int{100, 4096, 5000, 20000, 40000}[r.Intn(5)]
		stable := uint32(r.Intn(3))
		off := []uint64{0, 100, 4096, 7 * 4096, (8+512)*4096 - 100}[r.Intn(5)]
		s.opWrite(h, off, uint32(n), stable, s.mkData(n))
		return !(s.unstable && stable == 0)
	case k < 56:
		h := s.pickFileLive()
		sz := []uint64{0, 50, 4096, 10000, 3000000}[r.Intn(5)]
		s.opSetattr(h, &sz, timeHow{}, timeHow{})
	case k < 68:
		d := s.pickDirLive()
		s.opRemove("remove", d, s.pickName(d))
	case k < 73:
		d := s.pickDirLive()
		s.opRemove("rmdir", d, s.pickName(d))
	case k < 90:
		fd, td := s.pickDirLive(), s.pickDirLive()
		tn := s.shortName()
		if r.Chance(1, 2) {
			tn = s.pickName(td)
		}
		fn := s.pickName(fd)
		if h := s.handleOf(fd, fn); h != nil {
			if o, ok := s.objs[hx(h)]; ok && o.kind == 2 {
				// moving a DIRECTORY to another parent leaves its ".." behind (known finding
				// C04 rename:directory-dotdot-and-cycles); the malformed trees that follow (dangling
				// "..", LOOKUP spinning on it) are consequences of that finding, not of a crash
				td = fd
			}
		}
		s.opRename(fd, fn, td, tn)
	case k < 95:
		h := s.pickFileLive()
		s.opCommit(h, 0, 0)
	default:
		s.opRead(s.pickFileLive(), 0, 8192)
	}
	return true
}

// freeOp: the scripted build-then-delete workload of C05.  Operations 0..13 build a file of
// ~770 blocks (direct, indirect and double-indirect ranges) and two small ones; operation 14
// removes or truncates the big file, which starts the background shrinker (the free does not fit
// one transaction); the operations after it run concurrently with the freeing.
func (s *seqRun) freeOp(i int) bool {
	r := s.r
	big := s.handleOf(s.root(), "big")
	switch {
	case i == 0:
		s.opCreate("create", s.root(), "big", 0, nil)
	case i <= 12:
		// 64-block writes; the last ones reach the double-indirect range
		off := uint64(i-1) * 64 * 4096
		if i >= 10 {
			off = uint64(8+512+(i-10)*70) * 4096
		}
		if big != nil {
			s.opWrite(big, off, 64*4096, 2, s.mkData(64*4096))
		}
	case i == 13:
		s.opCreate("create", s.root(), "small", 0, nil)
	case i == 14:
		if big == nil {
			return true
		}
		if r.Chance(1, 2) {
			s.opRemove("remove", s.root(), "big")
		} else {
			sz := uint64(r.Intn(3)) * 5000
			s.opSetattr(big, &sz, timeHow{}, timeHow{})
		}
	default:
		switch r.Intn(5) {
		case 0:
			s.opCreate("create", s.root(), s.shortName(), 0, nil)
		case 1:
			if h := s.handleOf(s.root(), "small"); h != nil {
				s.opWrite(h, uint64(r.Intn(5))*4096, 9000, 2, s.mkData(9000))
			}
		case 2:
			s.opCreate("mkdir", s.root(), s.shortName(), 0, nil)
		case 3:
			if big != nil {
				// touching the half-freed file: the request helps finishing the shrink first
				s.opWrite(big, uint64(r.Intn(20))*4096, 5000, 2, s.mkData(5000))
			} else {
				s.opCreate("create", s.root(), "big", 0, nil)
			}
		default:
			s.opRemove("remove", s.root(), s.pickName(s.root()))
		}
	}
	return true
}

// dataOp: the write-stability mix of C07.
func (s *seqRun) dataOp() bool {
	r := s.r
	switch k := r.Intn(100); {
	case k < 10:
		s.opCreate("create", s.root(), s.shortName(), 0, nil)
	case k < 70:
		h := s.pickFileLive()
		n := []int{10, 1000, 4096, 9000}[r.Intn(4)]
		stable := uint32([]int{0, 0, 0, 1, 2}[r.Intn(5)])
		off := uint64(r.Intn(4)) * 3000
		s.opWrite(h, off, uint32(n), stable, s.mkData(n))
		return !(s.unstable && stable == 0)
	case k < 85:
		s.opCommit(s.pickFileLive(), 0, 0)
	case k < 92:
		h := s.pickFileLive()
		sz := uint64(r.Intn(12000))
		s.opSetattr(h, &sz, timeHow{}, timeHow{})
	case k < 94:
		s.opRename(s.root(), s.pickName(s.root()), s.root(), s.shortName())
	case k < 98:
		// a request the journal refuses (its transaction does not fit into the log): it fails and
		// changes nothing, and what was acknowledged before it must still be made durable by the
		// next COMMIT or stable operation (fix 0fea8f5: the journal forgets its flush position)
		s.opCreate("symlink", s.root(), "too-big-for-the-log", 0, pat('n', 600*4096))
		if s.r.Chance(2, 3) {
			s.opCommit(s.pickFileLive(), 0, 0)
		}
	default:
		s.opRemove("remove", s.root(), s.pickName(s.root()))
	}
	return true
}

func (s *seqRun) shortName() string {
	s.nameCtr++
	return fmt.Sprintf("c%d", s.nameCtr%17)
}

func (s *seqRun) pickDirLive() []byte {
	var ds [][]byte
	for _, k := range s.sortedKeys(s.objs) {
		if s.objs[k].kind == 2 {
			ds = append(ds, s.objs[k].fh)
		}
	}
	return ds[s.r.Intn(len(ds))]
}

func (s *seqRun) pickFileLive() []byte {
	var fs [][]byte
	for _, k := range s.sortedKeys(s.objs) {
		if s.objs[k].kind == 1 {
			fs = append(fs, s.objs[k].fh)
		}
	}
	if len(fs) == 0 {
		return s.root()
	}
	return fs[s.r.Intn(len(fs))]
}

// buildImage applies events[0:p]; of the writes issued after the last barrier
// before p, those whose bit is clear in keep are dropped (nil keep = all kept).
func buildImage(events []recEvent, p int, keep map[int]bool, dropAll bool) map[uint64][]byte {
	last := -1
	for j := 0; j < p; j++ {
		if !events[j].write {
			last = j
		}
	}
	img := map[uint64][]byte{}
	for j := 0; j < p; j++ {
		e := events[j]
		if !e.write {
			continue
		}
		if j > last {
			if dropAll {
				continue
			}
			if keep != nil && !keep[j] {
				continue
			}
		}
		img[e.a] = e.blk
	}
	return img
}

type cp struct {
	p       int
	keep    map[int]bool
	dropAll bool
	desc    string
}

// crashPoints enumerates the crash states of a recorded trace from event p0 on: every prefix, and
// for the writes issued since the last barrier: none of them, only the last, all but one; when
// there are more than maxImages, an even sample.  Returns the selection and the total number.
func crashPoints(events []recEvent, p0, fromP, toP, maxImages int, root *Rng) ([]cp, int) {
	var cps []cp
	for p := p0; p <= len(events); p++ {
		if p < fromP || p > toP {
			continue
		}
		last := -1
		for j := 0; j < p; j++ {
			if !events[j].write {
				last = j
			}
		}
		var pend []int
		for j := last + 1; j < p; j++ {
			if events[j].write {
				pend = append(pend, j)
			}
		}
		cps = append(cps, cp{p: p, desc: "all-pending-written"})
		if len(pend) > 0 {
			cps = append(cps, cp{p: p, dropAll: true, desc: "no-pending-written"})
		}
		if len(pend) > 1 && len(pend) <= 24 {
			// reorderings: only the last pending write reached the disk; all but one did
			only := map[int]bool{pend[len(pend)-1]: true}
			cps = append(cps, cp{p: p, keep: only, desc: "only-last-pending-written"})
			miss := pend[root.Intn(len(pend))]
			keep := map[int]bool{}
			for _, j := range pend {
				if j != miss {
					keep[j] = true
				}
			}
			cps = append(cps, cp{p: p, keep: keep, desc: fmt.Sprintf("pending-write-%d-missing", miss)})
		}
	}
	total := len(cps)
	if len(cps) > maxImages {
		// half of the budget goes to the points right after a barrier (every durable state the run
		// went through: one per group commit / installation round), the rest is spread evenly
		var after, rest []cp
		for _, c := range cps {
			if c.p > 0 && c.p <= len(events) && !events[c.p-1].write && c.keep == nil && !c.dropAll {
				after = append(after, c)
			} else {
				rest = append(rest, c)
			}
		}
		var sel []cp
		na := maxImages / 2
		if len(after) <= na {
			sel = append(sel, after...)
		} else {
			for i := 0; i < na; i++ {
				sel = append(sel, after[i*len(after)/na])
			}
		}
		nr := maxImages - len(sel)
		for i := 0; i < nr && len(rest) > 0; i++ {
			sel = append(sel, rest[i*len(rest)/nr])
		}
		sort.SliceStable(sel, func(i, j int) bool { return sel[i].p < sel[j].p })
		cps = sel
	}
	return cps, total
}

func hasBarrier(events []recEvent, from, to int) bool {
	for j := from; j < to && j < len(events); j++ {
		if !events[j].write {
			return true
		}
	}
	return false
}

func cmdCrash(fs *flag.FlagSet, args []string) {
	seed := fs.Uint64("seed", 1, "seed")
	nwl := fs.Int("workloads", 2, "workloads")
	nops := fs.Int("ops", 40, "operations per workload")
	mix := fs.String("mix", "meta", "meta | data")
	maxImages := fs.Int("images", 400, "crash images per workload (evenly spread when the trace offers more)")
	disksz := fs.Uint64("disk", 20000, "disk size")
	locks := fs.Bool("locks", false, "print the lock/name event trace of the requests issued on recovered servers (creations that reuse half-freed numbers take the abort-help-retry path of getAlloc)")
	second := fs.Int("second", 0, "per workload: restart on this many crash images, serve more operations, crash again")
	imgPath := fs.String("imgout", "", "file the images of the recovered logical disks go to (structure checker)")
	onlySeed := fs.Uint64("wseed", 0, "replay: run only the workload with this seed")
	onlyUnstable := fs.Bool("wunstable", true, "replay: the unstable option of that workload")
	wnoise := fs.Bool("wnoise", false, "replay: run the workload next to a client whose requests the journal refuses")
	fromP := fs.Int("from", 0, "replay: only crash points >= from")
	toP := fs.Int("to", 1<<30, "replay: only crash points <= to")
	fs.Parse(args)
	var imgOut func(string)
	if *imgPath != "" {
		f, err := os.Create(*imgPath)
		if err != nil {
			die("imgout: %v", err)
		}
		iw := bufio.NewWriterSize(f, 1<<20)
		defer func() { iw.Flush(); f.Close() }()
		imgOut = func(l string) { iw.WriteString(l); iw.WriteByte('\n') }
	}
	if *locks {
		fstxn.VerifObserver = seqObserver
		defer func() { fstxn.VerifObserver = nil }()
	}
	root := NewRng(*seed)
	for w := 0; w < *nwl; w++ {
		wseed := root.U64()
		unstable := w%3 != 2
		if *onlySeed != 0 {
			wseed, unstable = *onlySeed, *onlyUnstable
		}
		// the recorded run, with the reference state dumped after every operation
		rec := NewRecDisk(*disksz)
		noise := w%2 == 1 && *onlySeed == 0 || *wnoise
		mixd := *mix
		if noise {
			mixd += "+refused-noise"
		}
		ops, dumps, sb := crashWorkload(wseed, *mix, *nops, *disksz, unstable, rec, noise)
		sb.waitIdle()
		sb.srv.VerifFsState().Txn.Flush()
		endPos := rec.pos()
		verfA := sb.writeVerf()
		p0 := 0
		if len(ops) > 0 {
			p0 = ops[0].start
		}
		if *mix == "free" && len(ops) > 14 {
			p0 = ops[14].start
		}
		sb.waitIdle()
		sb.srv.VerifFsState().Txn.Flush()
		sb.close()
		rec.mu.Lock()
		events := rec.events[:endPos]
		rec.mu.Unlock()
		nstable := 0
		for _, o := range ops {
			if o.stable {
				nstable++
			}
		}
		emit("# workload %d mix=%s unstable=%v refused-noise=%v ops=%d stable-acks=%d disk-events=%d first-crash-point=%d", w, *mix, unstable, noise, len(ops), nstable, len(events), p0)
		for i, o := range ops {
			emit("# op %d [%d,%d] stable=%v %s", i, o.start, o.ret, o.stable, trunc(o.line))
		}
		emitWalTrace(events, *disksz)
		// crash points: every prefix from p0 on (thinned to maxImages), each with the pending
		// writes all present, all missing, and each single one missing / alone present
		cps, total := crashPoints(events, p0, *fromP, *toP, *maxImages, root)
		// the points right after every stable acknowledgement, whatever the thinning left of them:
		// what was promised at that moment must be on the disk at that moment
		for i, o := range ops {
			if o.stable && o.ret >= p0 && o.ret >= *fromP && o.ret <= *toP && o.ret <= len(events) {
				cps = append(cps, cp{p: o.ret, desc: fmt.Sprintf("right after the acknowledgement of operation %d, all-pending-written", i)},
					cp{p: o.ret, dropAll: true, desc: fmt.Sprintf("right after the acknowledgement of operation %d, no-pending-written", i)})
			}
		}
		if *fromP == 0 {
			// the point right after start-up: nothing but formatting (or recovery) and reads has happened
			cps = append([]cp{{p: p0, desc: "right after start-up, all-pending-written"}, {p: p0, dropAll: true, desc: "right after start-up, no-pending-written"}}, cps...)
		}
		checked, distinctStates := 0, map[int]bool{}
		// checkOne: one crash image (on top of `base`, the disk the recorded run started from), recovered
		// by the real server and compared with the reference states; returns the matching prefix or -1
		curWhere := ""
		checkOne := func(base map[uint64][]byte, events []recEvent, ops []crashOp, dumps []string, c cp, stage string) int {
			img := buildImage(events, c.p, c.keep, c.dropAll)
			if base != nil {
				merged := make(map[uint64][]byte, len(base)+len(img))
				for k, v := range base {
					merged[k] = v
				}
				for k, v := range img {
					merged[k] = v
				}
				img = merged
			}
			kmin, kmax := 0, 0
			for i, o := range ops {
				// a stable acknowledgement of an operation that changed something visible: it, and
				// (log order) everything before it, must survive.  A request that changes nothing -
				// a read, a rename onto itself - commits an empty transaction and flushes nothing.
				// A successful COMMIT promises that everything acknowledged before it is durable.
				if o.stable && o.ret <= c.p && (dumps[i+1] != dumps[i] || strings.HasPrefix(o.line, "commit ")) {
					kmin = i + 1
				}
				// an operation invoked when the trace had exactly c.p events may or may not have begun
				// before the cut (an operation that issues no disk event cannot be placed): allowed
				if o.start <= c.p {
					kmax = i + 1
				}
			}
			rs := &seqRun{r: NewRng(1), unstable: unstable, objs: map[string]*objInfo{}, dirs: map[string]*dirInfo{}, hist: map[string]int{},
				opTimeout: 30e9, deadH: map[string]bool{}, issued: map[string]bool{}}
			if *mix == "free" {
				rs.probeBlocks = 640 // enough to pick up whatever an interrupted free of a 770-block file released
			}
			trouble := ""
			rs.locks = *locks
			rs.flushLocks = true
			rs.sink = func(l string) {
				if strings.HasPrefix(l, "# PANIC") || strings.HasPrefix(l, "# HANG") {
					trouble = l
				}
				if strings.HasPrefix(l, "# LOCKS ") {
					emit("%s", l)
				}
				if strings.HasPrefix(l, "# ORACLE C10 ") {
					// the coherence oracle on the recovered server (below)
					emit("%s :: on the server recovered at %s", l, curWhere)
				}
			}
			rs.d = NewOverlay(*disksz, img)
			ok := rs.guarded("recover", func() { rs.srv = nfs.MakeNfs(rs.d) })
			if !ok {
				emit("# ORACLE C01 recovery-crashed workload seed %d (%s mix)%s: recovery from the image at crash point %d (%s) panicked or hung", wseed, mixd, stage, c.p, c.desc)
				return -1
			}
			rs.srv.Unstable = unstable
			rootfh := fh.MkRootFh3().Data
			rs.objs[hx(rootfh)] = &objInfo{fh: rootfh, kind: 2}
			rs.dirs[hx(rootfh)] = &dirInfo{names: map[string][]byte{}}
			where := fmt.Sprintf("workload seed %d (%s mix)%s crash point %d (%s)", wseed, mixd, stage, c.p, c.desc)
			curWhere = where
			// what start-up put into the caches must be what the journal says is on the disk
			rs.coherence()
			if imgOut != nil {
				// the recovered logical disk, before anything else touches it: half-freed objects allowed
				emitImage(rs.srv.VerifFsState(), "recovered: "+where, false, true, nil, imgOut)
			}
			got := rs.dumpTree()
			if trouble != "" {
				emit("# ORACLE C01 recovered-server-crashes workload seed %d (%s mix): after recovery at crash point %d (%s) reading the tree back: %s", wseed, mixd, c.p, c.desc, trunc(trouble))
			}
			match := -1
			for k := kmax; k >= kmin; k-- {
				if dumps[k] == got {
					match = k
					break
				}
			}
			if match < 0 {
				// which state is it, if any?
				other := -1
				for k := range dumps {
					if dumps[k] == got {
						other = k
					}
				}
				what := "equals no prefix state (an operation is visible in part)"
				key := "partial-state"
				if other >= 0 && other < kmin {
					what = fmt.Sprintf("equals the state after %d operations: operation %d, acknowledged with stable semantics before the crash, is lost", other, kmin-1)
					key = "acknowledged-operation-lost"
				} else if other > kmax {
					what = fmt.Sprintf("equals the state after %d operations although only %d had started", other, kmax)
					key = "future-state"
				}
				prop := "C01"
				if *mix == "data" {
					prop = "C07"
				}
				emit("# ORACLE %s %s workload seed %d (%s mix)%s: crash after %d of %d disk events (%s): the recovered file system %s; allowed: the state after k operations, %d <= k <= %d; %s", prop, key, wseed, mixd, stage, c.p, len(events), c.desc, what, kmin, kmax, firstDiff(dumps[kmin], got))
			} else {
				// the recovered server keeps serving
				rs.removePending = c.p%2 == 1 // every other image: files with an interrupted truncation are removed, not resumed
				if why := rs.postCrashProbe(); why != "" {
					emit("# ORACLE C01 recovered-server-broken workload seed %d (%s mix): after recovery at crash point %d (%s), state after %d operations: %s", wseed, mixd, c.p, c.desc, match, why)
				}
				if v := rs.writeVerf(); *mix == "data" && bytes.Equal(v, verfA) && len(v) > 0 {
					emit("# ORACLE C07 verifier-unchanged the recovered server reports the write verifier of the crashed instance")
				}
			}
			if imgOut != nil && !rs.dead {
				// C05: a crash in the middle of freeing loses no space: once the number of every
				// half-freed object has been reused, nothing is half-freed any more
				for _, hf := range halfFreed(rs.srv.VerifFsState()) {
					// C09: a creation that FAILS after having been handed the half-freed number (the
					// name is too long for a directory slot) consumes no inode, now or after a restart
					rs.pokeInodeAlloc(hf - 1)
					ifree0 := rs.srv.VerifFsState().Ialloc.NumFree()
					rs.opCreate("create", rs.root(), strings.Repeat("L", 200), 0, nil)
					rs.waitIdle()
					if ifree1 := rs.srv.VerifFsState().Ialloc.NumFree(); !rs.dead && ifree1 != ifree0 {
						emit("# ORACLE C09 failed-create-consumed-an-inode %s: on the recovered server inode %d is free but still being truncated; a CREATE with a 200-byte name is handed that number first and fails, and the allocator counts %d free inodes afterwards, %d before", where, hf, ifree1, ifree0)
					}
					rs.pokeInodeAlloc(hf - 1)
					rs.mk("create", rs.root(), fmt.Sprintf("reuse-%d", hf))
				}
				rs.waitIdle()
				rs.srv.VerifFsState().Txn.Flush()
				if !rs.dead {
					emitImage(rs.srv.VerifFsState(), "recovered, probed, half-freed numbers reused: "+where, true, true, nil, imgOut)
				}
			}
			if !rs.dead {
				rs.srv.ShutdownNfs()
			}
			return match
		}
		for _, c := range cps {
			m := checkOne(nil, events, ops, dumps, c, "")
			checked++
			if m >= 0 {
				distinctStates[m] = true
			}
		}
		// repeated crashes: restart on a crash image, serve more operations on a recording disk, crash again
		second2, checked2 := 0, 0
		for i := 0; i < *second && len(cps) > 0; i++ {
			c1 := cps[(2*i+1)*len(cps)/(2**second)]
			base := buildImage(events, c1.p, c1.keep, c1.dropAll)
			rec2 := &RecDisk{inner: NewOverlay(*disksz, base)}
			mix2 := *mix
			if mix2 == "free" {
				mix2 = "meta"
			}
			ops2, dumps2, sb2 := crashWorkload(wseed+uint64(c1.p)*7919, mix2, *nops/2+4, *disksz, unstable, rec2, false)
			if sb2.dead {
				emit("# ORACLE C01 recovered-server-crashes workload seed %d (%s mix): the server restarted on the image of crash point %d (%s) crashed while serving further operations", wseed, mixd, c1.p, c1.desc)
				continue
			}
			sb2.waitIdle()
			sb2.srv.VerifFsState().Txn.Flush()
			end2 := rec2.pos()
			sb2.close()
			rec2.mu.Lock()
			events2 := rec2.events[:end2]
			rec2.mu.Unlock()
			cps2, _ := crashPoints(events2, 0, 0, 1<<30, *maxImages/(2**second)+8, root)
			second2++
			for _, c2 := range cps2 {
				checkOne(base, events2, ops2, dumps2, c2, fmt.Sprintf(", restarted on the image of crash point %d (%s) and served %d more operations", c1.p, c1.desc, len(ops2)))
				checked2++
			}
		}
		emit("crashsum workload=%d events=%d crashpoints=%d checked=%d distinct-recovered-states=%d second-crash-runs=%d second-crash-images=%d", w, len(events), total, checked+checked2, len(distinctStates), second2, checked2)
	}
}

// postCrashProbe: the recovered server accepts and serves new operations.
func (s *seqRun) postCrashProbe() string {
	if s.dead {
		return "the server had already crashed"
	}
	last := ""
	prev := s.sink
	s.sink = func(l string) {
		last = l
		if prev != nil && strings.HasPrefix(l, "# LOCKS ") {
			prev(l)
		}
	}
	// C12: a file that was never written shows zeros on the recovered server too — a hole-filling READ takes blocks from the
	// allocator, and an allocator that recovery built wrongly hands it blocks that belong to files committed before the crash
	if sp := s.mk("create", s.root(), "postcrash-sparse"); sp != nil {
		// (as many blocks as the probe below writes: enough to reach blocks that recovery wrongly considers free)
		nsp := 48
		if s.probeBlocks > 0 {
			nsp = s.probeBlocks
		}
		six := uint64(nsp * 4096)
		s.opSetattr(sp, &six, timeHow{}, timeHow{})
		var srd nfstypes.READ3res
		if s.lastStatus == nfstypes.NFS3_OK && s.guarded("probe sparse", func() {
			srd = s.readChunks(sp, nsp*4096)
		}) && srd.Status == nfstypes.NFS3_OK {
			for i, c := range srd.Resok.Data {
				if c != 0 {
					emit("# ORACLE C12 recovered-file-shows-foreign-bytes on the server recovered from this crash image a new file was created, given a size of 48 blocks by SETATTR and read: byte %d (block %d) of this never-written file is %#x, not zero", i, i/4096, c)
					break
				}
			}
		}
		s.opRemove("remove", s.root(), "postcrash-sparse")
	}
	// ... directed: a block that the rebuilt allocator holds free although the bitmap of the logical disk (read through the
	// journal) marks it in use is handed to the next hole-filling READ when the allocator's roving pointer stands before it
	// (any pointer value is a legal allocator state): the never-written file must still read as zeros
	{
		st := s.srv.VerifFsState()
		mem := peekBitmap(st.Balloc)
		lo, hi := uint64(st.Super.DataStart()), uint64(st.Super.MaxBnum())
		disk := diskBits(st, uint64(st.Super.BitmapBlockStart()), lo, hi)
		tried := 0
		for b := lo; b < hi && tried < 3; b++ {
			if mem[b/8]&(1<<(b%8)) == 0 && disk[b-lo] == '1' {
				tried++
				nextp := reflect.ValueOf(st.Balloc).Elem().FieldByName("next")
				*(*uint64)(unsafe.Pointer(nextp.UnsafeAddr())) = b - 1
				name := fmt.Sprintf("postcrash-hole-%d", b)
				if sp := s.mk("create", s.root(), name); sp != nil {
					one := uint64(4096)
					s.opSetattr(sp, &one, timeHow{}, timeHow{})
					var srd nfstypes.READ3res
					if s.lastStatus == nfstypes.NFS3_OK && s.guarded("probe hole", func() {
						srd = s.srv.NFSPROC3_READ(nfstypes.READ3args{File: mkfh3(sp), Offset: 0, Count: 4096})
					}) && srd.Status == nfstypes.NFS3_OK {
						for i, c := range srd.Resok.Data {
							if c != 0 {
								emit("# ORACLE C12 recovered-file-shows-foreign-bytes on the server recovered from this crash image block %d is marked in use on the logical disk (an allocation committed before the crash) but free in the allocator the server rebuilt; with the allocator's pointer before it, a new file was given a size of one block by SETATTR and read: byte %d of this never-written file is %#x, not zero", b, i, c)
								break
							}
						}
					}
					s.opRemove("remove", s.root(), name)
				}
			}
		}
	}
	okc := s.hist["create:ok"]
	f := s.mk("create", s.root(), "postcrash-file")
	if f == nil || s.hist["create:ok"] != okc+1 {
		return fmt.Sprintf("CREATE of a new name in the root fails: %s", trunc(last))
	}
	// a file large enough to pick up blocks that recovery may wrongly consider free
	nprobe := 48
	if s.probeBlocks > 0 {
		nprobe = s.probeBlocks
	}
	data := make([]byte, nprobe*4096)
	for i := range data {
		data[i] = byte(0x5c + i/4096)
	}
	var wr nfstypes.WRITE3res
	var rd nfstypes.READ3res
	if !s.guarded("probe", func() {
		// (in pieces the journal can hold)
		for off := 0; off < len(data); off += 128 * 4096 {
			end := off + 128*4096
			if end > len(data) {
				end = len(data)
			}
			w := s.srv.NFSPROC3_WRITE(nfstypes.WRITE3args{File: mkfh3(f), Offset: nfstypes.Offset3(off), Count: nfstypes.Count3(end - off), Stable: nfstypes.FILE_SYNC, Data: data[off:end]})
			if off == 0 || w.Status != nfstypes.NFS3_OK {
				wr = w
			}
			if w.Status != nfstypes.NFS3_OK || int(w.Resok.Count) != end-off {
				data = data[:off+int(w.Resok.Count)]
				break
			}
		}
		wr.Resok.Count = nfstypes.Count3(len(data))
		rd = s.readChunks(f, len(data))
	}) {
		return "WRITE/READ of a new file panics or hangs"
	}
	if wr.Status == nfstypes.NFS3ERR_NOSPC {
		return "" // a full disk is a legitimate answer
	}
	if wr.Status != nfstypes.NFS3_OK || rd.Status != nfstypes.NFS3_OK || !bytes.Equal(rd.Resok.Data, data[:wr.Resok.Count]) {
		return fmt.Sprintf("WRITE then READ of a new file: write status %d, read status %d, data equal %v", wr.Status, rd.Status, bytes.Equal(rd.Resok.Data, data))
	}
	written := data[:wr.Resok.Count]
	// whatever the crash left half-done is resumed now: the numbers of half-freed objects are
	// reused, and every file is touched (a size change to its own size finishes a pending shrink)
	if s.removePending {
		// C05: a file whose truncation the crash interrupted (live, ShrinkSize above its size, nobody
		// working on it) is REMOVED instead: once the REMOVE has returned and the shrinker is idle,
		// the freed inode holds no block any more
		for _, pin := range pendingShrinks(s.srv.VerifFsState()) {
			for _, fhh := range s.dumpFiles {
				loc, ok := s.dumpWhere[hx(fhh)]
				if inumOf(fhh) != pin || !ok {
					continue
				}
				before := inodeOnDisk(s.srv.VerifFsState(), pin)
				okr := s.hist["remove:ok"]
				s.opRemove("remove", loc.dir, loc.name)
				s.waitIdle()
				if s.dead || s.hist["remove:ok"] != okr+1 || s.srv.VerifShrinker().VerifNthread() != 0 {
					continue // (a shrinker still at work after the wait: not a point at which to judge)
				}
				for _, hf := range halfFreed(s.srv.VerifFsState()) {
					if hf == pin {
						emit("# ORACLE C05 space-not-reclaimed on a server recovered from a crash image the file %q (inode %s), whose truncation the crash interrupted, was removed (NFS3_OK) and the background shrinker is idle, but the freed inode still holds blocks (%s): they stay allocated until the inode number is handed out again", loc.name, before, inodeOnDisk(s.srv.VerifFsState(), pin))
					}
				}
			}
		}
	}
	for _, hf := range halfFreed(s.srv.VerifFsState()) {
		s.pokeInodeAlloc(hf - 1)
		s.mk("create", s.root(), fmt.Sprintf("reuse-%d", hf))
	}
	for _, fhh := range s.dumpFiles {
		o := &objInfo{fh: fhh}
		var ga nfstypes.GETATTR3res
		if !s.guarded("probe getattr", func() { ga = s.srv.NFSPROC3_GETATTR(nfstypes.GETATTR3args{Object: mkfh3(o.fh)}) }) {
			return "GETATTR of a recovered file panics or hangs"
		}
		if ga.Status != nfstypes.NFS3_OK {
			continue
		}
		sz := uint64(ga.Resok.Obj_attributes.Size)
		s.opSetattr(o.fh, &sz, timeHow{}, timeHow{})
		if s.dead {
			return "SETATTR of a recovered file to its own size panics or hangs: " + trunc(last)
		}
	}
	s.waitIdle()
	if !s.guarded("probe reread", func() {
		rd = s.readChunks(f, len(written))
	}) {
		return "READ of the new file panics or hangs"
	}
	if rd.Status != nfstypes.NFS3_OK || !bytes.Equal(rd.Resok.Data, written) {
		bad := 0
		for i := range written {
			if i >= len(rd.Resok.Data) || rd.Resok.Data[i] != written[i] {
				bad = i
				break
			}
		}
		return fmt.Sprintf("data written with FILE_SYNC after recovery is destroyed when the interrupted work is resumed: READ status %d, first differing byte at offset %d (block %d)", rd.Status, bad, bad/4096)
	}
	d := s.mk("mkdir", s.root(), "postcrash-dir")
	if d == nil {
		return fmt.Sprintf("MKDIR of a new name in the root fails: %s", trunc(last))
	}
	okr := s.hist["remove:ok"]
	s.opRemove("remove", s.root(), "postcrash-file")
	if s.hist["remove:ok"] != okr+1 {
		return "REMOVE of the file just created fails"
	}
	return ""
}

// readChunks reads [0,n) of a file in pieces below the transfer limit.
func (s *seqRun) readChunks(f []byte, n int) nfstypes.READ3res {
	var all nfstypes.READ3res
	for off := 0; off < n; off += 128 * 4096 {
		cnt := 128 * 4096
		if off+cnt > n {
			cnt = n - off
		}
		r := s.srv.NFSPROC3_READ(nfstypes.READ3args{File: mkfh3(f), Offset: nfstypes.Offset3(off), Count: nfstypes.Count3(cnt)})
		all.Status = r.Status
		if r.Status != nfstypes.NFS3_OK {
			return all
		}
		all.Resok.Data = append(all.Resok.Data, r.Resok.Data...)
	}
	return all
}

// writeVerf returns the write verifier the server instance reports.
func (s *seqRun) writeVerf() []byte {
	var v []byte
	s.guarded("verf", func() {
		// COMMIT on a fresh file reports the verifier
		f := s.mk("create", s.root(), "verf-probe")
		if f == nil {
			return
		}
		rep := s.srv.NFSPROC3_COMMIT(nfstypes.COMMIT3args{File: mkfh3(f)})
		v = append([]byte{}, rep.Resok.Verf[:]...)
		s.opRemove("remove", s.root(), "verf-probe")
	})
	return v
}

var _ = sort.Strings

// emitWalTrace prints the recorded disk trace in the vocabulary of the WAL
// model: slot writes, header writes (decoded), home writes, barriers.
func emitWalTrace(events []recEvent, disksz uint64) {
	emit("wt begin %d", disksz)
	for _, e := range events {
		if !e.write {
			emit("wt b")
			continue
		}
		dig := fmt.Sprintf("%x", sha1.Sum(e.blk))[:16]
		switch {
		case e.a == 0:
			end := binary.LittleEndian.Uint64(e.blk[0:8])
			as := make([]string, 511)
			for i := 0; i < 511; i++ {
				as[i] = fmt.Sprintf("%d", binary.LittleEndian.Uint64(e.blk[8+8*i:16+8*i]))
			}
			emit("wt h1 %d %s", end, strings.Join(as, ","))
		case e.a == 1:
			emit("wt h2 %d", binary.LittleEndian.Uint64(e.blk[0:8]))
		case e.a < 513:
			emit("wt s %d %s", e.a-2, dig)
		default:
			emit("wt m %d %s", e.a, dig)
		}
	}
	emit("wt end")
}

package main

import (
	"encoding/binary"
	"flag"
	"fmt"
	"strings"

	"github.com/mit-pdos/go-journal/common"
	"github.com/mit-pdos/go-nfsd/kvs"
)

// cmdKvs runs sequences of MultiPut / Get on the real key/value store.
// A value is the block filled with byte b whose first 8 bytes hold the counter n.

func kvBlock(b byte, n uint64) []byte {
	blk := make([]byte, 4096)
	for i := range blk {
		blk[i] = b
	}
	binary.LittleEndian.PutUint64(blk, n)
	return blk
}

func kvDecode(blk []byte) string {
	if len(blk) != 4096 {
		return "corrupt-length"
	}
	n := binary.LittleEndian.Uint64(blk)
	b := blk[8]
	for _, x := range blk[8:] {
		if x != b {
			return "corrupt"
		}
	}
	return fmt.Sprintf("%d.%d", b, n)
}

func cmdKvs(fs *flag.FlagSet, args []string) {
	seed := fs.Uint64("seed", 1, "seed")
	nseq := fs.Int("seqs", 10, "sequences")
	nops := fs.Int("ops", 200, "operations per sequence")
	fs.Parse(args)
	root := NewRng(*seed)
	for q := 0; q < *nseq; q++ {
		r := root.Fork()
		sz := uint64(2000)
		d := NewSparseDisk(sz)
		store := kvs.MkKVS(d, sz)
		emit("kinit %d", sz)
		ctr := uint64(0)
		pickKey := func() uint64 {
			switch k := r.Intn(20); {
			case k < 12:
				return common.LOGSIZE + uint64(r.Intn(12))
			case k < 14:
				return sz - 1 - uint64(r.Intn(3))
			case k < 15:
				return []uint64{common.LOGSIZE - 1, common.LOGSIZE, sz, sz + 1, 0, 1 << 40}[r.Intn(6)]
			default:
				return common.LOGSIZE + uint64(r.Intn(int(sz-common.LOGSIZE)))
			}
		}
		for i := 0; i < *nops; i++ {
			if r.Chance(1, 2) {
				k := pickKey()
				res := "panic"
				func() {
					defer func() { recover() }()
					p, ok := store.Get(k)
					if ok {
						res = kvDecode(p.Val)
					} else {
						res = "refused"
					}
				}()
				emit("kget %d => %s", k, res)
				continue
			}
			n := 1 + r.Intn(8)
			if r.Chance(1, 10) {
				n = 1 + r.Intn(64)
			}
			var pairs []kvs.KVPair
			var toks []string
			if r.Chance(1, 40) { // more distinct blocks than the journal holds, or exactly as many
				n = []int{511, 512, 600}[r.Intn(3)]
				for j := 0; j < n; j++ {
					ctr++
					k := common.LOGSIZE + uint64(j)
					b := byte(1 + r.Intn(200))
					pairs = append(pairs, kvs.KVPair{Key: k, Val: kvBlock(b, ctr)})
					toks = append(toks, fmt.Sprintf("%d:%d.%d", k, b, ctr))
				}
			} else {
				for j := 0; j < n; j++ {
					ctr++
					k := pickKey()
					b := byte(1 + r.Intn(200))
					pairs = append(pairs, kvs.KVPair{Key: k, Val: kvBlock(b, ctr)})
					toks = append(toks, fmt.Sprintf("%d:%d.%d", k, b, ctr))
				}
			}
			res := "panic"
			func() {
				defer func() { recover() }()
				if store.MultiPut(pairs) {
					res = "ok"
				} else {
					res = "refused"
				}
			}()
			emit("kput %s => %s", strings.Join(toks, ","), res)
		}
		store.Delete()
	}
}

package main

import (
	"encoding/binary"
	"flag"
	"fmt"
	"strings"
	"sync"

	"github.com/mit-pdos/go-journal/common"
	"github.com/mit-pdos/go-nfsd/kvs"
)

// cmdKvs runs sequences of MultiPut / Get on the real key/value store.
// A value is the block filled with byte b whose first 8 bytes hold the counter n.

func kvBlock(b byte, n uint64) []byte {
	blk := make([]byte, 4096)
	for i := range blk {
		blk[i] = b
	}
	binary.LittleEndian.PutUint64(blk, n)
	return blk
}

func kvDecode(blk []byte) string {
	if len(blk) != 4096 {
		return "corrupt-length"
	}
	n := binary.LittleEndian.Uint64(blk)
	b := blk[8]
	for _, x := range blk[8:] {
		if x != b {
			return "corrupt"
		}
	}
	return fmt.Sprintf("%d.%d", b, n)
}

func cmdKvs(fs *flag.FlagSet, args []string) {
	seed := fs.Uint64("seed", 1, "seed")
	nseq := fs.Int("seqs", 10, "sequences")
	nops := fs.Int("ops", 200, "operations per sequence")
	fs.Parse(args)
	root := NewRng(*seed)
	for q := 0; q < *nseq; q++ {
		r := root.Fork()
		sz := uint64(2000)
		d := NewSparseDisk(sz)
		store := kvs.MkKVS(d, sz)
		emit("kinit %d", sz)
		ctr := uint64(0)
		pickKey := func() uint64 {
			switch k := r.Intn(20); {
			case k < 12:
				return common.LOGSIZE + uint64(r.Intn(12))
			case k < 14:
				return sz - 1 - uint64(r.Intn(3))
			case k < 15:
				return []uint64{common.LOGSIZE - 1, common.LOGSIZE, sz, sz + 1, 0, 1 << 40}[r.Intn(6)]
			default:
				return common.LOGSIZE + uint64(r.Intn(int(sz-common.LOGSIZE)))
			}
		}
		for i := 0; i < *nops; i++ {
			if r.Chance(1, 50) {
				// the store is opened again on the same disk (clean restart): nothing changes
				store.Delete()
				store = kvs.MkKVS(d, sz)
				emit("krestart")
			}
			if r.Chance(1, 2) {
				k := pickKey()
				res := "panic"
				func() {
					defer func() { recover() }()
					p, ok := store.Get(k)
					if ok {
						res = kvDecode(p.Val)
					} else {
						res = "refused"
					}
				}()
				emit("kget %d => %s", k, res)
				continue
			}
			n := 1 + r.Intn(8)
			if r.Chance(1, 10) {
				n = 1 + r.Intn(64)
			}
			var pairs []kvs.KVPair
			var toks []string
			if r.Chance(1, 40) { // more distinct blocks than the journal holds, or exactly as many
				n = []int{511, 512, 600}[r.Intn(3)]
				for j := 0; j < n; j++ {
					ctr++
					k := common.LOGSIZE + uint64(j)
					b := byte(1 + r.Intn(200))
					pairs = append(pairs, kvs.KVPair{Key: k, Val: kvBlock(b, ctr)})
					toks = append(toks, fmt.Sprintf("%d:%d.%d", k, b, ctr))
				}
			} else {
				for j := 0; j < n; j++ {
					ctr++
					k := pickKey()
					b := byte(1 + r.Intn(200))
					pairs = append(pairs, kvs.KVPair{Key: k, Val: kvBlock(b, ctr)})
					toks = append(toks, fmt.Sprintf("%d:%d.%d", k, b, ctr))
				}
			}
			res := "panic"
			func() {
				defer func() { recover() }()
				if store.MultiPut(pairs) {
					res = "ok"
				} else {
					res = "refused"
				}
			}()
			emit("kput %s => %s", strings.Join(toks, ","), res)
			// the order in which this put takes its keys' locks
			var ks, os []string
			for _, p := range pairs {
				ks = append(ks, fmt.Sprintf("%d", p.Key))
			}
			for _, k := range kvs.VerifLockOrder(pairs) {
				os = append(os, fmt.Sprintf("%d", k))
			}
			if len(ks) == 0 {
				ks = []string{"-"}
			}
			if len(os) == 0 {
				os = []string{"-"}
			}
			emit("klockorder %s => %s", strings.Join(ks, ","), strings.Join(os, ","))
		}
		store.Delete()
	}
}

// cmdKvsConc: concurrent overlapping multi-puts (C18, linearizability).  Each round starts from a
// state established sequentially, runs a few MultiPuts at the same time — over the same few keys,
// with values from a three-letter alphabet so that a put often rewrites the value a key already
// holds — and then reads every key.  The Lean driver demands that SOME order of the puts, applied
// by the model to the start state, yields exactly the state read.
func cmdKvsConc(fs *flag.FlagSet, args []string) {
	seed := fs.Uint64("seed", 1, "seed")
	rounds := fs.Int("rounds", 400, "rounds")
	fs.Parse(args)
	r := NewRng(*seed)
	sz := uint64(2000)
	d := NewSparseDisk(sz)
	store := kvs.MkKVS(d, sz)
	emit("kinit %d", sz)
	keys := []uint64{common.LOGSIZE, common.LOGSIZE + 1, common.LOGSIZE + 2}
	val := func(b byte) []byte { return kvBlock(b, 0) }
	for rd := 0; rd < *rounds; rd++ {
		var s0 []kvs.KVPair
		var s0t []string
		for _, k := range keys {
			b := byte(65 + r.Intn(3))
			s0 = append(s0, kvs.KVPair{Key: k, Val: val(b)})
			s0t = append(s0t, fmt.Sprintf("%d:%d.0", k, b))
		}
		if !store.MultiPut(s0) {
			die("kvsconc: setup put refused")
		}
		n := 2 + r.Intn(3)
		puts := make([][]kvs.KVPair, n)
		var pt []string
		for i := 0; i < n; i++ {
			m := 2 + r.Intn(2)
			var toks []string
			perm := []int{0, 1, 2}
			for j := 2; j > 0; j-- {
				x := r.Intn(j + 1)
				perm[j], perm[x] = perm[x], perm[j]
			}
			for j := 0; j < m; j++ {
				k := keys[perm[j]]
				b := byte(65 + r.Intn(3))
				puts[i] = append(puts[i], kvs.KVPair{Key: k, Val: val(b)})
				toks = append(toks, fmt.Sprintf("%d:%d.0", k, b))
			}
			pt = append(pt, strings.Join(toks, ","))
		}
		var wg sync.WaitGroup
		start := make(chan bool)
		oks := make([]bool, n)
		for i := 0; i < n; i++ {
			wg.Add(1)
			go func(i int) {
				defer wg.Done()
				defer func() { recover() }()
				<-start
				oks[i] = store.MultiPut(puts[i])
			}(i)
		}
		close(start)
		wg.Wait()
		var fin []string
		for _, k := range keys {
			p, _ := store.Get(k)
			fin = append(fin, fmt.Sprintf("%d:%s", k, kvDecode(p.Val)))
		}
		allOk := true
		for _, o := range oks {
			allOk = allOk && o
		}
		if !allOk {
			emit("# ORACLE C18 concurrent-put-refused a %d-pair MultiPut was refused or panicked in a concurrent round", 3)
			continue
		}
		emit("kround %s | %s => %s", strings.Join(s0t, ","), strings.Join(pt, " | "), strings.Join(fin, ","))
	}
	store.Delete()
}

package main

import (
	"bufio"
	"encoding/binary"
	"encoding/hex"
	"flag"
	"fmt"
	"os"
	"runtime"
	"sort"
	"strings"
	"sync/atomic"
	"time"

	"github.com/mit-pdos/go-nfsd/fh"
	"github.com/mit-pdos/go-nfsd/fstxn"
	"github.com/mit-pdos/go-nfsd/inode"
	"github.com/mit-pdos/go-nfsd/nfs"
	"github.com/mit-pdos/go-nfsd/nfstypes"
)

// Sequential correspondence: one client issues NFS operations by calling the
// exported NFSPROC3_* methods of the real server; every operation, the
// server's free choices (allocated inode number = part of the returned
// handle, directory slot = found by listing the directory) and the complete
// reply are written as one line for the Lean driver `fs`.

type objInfo struct {
	fh   []byte
	kind uint32
	size uint64
}

type dirInfo struct {
	names map[string][]byte // name -> child handle
}

type dumpLoc struct {
	dir  []byte
	name string
}

type seqRun struct {
	r             *Rng
	d             *SparseDisk
	srv           *nfs.Nfs
	unstable      bool
	objs          map[string]*objInfo // by handle hex: believed live
	dirs          map[string]*dirInfo
	stale         [][]byte
	nameCtr       int
	dead          bool // server panicked or hung
	hist          map[string]int
	opTimeout     time.Duration
	cur           [][]byte        // handle-typed arguments of the operation being issued
	chaseHot      bool            // concurrent runs: prefer the handle another client's finishing operation used
	deadH         map[string]bool // handles of objects known to be removed or overwritten
	issued        map[string]bool // every handle a creation ever returned
	c09           bool            // compare full dumps around failing operations
	lastDump      string
	lastFree      [2]uint64
	nOracle       int
	sink          func(string) // where this run's lines go (default: stdout)
	slotHook      func() int   // concurrent mode: the slot captured under the locks
	pool          []string     // concurrent mode: shared pool of names
	inline        bool         // concurrent mode: run calls in the calling goroutine
	curDesc       string
	locks         bool         // sequential mode: print the lock trace of every operation
	imgOut        func(string) // where disk images for the structure checker go (nil: none)
	fsckEvery     int          // image after every N counted operations
	fsckDue       bool
	opCount       int
	imgCount      int
	movedDirs     []uint64 // directories moved to another parent by RENAME (known finding: stale "..")
	c10on         bool     // -c10: scenarios may ask for the coherence oracle at a point of their own
	recovered     bool     // this server was started on a crash image: half-freed objects may exist
	crossRenames  int      // successful renames between two different directories
	lastStatus    nfstypes.Nfsstat3
	dumpFiles     [][]byte           // handles of the regular files the last dumpTree saw
	dumpWhere     map[string]dumpLoc // ... and where each of them is named
	removePending bool               // postCrashProbe: REMOVE the files whose truncation the crash interrupted instead of resuming it
	probeBlocks   int                // size of the file the post-crash probe writes
	flushLocks    bool               // drop the events recorded so far when a request starts (uncounted helper requests ran before it)
}

// fsckPoint dumps the logical disk for the structure checker: background freeing finished,
// everything flushed, no request in flight.
func (s *seqRun) fsckPoint(label string) {
	if s.imgOut == nil || s.dead {
		return
	}
	s.fsckDue = false
	s.waitIdle()
	st := s.srv.VerifFsState()
	st.Txn.Flush()
	s.imgCount++
	emitImage(st, fmt.Sprintf("%s #%d after %d operations", label, s.imgCount, s.opCount), !s.recovered, true, s.movedDirs, s.imgOut)
}

func (s *seqRun) emitf(format string, a ...interface{}) {
	if s.sink != nil {
		s.sink(fmt.Sprintf(format, a...))
		return
	}
	emit(format, a...)
	// (a panic in a background goroutine of the server ends the process: what was issued so far must be on the output)
	out.Flush()
}

func hx(b []byte) string {
	if len(b) == 0 {
		return "-"
	}
	return hex.EncodeToString(b)
}

// hxd: data payloads (WRITE data, READ replies); a long run of one byte value is written as
// r<byte>:<count> (the Lean drivers expand it and print their own data the same way)
func hxd(b []byte) string {
	if len(b) >= 64 {
		same := true
		for _, x := range b {
			if x != b[0] {
				same = false
				break
			}
		}
		if same {
			return fmt.Sprintf("r%02x:%d", b[0], len(b))
		}
	}
	return hx(b)
}

func newSeqRun(r *Rng, disksz uint64, unstable bool) *seqRun {
	s := &seqRun{r: r, d: NewSparseDisk(disksz), unstable: unstable, objs: map[string]*objInfo{},
		dirs: map[string]*dirInfo{}, hist: map[string]int{}, opTimeout: 20 * time.Second,
		deadH: map[string]bool{}, issued: map[string]bool{}}
	s.srv = nfs.MakeNfs(s.d)
	s.srv.Unstable = unstable
	root := fh.MkRootFh3().Data
	s.objs[hx(root)] = &objInfo{fh: root, kind: 2}
	s.dirs[hx(root)] = &dirInfo{names: map[string][]byte{}}
	u := 0
	if unstable {
		u = 1
	}
	emit("config %d %d", u, disksz)
	return s
}

func (s *seqRun) close() {
	if !s.dead {
		s.srv.ShutdownNfs()
	}
}

// guarded runs f with panic recovery and a watchdog.
func (s *seqRun) guarded(desc string, f func()) bool {
	if s.dead {
		return false
	}
	s.curDesc = desc
	if s.fsckDue && !s.inline {
		s.fsckPoint("periodic")
	}
	if s.flushLocks && s.locks && !s.inline {
		takeSeqEvents()
	}
	if s.inline {
		s.curDesc = desc
		// concurrent mode: the call must run in the client's own goroutine (the hooks identify
		// the client by goroutine); hangs are caught by the history's watchdog
		ok := true
		func() {
			defer func() {
				if r := recover(); r != nil {
					s.emitf("# PANIC %v :: %s", r, desc)
					s.dead = true
					ok = false
				}
			}()
			f()
		}()
		return ok
	}
	done := make(chan string, 1)
	var m0, m1 runtime.MemStats
	runtime.ReadMemStats(&m0)
	go func() {
		defer func() {
			if r := recover(); r != nil {
				done <- fmt.Sprintf("PANIC %v", r)
			}
		}()
		atomic.StoreUint64(&seqMainGid, curGid()) // the request's own transactions run here
		f()
		done <- ""
	}()
	select {
	case msg := <-done:
		if msg != "" {
			s.emitf("# %s :: %s", msg, desc)
			s.dead = true
			return false
		}
		// what one request may allocate is bounded by what it may transfer, whatever count,
		// offset or size it names (the background shrinker's allocations fall into the same
		// window; they are small)
		runtime.ReadMemStats(&m1)
		if d := m1.TotalAlloc - m0.TotalAlloc; d > memPerRequest {
			s.oracle("C11", "memory-per-request", fmt.Sprintf("a request allocated %d bytes (bound %d): %s", d, uint64(memPerRequest), trunc(desc)))
		}
		return true
	case <-time.After(s.opTimeout):
		if os.Getenv("VERIF_STACKS") != "" {
			buf := make([]byte, 1<<20)
			os.Stderr.Write(buf[:runtime.Stack(buf, true)])
		}
		s.emitf("# HANG :: %s", desc)
		s.dead = true
		return false
	}
}

func mkfh3(b []byte) nfstypes.Nfs_fh3 { return nfstypes.Nfs_fh3{Data: b} }

func attrToks(a nfstypes.Fattr3) string {
	return fmt.Sprintf("%d %d %d %d.%d %d.%d", a.Ftype, a.Size, a.Fileid, a.Atime.Seconds, a.Atime.Nseconds,
		a.Mtime.Seconds, a.Mtime.Nseconds)
}

func attrShort(a nfstypes.Fattr3) string {
	return fmt.Sprintf("%d %d %d", a.Ftype, a.Size, a.Fileid)
}

// findSlot lists directory dfh with the real READDIR and returns the slot
// index of name (the cookie of an entry is the offset of the following slot).
func (s *seqRun) findSlot(dfh []byte, name string) int {
	if s.slotHook != nil {
		return s.slotHook()
	}
	slot := -1
	s.guarded("findSlot", func() {
		rep := s.srv.NFSPROC3_READDIR(nfstypes.READDIR3args{Dir: mkfh3(dfh), Cookie: 0, Count: 0xffffffff})
		if rep.Status != nfstypes.NFS3_OK {
			return
		}
		for e := rep.Resok.Reply.Entries; e != nil; e = e.Nextentry {
			if string(e.Name) == name {
				slot = int(uint64(e.Cookie)/128) - 1
			}
		}
	})
	return slot
}

// ---- the operations; each returns after emitting one line ----

func (s *seqRun) count(op string, st nfstypes.Nfsstat3) {
	cls := "err"
	switch st {
	case nfstypes.NFS3_OK:
		cls = "ok"
	case nfstypes.NFS3ERR_STALE:
		cls = "stale"
	case nfstypes.NFS3ERR_NOTSUPP:
		cls = "notsupp"
	}
	s.hist[op+":"+cls]++
	s.lastStatus = st
	if s.c10on && !s.inline {
		s.coherenceInodes(s.curDesc)
	}
	if st == nfstypes.NFS3ERR_NOSPC {
		s.hist[op+":nospc"]++
	}
	s.opCount++
	if s.fsckEvery > 0 && s.opCount%s.fsckEvery == 0 {
		s.fsckDue = true
	}
	if st == nfstypes.NFS3_OK {
		for _, h := range s.cur {
			if s.deadH[hx(h)] {
				s.oracle("C08", "dead-handle-accepted:"+op, fmt.Sprintf("%s with the handle %s of a removed object returned NFS3_OK", op, hx(h)))
			}
		}
	}
	s.cur = nil
	if !s.inline && s.locks {
		if evs := takeSeqEvents(); len(evs) > 0 {
			s.emitf("# LOCKS %s :: %s", op, lockTrace(evs))
		}
	}
	s.afterOp(op, st != nfstypes.NFS3_OK)
	if !s.inline && s.locks {
		takeSeqEvents() // the oracle's own requests are not part of the trace
	}
}

func (s *seqRun) oracle(prop, key, msg string) {
	s.nOracle++
	s.emitf("# ORACLE %s %s %s", prop, key, msg)
}

func (s *seqRun) opGetattr(h []byte) {
	s.cur = [][]byte{h}
	desc := fmt.Sprintf("getattr %s", hx(h))
	var rep nfstypes.GETATTR3res
	if !s.guarded(desc, func() { rep = s.srv.NFSPROC3_GETATTR(nfstypes.GETATTR3args{Object: mkfh3(h)}) }) {
		return
	}
	s.count("getattr", rep.Status)
	if rep.Status == nfstypes.NFS3_OK {
		s.emitf("%s => 0 %s", desc, attrToks(rep.Resok.Obj_attributes))
		if o, ok := s.objs[hx(h)]; ok {
			o.size = uint64(rep.Resok.Obj_attributes.Size)
		}
	} else {
		s.emitf("%s => %d", desc, rep.Status)
	}
}

type timeHow struct {
	how       nfstypes.Time_how
	sec, nsec uint32
}

func (t timeHow) String() string {
	switch t.how {
	case nfstypes.DONT_CHANGE:
		return "d"
	case nfstypes.SET_TO_SERVER_TIME:
		return "s"
	}
	return fmt.Sprintf("c:%d:%d", t.sec, t.nsec)
}

func (s *seqRun) opSetattr(h []byte, size *uint64, at, mt timeHow) {
	s.cur = [][]byte{h}
	szs := "-"
	var args nfstypes.SETATTR3args
	args.Object = mkfh3(h)
	if size != nil {
		szs = fmt.Sprintf("%d", *size)
		args.New_attributes.Size = nfstypes.Set_size3{Set_it: true, Size: nfstypes.Size3(*size)}
	}
	args.New_attributes.Atime = nfstypes.Set_atime{Set_it: at.how, Atime: nfstypes.Nfstime3{Seconds: nfstypes.Uint32(at.sec), Nseconds: nfstypes.Uint32(at.nsec)}}
	args.New_attributes.Mtime = nfstypes.Set_mtime{Set_it: mt.how, Mtime: nfstypes.Nfstime3{Seconds: nfstypes.Uint32(mt.sec), Nseconds: nfstypes.Uint32(mt.nsec)}}
	desc := fmt.Sprintf("setattr %s %s %s %s", hx(h), szs, at, mt)
	var rep nfstypes.SETATTR3res
	if !s.guarded(desc, func() { rep = s.srv.NFSPROC3_SETATTR(args) }) {
		return
	}
	s.count("setattr", rep.Status)
	if rep.Status == nfstypes.NFS3_OK {
		s.emitf("%s => 0 %s", desc, attrToks(rep.Resok.Obj_wcc.After.Attributes))
		if o, ok := s.objs[hx(h)]; ok {
			o.size = uint64(rep.Resok.Obj_wcc.After.Attributes.Size)
		}
	} else {
		s.emitf("%s => %d", desc, rep.Status)
	}
}

func (s *seqRun) learn(dfh []byte, name string, ch []byte, kind uint32, size uint64) {
	if _, ok := s.objs[hx(ch)]; !ok {
		s.objs[hx(ch)] = &objInfo{fh: ch, kind: kind, size: size}
	}
	if kind == 2 {
		if _, ok := s.dirs[hx(ch)]; !ok {
			s.dirs[hx(ch)] = &dirInfo{names: map[string][]byte{}}
		}
	}
	if d, ok := s.dirs[hx(dfh)]; ok && name != "." && name != ".." {
		d.names[name] = ch
	}
}

func (s *seqRun) opLookup(dfh []byte, name string) {
	s.cur = [][]byte{dfh}
	desc := fmt.Sprintf("lookup %s %s", hx(dfh), hx([]byte(name)))
	var rep nfstypes.LOOKUP3res
	if !s.guarded(desc, func() {
		rep = s.srv.NFSPROC3_LOOKUP(nfstypes.LOOKUP3args{What: nfstypes.Diropargs3{Dir: mkfh3(dfh), Name: nfstypes.Filename3(name)}})
	}) {
		return
	}
	s.count("lookup", rep.Status)
	if rep.Status == nfstypes.NFS3_OK {
		a := rep.Resok.Obj_attributes.Attributes
		s.emitf("%s => 0 %s %s", desc, hx(rep.Resok.Object.Data), attrShort(a))
		s.learn(dfh, name, rep.Resok.Object.Data, uint32(a.Ftype), uint64(a.Size))
	} else {
		s.emitf("%s => %d", desc, rep.Status)
	}
}

func (s *seqRun) opAccess(h []byte) {
	s.cur = [][]byte{h}
	desc := fmt.Sprintf("access %s", hx(h))
	var rep nfstypes.ACCESS3res
	if !s.guarded(desc, func() { rep = s.srv.NFSPROC3_ACCESS(nfstypes.ACCESS3args{Object: mkfh3(h), Access: 63}) }) {
		return
	}
	s.count("access", rep.Status)
	if rep.Status == nfstypes.NFS3_OK {
		s.emitf("%s => 0 %d", desc, rep.Resok.Access)
	} else {
		s.emitf("%s => %d", desc, rep.Status)
	}
}

func (s *seqRun) opReadlink(h []byte) {
	s.cur = [][]byte{h}
	desc := fmt.Sprintf("readlink %s", hx(h))
	var rep nfstypes.READLINK3res
	if !s.guarded(desc, func() { rep = s.srv.NFSPROC3_READLINK(nfstypes.READLINK3args{Symlink: mkfh3(h)}) }) {
		return
	}
	s.count("readlink", rep.Status)
	if rep.Status == nfstypes.NFS3_OK {
		d := []byte(rep.Resok.Data)
		s.emitf("%s => 0 %d 0 %s", desc, len(d), hxd(d))
	} else {
		s.emitf("%s => %d", desc, rep.Status)
	}
}

func (s *seqRun) opRead(h []byte, off uint64, cnt uint32) {
	s.cur = [][]byte{h}
	desc := fmt.Sprintf("read %s %d %d", hx(h), off, cnt)
	var rep nfstypes.READ3res
	if !s.guarded(desc, func() {
		rep = s.srv.NFSPROC3_READ(nfstypes.READ3args{File: mkfh3(h), Offset: nfstypes.Offset3(off), Count: nfstypes.Count3(cnt)})
	}) {
		return
	}
	s.count("read", rep.Status)
	if rep.Status == nfstypes.NFS3_OK {
		e := 0
		if rep.Resok.Eof {
			e = 1
		}
		s.emitf("%s => 0 %d %d %s", desc, rep.Resok.Count, e, hxd(rep.Resok.Data))
	} else {
		s.emitf("%s => %d", desc, rep.Status)
	}
}

func (s *seqRun) opWrite(h []byte, off uint64, cnt uint32, stable uint32, data []byte) {
	s.cur = [][]byte{h}
	desc := fmt.Sprintf("write %s %d %d %d %s", hx(h), off, cnt, stable, hxd(data))
	var rep nfstypes.WRITE3res
	if !s.guarded(desc[:min(len(desc), 200)], func() {
		rep = s.srv.NFSPROC3_WRITE(nfstypes.WRITE3args{File: mkfh3(h), Offset: nfstypes.Offset3(off),
			Count: nfstypes.Count3(cnt), Stable: nfstypes.Stable_how(stable), Data: data})
	}) {
		return
	}
	s.count("write", rep.Status)
	if rep.Status == nfstypes.NFS3_OK {
		a := rep.Resok.File_wcc.After.Attributes
		s.emitf("%s => 0 %d %d %d", desc, rep.Resok.Count, rep.Resok.Committed, a.Size)
		if o, ok := s.objs[hx(h)]; ok {
			o.size = uint64(a.Size)
		}
	} else {
		s.emitf("%s => %d", desc, rep.Status)
	}
}

func min(a, b int) int {
	if a < b {
		return a
	}
	return b
}

func inumOf(h []byte) uint64 {
	if len(h) < 8 {
		return 0
	}
	return binary.LittleEndian.Uint64(h[:8])
}

// kind: "create" (mode given), "mkdir", "symlink" (target given)
func (s *seqRun) opCreate(kind string, dfh []byte, name string, mode uint32, target []byte) {
	s.cur = [][]byte{dfh}
	var desc string
	var status nfstypes.Nfsstat3
	var obj nfstypes.Post_op_fh3
	var attr nfstypes.Fattr3
	where := nfstypes.Diropargs3{Dir: mkfh3(dfh), Name: nfstypes.Filename3(name)}
	switch kind {
	case "create":
		desc = fmt.Sprintf("create %s %s %d", hx(dfh), hx([]byte(name)), mode)
		if !s.guarded(desc, func() {
			rep := s.srv.NFSPROC3_CREATE(nfstypes.CREATE3args{Where: where, How: nfstypes.Createhow3{Mode: nfstypes.Createmode3(mode)}})
			status, obj, attr = rep.Status, rep.Resok.Obj, rep.Resok.Obj_attributes.Attributes
		}) {
			return
		}
	case "mkdir":
		desc = fmt.Sprintf("mkdir %s %s", hx(dfh), hx([]byte(name)))
		if !s.guarded(desc, func() {
			rep := s.srv.NFSPROC3_MKDIR(nfstypes.MKDIR3args{Where: where})
			status, obj, attr = rep.Status, rep.Resok.Obj, rep.Resok.Obj_attributes.Attributes
		}) {
			return
		}
	case "symlink":
		desc = fmt.Sprintf("symlink %s %s %s", hx(dfh), hx([]byte(name)), hx(target))
		if !s.guarded(desc, func() {
			rep := s.srv.NFSPROC3_SYMLINK(nfstypes.SYMLINK3args{Where: where, Symlink: nfstypes.Symlinkdata3{Symlink_data: nfstypes.Nfspath3(string(target))}})
			status, obj, attr = rep.Status, rep.Resok.Obj, rep.Resok.Obj_attributes.Attributes
		}) {
			return
		}
	}
	s.count(kind, status)
	if status == nfstypes.NFS3_OK {
		slot := s.findSlot(dfh, name)
		if s.dead {
			return
		}
		s.emitf("%s ; %d %d => 0 %s %s", desc, inumOf(obj.Handle.Data), slot, hx(obj.Handle.Data), attrShort(attr))
		if s.issued[hx(obj.Handle.Data)] {
			s.oracle("C08", "handle-issued-twice", fmt.Sprintf("%s returned the handle %s, which an earlier creation had returned for another object", kind, hx(obj.Handle.Data)))
		}
		s.issued[hx(obj.Handle.Data)] = true
		s.learn(dfh, name, obj.Handle.Data, uint32(attr.Ftype), uint64(attr.Size))
	} else {
		s.emitf("%s => %d", desc, status)
	}
}

func (s *seqRun) opSimple(proc string, h []byte, name string) {
	var st nfstypes.Nfsstat3
	var desc string
	switch proc {
	case "mknod":
		desc = fmt.Sprintf("mknod %s %s", hx(h), hx([]byte(name)))
		if !s.guarded(desc, func() {
			st = s.srv.NFSPROC3_MKNOD(nfstypes.MKNOD3args{Where: nfstypes.Diropargs3{Dir: mkfh3(h), Name: nfstypes.Filename3(name)}}).Status
		}) {
			return
		}
	case "link":
		desc = fmt.Sprintf("link %s %s %s", hx(h), hx(h), hx([]byte(name)))
		if !s.guarded(desc, func() {
			st = s.srv.NFSPROC3_LINK(nfstypes.LINK3args{File: mkfh3(h), Link: nfstypes.Diropargs3{Dir: mkfh3(h), Name: nfstypes.Filename3(name)}}).Status
		}) {
			return
		}
	case "fsstat":
		desc = fmt.Sprintf("fsstat %s", hx(h))
		if !s.guarded(desc, func() { st = s.srv.NFSPROC3_FSSTAT(nfstypes.FSSTAT3args{Fsroot: mkfh3(h)}).Status }) {
			return
		}
	}
	s.count(proc, st)
	s.emitf("%s => %d", desc, st)
}

func (s *seqRun) forget(dfh []byte, name string) {
	d, ok := s.dirs[hx(dfh)]
	if !ok {
		return
	}
	if ch, ok := d.names[name]; ok {
		delete(d.names, name)
		delete(s.objs, hx(ch))
		delete(s.dirs, hx(ch))
		s.stale = append(s.stale, ch)
		if !s.inline { // under concurrency another client may have rebound the name: the remembered handle need not be the removed object
			s.deadH[hx(ch)] = true
		}
	}
}

func (s *seqRun) opRemove(proc string, dfh []byte, name string) {
	s.cur = [][]byte{dfh}
	desc := fmt.Sprintf("%s %s %s", proc, hx(dfh), hx([]byte(name)))
	var st nfstypes.Nfsstat3
	obj := nfstypes.Diropargs3{Dir: mkfh3(dfh), Name: nfstypes.Filename3(name)}
	if !s.guarded(desc, func() {
		if proc == "remove" {
			st = s.srv.NFSPROC3_REMOVE(nfstypes.REMOVE3args{Object: obj}).Status
		} else {
			st = s.srv.NFSPROC3_RMDIR(nfstypes.RMDIR3args{Object: obj}).Status
		}
	}) {
		return
	}
	s.count(proc, st)
	s.emitf("%s => %d", desc, st)
	if st == nfstypes.NFS3_OK {
		s.forget(dfh, name)
	}
}

func (s *seqRun) opRename(ffh []byte, fname string, tfh []byte, tname string) {
	s.cur = [][]byte{ffh, tfh}
	desc := fmt.Sprintf("rename %s %s %s %s", hx(ffh), hx([]byte(fname)), hx(tfh), hx([]byte(tname)))
	var st nfstypes.Nfsstat3
	// a directory moved to another parent keeps its old ".." (known finding): remembered for the structure checker
	movedCand := false
	if fd, ok := s.dirs[hx(ffh)]; ok && hx(ffh) != hx(tfh) {
		if ch, ok := fd.names[fname]; ok {
			if o, ok := s.objs[hx(ch)]; ok && o.kind == 2 {
				s.movedDirs = append(s.movedDirs, inumOf(ch))
				movedCand = true
			}
		}
	}
	defer func() {
		if movedCand && st != nfstypes.NFS3_OK {
			s.movedDirs = s.movedDirs[:len(s.movedDirs)-1]
		}
	}()
	// was it a no-op rename (same object)? then no slot is used
	if !s.guarded(desc, func() {
		st = s.srv.NFSPROC3_RENAME(nfstypes.RENAME3args{
			From: nfstypes.Diropargs3{Dir: mkfh3(ffh), Name: nfstypes.Filename3(fname)},
			To:   nfstypes.Diropargs3{Dir: mkfh3(tfh), Name: nfstypes.Filename3(tname)}}).Status
	}) {
		return
	}
	s.count("rename", st)
	if st == nfstypes.NFS3_OK && hx(ffh) != hx(tfh) {
		s.crossRenames++
	}
	if st == nfstypes.NFS3_OK {
		slot := s.findSlot(tfh, tname)
		if s.dead {
			return
		}
		s.emitf("%s ; %d => 0", desc, slot)
		// update the generator's knowledge
		fd, ok1 := s.dirs[hx(ffh)]
		td, ok2 := s.dirs[hx(tfh)]
		if ok1 && ok2 {
			if ch, ok := fd.names[fname]; ok {
				if !(hx(ffh) == hx(tfh) && fname == tname) {
					if old, ok := td.names[tname]; ok && hx(old) != hx(ch) {
						delete(s.objs, hx(old))
						delete(s.dirs, hx(old))
						s.stale = append(s.stale, old)
						if !s.inline {
							s.deadH[hx(old)] = true
						}
					}
					delete(fd.names, fname)
					td.names[tname] = ch
				}
			}
		}
	} else {
		s.emitf("%s => %d", desc, st)
	}
}

func (s *seqRun) opReaddir(h []byte, cookie uint64, count uint32) {
	s.cur = [][]byte{h}
	desc := fmt.Sprintf("readdir %s %d %d", hx(h), cookie, count)
	var rep nfstypes.READDIR3res
	if !s.guarded(desc, func() {
		rep = s.srv.NFSPROC3_READDIR(nfstypes.READDIR3args{Dir: mkfh3(h), Cookie: nfstypes.Cookie3(cookie), Count: nfstypes.Count3(count)})
	}) {
		return
	}
	s.count("readdir", rep.Status)
	if rep.Status != nfstypes.NFS3_OK {
		s.emitf("%s => %d", desc, rep.Status)
		return
	}
	var es []string
	for e := rep.Resok.Reply.Entries; e != nil; e = e.Nextentry {
		es = append(es, fmt.Sprintf("%d:%s:%d", e.Fileid, hx([]byte(e.Name)), e.Cookie))
	}
	eof := 0
	if rep.Resok.Reply.Eof {
		eof = 1
	}
	l := "-"
	if len(es) > 0 {
		l = strings.Join(es, ",")
	}
	s.emitf("%s => 0 %d %s", desc, eof, l)
}

func (s *seqRun) opReaddirplus(h []byte, cookie uint64, dircount, maxcount uint32) {
	s.cur = [][]byte{h}
	desc := fmt.Sprintf("readdirplus %s %d %d %d", hx(h), cookie, dircount, maxcount)
	var rep nfstypes.READDIRPLUS3res
	if !s.guarded(desc, func() {
		rep = s.srv.NFSPROC3_READDIRPLUS(nfstypes.READDIRPLUS3args{Dir: mkfh3(h), Cookie: nfstypes.Cookie3(cookie),
			Dircount: nfstypes.Count3(dircount), Maxcount: nfstypes.Count3(maxcount)})
	}) {
		return
	}
	s.count("readdirplus", rep.Status)
	if rep.Status != nfstypes.NFS3_OK {
		s.emitf("%s => %d", desc, rep.Status)
		return
	}
	var es []string
	for e := rep.Resok.Reply.Entries; e != nil; e = e.Nextentry {
		a := e.Name_attributes.Attributes
		if !e.Name_attributes.Attributes_follow || !e.Name_handle.Handle_follows {
			// the server omitted attributes and handle (entry not lockable in order)
			es = append(es, fmt.Sprintf("%d:%s:%d", e.Fileid, hx([]byte(e.Name)), e.Cookie))
			continue
		}
		sz := fmt.Sprintf("%d", a.Size)
		if s.inline {
			sz = "*" // concurrent mode: a child's size is read under the child's lock only
		}
		es = append(es, fmt.Sprintf("%d:%s:%d:%d:%s:%s", e.Fileid, hx([]byte(e.Name)), e.Cookie, a.Ftype, sz, hx(e.Name_handle.Handle.Data)))
		if string(e.Name) != "." && string(e.Name) != ".." {
			s.learn(h, string(e.Name), e.Name_handle.Handle.Data, uint32(a.Ftype), uint64(a.Size))
		}
	}
	eof := 0
	if rep.Resok.Reply.Eof {
		eof = 1
	}
	l := "-"
	if len(es) > 0 {
		l = strings.Join(es, ",")
	}
	s.emitf("%s => 0 %d %s", desc, eof, l)
}

func b01(b bool) int {
	if b {
		return 1
	}
	return 0
}

func (s *seqRun) opFsinfo(h []byte) {
	s.cur = [][]byte{h}
	desc := fmt.Sprintf("fsinfo %s", hx(h))
	var rep nfstypes.FSINFO3res
	if !s.guarded(desc, func() { rep = s.srv.NFSPROC3_FSINFO(nfstypes.FSINFO3args{Fsroot: mkfh3(h)}) }) {
		return
	}
	s.count("fsinfo", rep.Status)
	if rep.Status != nfstypes.NFS3_OK {
		s.emitf("%s => %d", desc, rep.Status)
		return
	}
	r := rep.Resok
	s.emitf("%s => 0 %d %d %d %d %d %d %d %d %d", desc, r.Rtmax, r.Rtpref, r.Rtmult, r.Wtmax, r.Wtpref, r.Wtmult, r.Dtpref, r.Maxfilesize, r.Properties)
}

func (s *seqRun) opPathconf(h []byte) {
	s.cur = [][]byte{h}
	desc := fmt.Sprintf("pathconf %s", hx(h))
	var rep nfstypes.PATHCONF3res
	if !s.guarded(desc, func() { rep = s.srv.NFSPROC3_PATHCONF(nfstypes.PATHCONF3args{Object: mkfh3(h)}) }) {
		return
	}
	s.count("pathconf", rep.Status)
	if rep.Status != nfstypes.NFS3_OK {
		s.emitf("%s => %d", desc, rep.Status)
		return
	}
	r := rep.Resok
	s.emitf("%s => 0 %d %d %d %d %d %d", desc, r.Linkmax, r.Name_max, b01(r.No_trunc), b01(r.Chown_restricted), b01(r.Case_insensitive), b01(r.Case_preserving))
}

func (s *seqRun) opCommit(h []byte, off uint64, cnt uint32) {
	s.cur = [][]byte{h}
	desc := fmt.Sprintf("commit %s %d %d", hx(h), off, cnt)
	var rep nfstypes.COMMIT3res
	if !s.guarded(desc, func() {
		rep = s.srv.NFSPROC3_COMMIT(nfstypes.COMMIT3args{File: mkfh3(h), Offset: nfstypes.Offset3(off), Count: nfstypes.Count3(cnt)})
	}) {
		return
	}
	s.count("commit", rep.Status)
	s.emitf("%s => %d", desc, rep.Status)
}

func (s *seqRun) opMnt(path string) {
	desc := fmt.Sprintf("mnt %s", hx([]byte(path)))
	var rep nfstypes.Mountres3
	if !s.guarded(desc, func() { rep = s.srv.MOUNTPROC3_MNT(nfstypes.Dirpath3(path)) }) {
		return
	}
	s.emitf("%s => %d %s", desc, rep.Fhs_status, hx(rep.Mountinfo.Fhandle))
}

func (s *seqRun) opRestart() {
	if !s.guarded("restart", func() {
		// make everything acknowledged so far durable, then shut down cleanly
		s.srv.VerifFsState().Txn.Flush()
		s.srv.ShutdownNfs()
		s.srv = nfs.MakeNfs(s.d)
		s.srv.Unstable = s.unstable
	}) {
		return
	}
	s.hist["restart:ok"]++
	s.emitf("restart => 0")
}

// ---- generators ----

var blk = uint64(4096)

func (s *seqRun) pickOffset(size uint64) uint64 {
	r := s.r
	mfs := inode.MaxFileSize()
	bounds := []uint64{0, 1, 100, blk - 1, blk, blk + 1, 2 * blk, 8*blk - 1, 8 * blk, 8*blk + 1, 9 * blk,
		(8+512)*blk - 1, (8 + 512) * blk, (8+512)*blk + 1, (8 + 513) * blk, (8 + 512 + 512) * blk}
	switch k := r.Intn(20); {
	case k < 8:
		return bounds[r.Intn(len(bounds))]
	case k < 12:
		if size == 0 {
			return 0
		}
		return r.U64() % size
	case k < 14:
		return size
	case k < 15:
		return size + uint64(r.Intn(3*int(blk)))
	case k < 16:
		if size > 0 {
			return size - 1
		}
		return 0
	case k < 17:
		return (r.U64() % 64) * blk
	case k < 18:
		hi := []uint64{mfs - 1, mfs, mfs + 1, mfs - blk, mfs - 100, 1 << 32, 1 << 63, ^uint64(0), ^uint64(0) - 9, mfs / 2}
		return hi[r.Intn(len(hi))]
	default:
		return uint64(r.Intn(20000))
	}
}

func (s *seqRun) pickCount(big bool) uint32 {
	r := s.r
	small := []uint32{0, 1, 2, 100, 127, 128, 129, 4095, 4096, 4097, 8192, 10000}
	switch k := r.Intn(20); {
	case k < 12:
		return small[r.Intn(len(small))]
	case k < 16:
		return uint32(r.Intn(3000))
	case k < 18:
		return uint32(4096 * (1 + r.Intn(12)))
	case k < 19:
		return 65536
	default:
		if big {
			return uint32(4096 * (16 + r.Intn(40)))
		}
		return 20000
	}
}

func (s *seqRun) mkData(n int) []byte {
	b := make([]byte, n)
	seed := byte(s.r.U64())
	if seed == 0 {
		seed = 0x5a
	}
	for i := range b {
		b[i] = seed + byte(i*7)
		if b[i] == 0 {
			b[i] = seed
		}
	}
	return b
}

func (s *seqRun) freshName() string {
	r := s.r
	if s.pool != nil && !r.Chance(1, 8) {
		return s.pool[r.Intn(len(s.pool))]
	}
	s.nameCtr++
	base := fmt.Sprintf("n%d", s.nameCtr)
	switch k := r.Intn(40); {
	case k < 30:
		return base
	case k < 32:
		return base + strings.Repeat("x", 110-len(base)+r.Intn(5)) // 110..114
	case k < 33:
		return base + strings.Repeat("y", 255-len(base))
	case k < 34:
		return base + strings.Repeat("z", 300-len(base))
	case k < 35:
		return ""
	case k < 36:
		return "a/b" + base
	case k < 37:
		return "."
	case k < 38:
		return ".."
	default:
		return base + strings.Repeat("w", r.Intn(100))
	}
}

func (s *seqRun) sortedKeys(m map[string]*objInfo) []string {
	ks := make([]string, 0, len(m))
	for k := range m {
		ks = append(ks, k)
	}
	sort.Strings(ks)
	return ks
}

// pickHandle: mostly a live handle of the wanted kind (0 = any), sometimes a
// stale or malformed one.
// hotHandle: in concurrent runs, the handle of an operation whose transaction has just ended while
// its handler has not returned yet (see concObserver); the other clients aim at it.
var hotHandle atomic.Value // []byte

func (s *seqRun) pickHandle(kind uint32) []byte {
	r := s.r
	if s.chaseHot {
		if h, _ := hotHandle.Load().([]byte); len(h) > 0 && r.Chance(1, 2) {
			return append([]byte(nil), h...)
		}
	}
	k := r.Intn(100)
	if k < 6 && len(s.stale) > 0 {
		return s.stale[r.Intn(len(s.stale))]
	}
	if k < 10 {
		return s.malformed()
	}
	var cands []*objInfo
	for _, key := range s.sortedKeys(s.objs) {
		o := s.objs[key]
		if kind == 0 || o.kind == kind {
			cands = append(cands, o)
		}
	}
	if len(cands) == 0 || (kind != 0 && r.Chance(1, 25)) {
		// wrong kind on purpose
		keys := s.sortedKeys(s.objs)
		return s.objs[keys[r.Intn(len(keys))]].fh
	}
	return cands[r.Intn(len(cands))].fh
}

func (s *seqRun) malformed() []byte {
	r := s.r
	keys := s.sortedKeys(s.objs)
	base := s.objs[keys[r.Intn(len(keys))]].fh
	switch r.Intn(8) {
	case 0:
		return []byte{}
	case 1:
		return base[:r.Intn(16)]
	case 2: // longer than 16: extra bytes are ignored
		return append(append([]byte{}, base...), byte(r.U64()), byte(r.U64()), 3)
	case 3: // generation off by one
		b := append([]byte{}, base...)
		b[8]++
		return b
	case 4: // huge inode number
		b := append([]byte{}, base...)
		binary.LittleEndian.PutUint64(b[:8], 1<<40)
		return b
	case 5: // just beyond the inode table
		b := append([]byte{}, base...)
		binary.LittleEndian.PutUint64(b[:8], 32768+uint64(r.Intn(3)))
		return b
	case 6: // inode 0
		b := append([]byte{}, base...)
		binary.LittleEndian.PutUint64(b[:8], 0)
		return b
	default: // a never-used inode number
		b := append([]byte{}, base...)
		binary.LittleEndian.PutUint64(b[:8], 20000+uint64(r.Intn(100)))
		return b
	}
}

func (s *seqRun) pickName(dfh []byte) string {
	r := s.r
	if d, ok := s.dirs[hx(dfh)]; ok && len(d.names) > 0 && !r.Chance(1, 6) {
		ks := make([]string, 0, len(d.names))
		for k := range d.names {
			ks = append(ks, k)
		}
		sort.Strings(ks)
		return ks[r.Intn(len(ks))]
	}
	if r.Chance(1, 3) {
		return []string{".", "..", "nonexistent", ""}[r.Intn(4)]
	}
	return s.freshName()
}

func (s *seqRun) pickTime() timeHow {
	switch s.r.Intn(4) {
	case 0:
		return timeHow{how: nfstypes.SET_TO_SERVER_TIME}
	case 1:
		return timeHow{how: nfstypes.SET_TO_CLIENT_TIME, sec: uint32(s.r.U64()), nsec: uint32(s.r.Intn(1000000000))}
	default:
		return timeHow{how: nfstypes.DONT_CHANGE}
	}
}

func (s *seqRun) randomOp(big bool) {
	r := s.r
	switch k := r.Intn(100); {
	case k < 4:
		s.opGetattr(s.pickHandle(0))
	case k < 9:
		h := s.pickHandle(1)
		var size *uint64
		if r.Chance(3, 4) {
			var cur uint64
			if o, ok := s.objs[hx(h)]; ok {
				cur = o.size
			}
			var v uint64
			switch r.Intn(8) {
			case 0:
				v = 0
			case 1:
				v = cur / 2
			case 2:
				v = cur + uint64(r.Intn(10000))
			case 3:
				v = s.pickOffset(cur)
			case 4:
				v = uint64(r.Intn(3)) * blk
			case 5:
				if cur > 0 {
					v = cur - uint64(r.Intn(int(min(int(cur), 5000))+1))
				}
			case 6:
				v = cur - cur%blk + 100
			default:
				v = uint64(r.Intn(40000))
			}
			size = &v
		}
		s.opSetattr(h, size, s.pickTime(), s.pickTime())
	case k < 17:
		d := s.pickHandle(2)
		nm := s.pickName(d)
		if nm == ".." {
			// known findings C04 rename:directory-dotdot-and-cycles / C06 hang:lookup-dangling-dotdot:
			// a moved directory keeps its old "..", and once the old parent is gone LOOKUP of it
			// never returns (demonstrated by `harness probe`); the random generator stays clear
			for _, m := range s.movedDirs {
				if m == inumOf(d) {
					nm = "."
				}
			}
		}
		s.opLookup(d, nm)
	case k < 19:
		s.opAccess(s.pickHandle(0))
	case k < 21:
		s.opReadlink(s.pickHandle(5))
	case k < 33:
		h := s.pickHandle(1)
		var cur uint64
		if o, ok := s.objs[hx(h)]; ok {
			cur = o.size
		}
		s.opRead(h, s.pickOffset(cur), s.pickCount(big))
	case k < 50:
		h := s.pickHandle(1)
		var cur uint64
		if o, ok := s.objs[hx(h)]; ok {
			cur = o.size
		}
		cnt := s.pickCount(big)
		dl := int(cnt)
		if r.Chance(1, 15) {
			dl = int(cnt) + r.Intn(10) // more data than count
		} else if r.Chance(1, 25) && cnt > 0 {
			dl = r.Intn(int(cnt)) // less data than count
		}
		stable := uint32(r.Intn(3))
		if r.Chance(1, 30) {
			stable = 7
		}
		s.opWrite(h, s.pickOffset(cur), cnt, stable, s.mkData(dl))
	case k < 58:
		d := s.pickHandle(2)
		mode := uint32(r.Intn(2))
		if r.Chance(1, 12) {
			mode = 2
		}
		name := s.freshName()
		if r.Chance(1, 8) {
			name = s.pickName(d)
		}
		s.opCreate("create", d, name, mode, nil)
	case k < 64:
		d := s.pickHandle(2)
		name := s.freshName()
		if r.Chance(1, 8) {
			name = s.pickName(d)
		}
		s.opCreate("mkdir", d, name, 0, nil)
	case k < 67:
		d := s.pickHandle(2)
		tl := []int{0, 1, 10, 100, 4096, 5000}[r.Intn(6)]
		s.opCreate("symlink", d, s.freshName(), 0, s.mkData(tl))
	case k < 68:
		s.opSimple([]string{"mknod", "link", "fsstat"}[r.Intn(3)], s.pickHandle(0), "x")
	case k < 74:
		d := s.pickHandle(2)
		s.opRemove("remove", d, s.pickName(d))
	case k < 78:
		d := s.pickHandle(2)
		s.opRemove("rmdir", d, s.pickName(d))
	case k < 87:
		fd := s.pickHandle(2)
		td := fd
		if r.Chance(1, 2) {
			td = s.pickHandle(2)
		}
		tn := s.freshName()
		if r.Chance(1, 3) {
			tn = s.pickName(td)
		}
		s.opRename(fd, s.pickName(fd), td, tn)
	case k < 91:
		d := s.pickHandle(2)
		cookie := uint64(0)
		if r.Chance(1, 2) {
			cookie = uint64(r.Intn(12)) * 128
		}
		if r.Chance(1, 20) {
			cookie = uint64(r.Intn(2000))
		}
		cnts := []uint32{0, 1, 64, 96, 97, 100, 128, 150, 200, 300, 512, 4096, 65536, 0xffffffff}
		s.opReaddir(d, cookie, cnts[r.Intn(len(cnts))])
	case k < 95:
		d := s.pickHandle(2)
		cookie := uint64(0)
		if r.Chance(1, 2) {
			cookie = uint64(r.Intn(12)) * 128
		}
		if r.Chance(1, 20) {
			cookie = uint64(r.Intn(2000))
		}
		dcs := []uint32{0, 1, 9, 10, 20, 50, 100, 1000, 65536}
		mcs := []uint32{0, 64, 196, 197, 200, 300, 400, 1000, 4096, 32768, 0xffffffff}
		s.opReaddirplus(d, cookie, dcs[r.Intn(len(dcs))], mcs[r.Intn(len(mcs))])
	case k < 96:
		if r.Chance(1, 2) {
			s.opFsinfo(s.pickHandle(0))
		} else {
			s.opPathconf(s.pickHandle(0))
		}
	case k < 98:
		h := s.pickHandle(1)
		var cur uint64
		if o, ok := s.objs[hx(h)]; ok {
			cur = o.size
		}
		off := uint64(0)
		cnt := uint32(cur)
		if r.Chance(1, 3) {
			off = s.pickOffset(cur)
			cnt = s.pickCount(false)
		}
		s.opCommit(h, off, cnt)
	case k < 99:
		s.opMnt("/")
	default:
		s.opRestart()
	}
}

func cmdSeq(fs *flag.FlagSet, args []string) {
	seed := fs.Uint64("seed", 1, "seed")
	nseq := fs.Int("seqs", 8, "number of sequences")
	nops := fs.Int("ops", 400, "operations per sequence")
	disksz := fs.Uint64("disk", 100000, "disk size in blocks")
	big := fs.Bool("big", false, "allow large transfers")
	scen := fs.Bool("scenarios", true, "run the directed scenarios first")
	c09 := fs.Bool("c09", false, "compare full dumps and free counts around every failing operation")
	c10 := fs.Int("c10", 0, "every N operations: coherence of caches/allocators with the disk, restart and recovery comparison")
	limits := fs.Bool("limits", true, "probe the announced limits")
	locks := fs.Bool("locks", false, "print the lock/commit event trace of every operation")
	fsckN := fs.Int("fsck", 0, "every N operations (and at the end of every scenario/sequence): dump the logical disk for the structure checker")
	imgPath := fs.String("imgout", "", "file the disk images go to")
	fs.Parse(args)
	var imgOut func(string)
	if *imgPath != "" {
		f, err := os.Create(*imgPath)
		if err != nil {
			die("imgout: %v", err)
		}
		w := bufio.NewWriterSize(f, 1<<20)
		defer func() { w.Flush(); f.Close() }()
		imgOut = func(l string) { w.WriteString(l); w.WriteByte('\n') }
	}
	root := NewRng(*seed)
	if *locks {
		fstxn.VerifObserver = seqObserver
		defer func() { fstxn.VerifObserver = nil }()
	}
	total := map[string]int{}
	merge := func(s *seqRun) {
		for k, v := range s.hist {
			total[k] += v
		}
	}
	if *scen {
		for _, sc := range scenarios {
			s := newSeqRun(root.Fork(), *disksz, true)
			emit("# scenario %s", sc.name)
			s.c09 = *c09
			s.locks = *locks
			s.c10on = *c10 > 0
			s.imgOut, s.fsckEvery = imgOut, *fsckN
			takeSeqEvents()
			sc.run(s)
			s.fsckPoint("scenario " + sc.name)
			s.scanAll()
			if *c10 > 0 {
				s.restartCompare()
			}
			s.close()
			merge(s)
		}
	}
	for i := 0; i < *nseq; i++ {
		unstable := i%3 != 2
		s := newSeqRun(root.Fork(), *disksz, unstable)
		emit("# sequence %d unstable=%v", i, unstable)
		s.c09 = *c09
		s.locks = *locks
		s.c10on = *c10 > 0
		s.imgOut, s.fsckEvery = imgOut, *fsckN
		takeSeqEvents()
		for j := 0; j < *nops && !s.dead; j++ {
			s.randomOp(*big)
			if *c10 > 0 && j%*c10 == *c10-1 {
				s.restartCompare()
			}
		}
		s.fsckPoint(fmt.Sprintf("sequence %d end", i))
		s.scanAll()
		if *c10 > 0 {
			s.restartCompare()
		}
		s.close()
		merge(s)
	}
	if *limits {
		s := newSeqRun(root.Fork(), *disksz, true)
		emit("# limits probe")
		s.limitsProbe()
		s.close()
		merge(s)
	}
	var ks []string
	for k := range total {
		ks = append(ks, k)
	}
	sort.Strings(ks)
	var parts []string
	for _, k := range ks {
		parts = append(parts, fmt.Sprintf("%s=%d", k, total[k]))
	}
	emit("# HIST %s", strings.Join(parts, " "))
}

// scanAll runs the enumeration oracle on every directory the generator knows.
func (s *seqRun) scanAll() {
	var ks []string
	for k := range s.dirs {
		ks = append(ks, k)
	}
	sort.Strings(ks)
	for _, k := range ks {
		if s.dead {
			return
		}
		if o, ok := s.objs[k]; ok {
			s.dirScan(o.fh)
		}
	}
}

// harness drives the real go-nfsd code (built from /repo's working tree with
// -tags verif) and writes line-protocol traces that the Lean drivers validate.
package main

import (
	"bufio"
	"flag"
	"fmt"
	"os"
)

var out *bufio.Writer

func emit(format string, a ...interface{}) {
	fmt.Fprintf(out, format, a...)
	out.WriteByte('\n')
}

func die(format string, a ...interface{}) {
	out.Flush()
	fmt.Fprintf(os.Stderr, "harness: "+format+"\n", a...)
	os.Exit(2)
}

func main() {
	if len(os.Args) < 2 {
		fmt.Fprintln(os.Stderr, "usage: harness <subcommand> [flags]")
		os.Exit(2)
	}
	out = bufio.NewWriterSize(os.Stdout, 1<<20)
	defer out.Flush()
	sub := os.Args[1]
	fs := flag.NewFlagSet(sub, flag.ExitOnError)
	switch sub {
	case "mkfs":
		cmdMkfs(fs, os.Args[2:])
	case "alloc":
		cmdAlloc(fs, os.Args[2:])
	case "xdr":
		cmdXdr(fs, os.Args[2:])
	case "dispatch":
		cmdDispatch(fs, os.Args[2:])
	case "seq":
		cmdSeq(fs, os.Args[2:])
	case "fuzz":
		cmdFuzz(fs, os.Args[2:])
	case "codec":
		cmdCodec(fs, os.Args[2:])
	case "kvs":
		cmdKvs(fs, os.Args[2:])
	case "simple":
		cmdSimple(fs, os.Args[2:])
	case "conc":
		cmdConc(fs, os.Args[2:])
	case "crash":
		cmdCrash(fs, os.Args[2:])
	case "crashobs":
		cmdCrashObs(fs, os.Args[2:])
	case "reclaim":
		cmdReclaim(fs, os.Args[2:])
	case "blockmap":
		cmdBlockMap(fs, os.Args[2:])
	case "cache":
		cmdCache(fs, os.Args[2:])
	case "dcache":
		cmdDcache(fs, os.Args[2:])
	case "atxn":
		cmdAtxn(fs, os.Args[2:])
	case "initattr":
		cmdInitAttr(fs, os.Args[2:])
	case "probe":
		cmdProbe(fs, os.Args[2:])
	case "simpleconc":
		cmdSimpleConc(fs, os.Args[2:])
	case "kvsconc":
		cmdKvsConc(fs, os.Args[2:])
	case "crashkv":
		cmdCrashKv(fs, os.Args[2:])
	case "crashsimple":
		cmdCrashSimple(fs, os.Args[2:])
	default:
		fmt.Fprintf(os.Stderr, "harness: unknown subcommand %q\n", sub)
		os.Exit(2)
	}
}

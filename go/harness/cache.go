//go:build verif

package main

import (
	"flag"

	"github.com/mit-pdos/go-nfsd/cache"
)

// cmdCache: random lookups on the real cache.Cache.  The identity of the slot returned is what
// matters (callers keep the pointer): slots are numbered in the order their pointers first
// appear, and every pointer ever returned is kept alive here, so the allocator cannot hand the
// address of a dropped slot to a new one.
func cmdCache(fs *flag.FlagSet, args []string) {
	seed := fs.Uint64("seed", 1, "seed")
	nseq := fs.Int("seqs", 20, "sequences")
	nops := fs.Int("ops", 400, "lookups per sequence")
	fs.Parse(args)
	root := NewRng(*seed)
	for q := 0; q < *nseq; q++ {
		r := root.Fork()
		sz := uint64(1 + r.Intn(12))
		if q%7 == 6 {
			sz = 100 // the size of the inode cache is of this order
		}
		c := cache.MkCache(sz)
		emit("cinit %d", sz)
		tokens := map[*cache.Cslot]int{}
		var keep []*cache.Cslot
		span := int(sz) + 1 + r.Intn(int(sz)+3)
		hot := r.Intn(span)
		for i := 0; i < *nops; i++ {
			id := uint64(r.Intn(span))
			if r.Chance(1, 4) {
				id = uint64(hot) // an id that keeps being used stays
			}
			if r.Chance(1, 50) {
				hot = r.Intn(span)
			}
			res := "panic"
			func() {
				defer func() { recover() }()
				p := c.LookupSlot(id)
				t, ok := tokens[p]
				if !ok {
					t = len(tokens)
					tokens[p] = t
					keep = append(keep, p)
				}
				res = itoa(t)
			}()
			emit("clook %d => %s", id, res)
		}
		_ = keep
	}
}

func itoa(i int) string {
	if i == 0 {
		return "0"
	}
	var b []byte
	for i > 0 {
		b = append([]byte{byte('0' + i%10)}, b...)
		i /= 10
	}
	return string(b)
}

package main

import (
	"flag"
	"fmt"
	"sync/atomic"
	"time"

	"github.com/mit-pdos/go-nfsd/fstxn"
)

// probe: directed histories for recorded findings whose manifestation ends the server (a request
// that never returns).  Each runs on a server of its own with a short watchdog; the check maps a
// `# HANG` after `# probe <key>` to the finding of that key.
//
// dangling-dotdot: RENAME of a directory to another parent leaves its ".." behind (finding C04
// rename:directory-dotdot-and-cycles); once the old parent is removed, ".." names a free inode
// and LOOKUP retries for ever in getInodesLocked (lookupOrdered refuses the free inode, the loop
// starts over and finds the same entry again).
func cmdProbe(fs *flag.FlagSet, args []string) {
	seed := fs.Uint64("seed", 1, "seed")
	wd := fs.Int("watchdog", 4, "seconds a request may take")
	fs.Parse(args)
	root := NewRng(*seed)
	hist := func(key string, run func(s *seqRun)) {
		s := newSeqRun(root.Fork(), 20000, true)
		s.opTimeout = time.Duration(*wd) * time.Second
		emit("# probe %s", key)
		run(s)
		if !s.dead {
			emit("# probe-returned %s", key)
		}
		s.close()
	}
	// old parent numbered below the moved directory: the ordered path of getInodesLocked
	hist("lookup-dangling-dotdot", func(s *seqRun) {
		a := s.mk("mkdir", s.root(), "a")
		d := s.mk("mkdir", a, "d")
		s.opRename(a, "d", s.root(), "d")
		s.opRemove("rmdir", s.root(), "a")
		s.opLookup(d, "..")
	})
	// old parent numbered above the moved directory
	hist("lookup-dangling-dotdot-above", func(s *seqRun) {
		s.pokeInodeAlloc(40)
		a := s.mk("mkdir", s.root(), "a")
		s.pokeInodeAlloc(10)
		d := s.mk("mkdir", a, "d")
		s.opRename(a, "d", s.root(), "d")
		s.opRemove("rmdir", s.root(), "a")
		s.opLookup(d, "..")
	})
	hist("readdirplus-dangling-dotdot", func(s *seqRun) {
		a := s.mk("mkdir", s.root(), "a")
		d := s.mk("mkdir", a, "d")
		s.opRename(a, "d", s.root(), "d")
		s.opRemove("rmdir", s.root(), "a")
		s.opReaddirplus(d, 0, 1000, 10000)
	})
	hist("readdirplus-dangling-dotdot-above", func(s *seqRun) {
		s.pokeInodeAlloc(40)
		a := s.mk("mkdir", s.root(), "a")
		s.pokeInodeAlloc(10)
		d := s.mk("mkdir", a, "d")
		s.opRename(a, "d", s.root(), "d")
		s.opRemove("rmdir", s.root(), "a")
		s.opReaddirplus(d, 0, 1000, 10000)
	})
	// many background shrinkers at once: every REMOVE of a large (sparse) file leaves one behind; here
	// they are all kept waiting at the start of their first transaction (a schedule: the scheduler
	// owes them nothing) while the client goes on removing.  A request must not come to depend on
	// how many of them there are — in particular it must not do their work while it still holds
	// the locks that work needs.
	hist("remove-while-many-shrinkers-wait", func(s *seqRun) {
		const n = 80
		gate := make(chan struct{})
		old := fstxn.VerifObserver
		fstxn.VerifObserver = func(kind string, op *fstxn.FsTxn, arg uint64) {
			if kind == "begin" && curGid() != atomic.LoadUint64(&seqMainGid) {
				<-gate
			}
			if old != nil {
				old(kind, op, arg)
			}
		}
		defer func() { fstxn.VerifObserver = old }()
		sz := uint64(700 * 4096)
		for i := 0; i < n; i++ {
			f := s.mk("create", s.root(), fmt.Sprintf("big%02d", i))
			s.opSetattr(f, &sz, timeHow{}, timeHow{})
		}
		for i := 0; i < n && !s.dead; i++ {
			s.opRemove("remove", s.root(), fmt.Sprintf("big%02d", i))
		}
		emit("# shrinkers-waiting %d", s.srv.VerifShrinker().VerifNthread())
		close(gate)
		for w := 0; w < 400 && s.srv.VerifShrinker().VerifNthread() > 0; w++ {
			time.Sleep(10 * time.Millisecond)
		}
		emit("# shrinkers-left %d", s.srv.VerifShrinker().VerifNthread())
		if !s.dead {
			s.opGetattr(s.root())
		}
	})
}

package main

// Rng is a splitmix64 generator: every random choice of the harness derives
// from one seed so that a failing case replays exactly.
type Rng struct{ s uint64 }

func NewRng(seed uint64) *Rng { return &Rng{s: seed*0x9E3779B97F4A7C15 + 0x1234567} }

func (r *Rng) U64() uint64 {
	r.s += 0x9E3779B97F4A7C15
	z := r.s
	z = (z ^ (z >> 30)) * 0xBF58476D1CE4E5B9
	z = (z ^ (z >> 27)) * 0x94D049BB133111EB
	return z ^ (z >> 31)
}

// Intn returns a number in [0,n).
func (r *Rng) Intn(n int) int {
	if n <= 0 {
		return 0
	}
	return int(r.U64() % uint64(n))
}

func (r *Rng) Chance(num, den int) bool { return r.Intn(den) < num }

func (r *Rng) Pick(xs []uint64) uint64 { return xs[r.Intn(len(xs))] }

func (r *Rng) Fork() *Rng { return NewRng(r.U64()) }

package main

import (
	"encoding/hex"
	"flag"

	"github.com/mit-pdos/go-journal/alloc"
)

// cmdAlloc runs random op sequences on the real bitmap allocator.
func cmdAlloc(fs *flag.FlagSet, args []string) {
	seed := fs.Uint64("seed", 1, "seed")
	cases := fs.Int("cases", 200, "number of sequences")
	ops := fs.Int("ops", 120, "operations per sequence")
	fs.Parse(args)
	r := NewRng(*seed)
	for c := 0; c < *cases; c++ {
		nbytes := 1 + r.Intn(12)
		bm := make([]byte, nbytes)
		dens := r.Intn(4)
		for i := range bm {
			switch dens {
			case 0:
				bm[i] = 0
			case 1:
				bm[i] = byte(r.U64())
			case 2:
				bm[i] = byte(r.U64() | r.U64())
			default:
				bm[i] = 0xff
				if r.Chance(1, 4) {
					bm[i] &^= 1 << uint(r.Intn(8))
				}
			}
		}
		bm[0] |= 1 // number 0 is always in use in go-nfsd's bitmaps
		emit("ainit %s", hex.EncodeToString(bm))
		a := alloc.MkAlloc(bm)
		var got []uint64
		for i := 0; i < *ops; i++ {
			switch k := r.Intn(10); {
			case k < 6:
				n := a.AllocNum()
				emit("aalloc %d", n)
				if n != 0 {
					got = append(got, n)
				}
			case k < 9:
				if len(got) > 0 {
					j := r.Intn(len(got))
					n := got[j]
					got = append(got[:j], got[j+1:]...)
					a.FreeNum(n)
					emit("afree %d", n)
				}
			default:
				emit("anumfree %d", a.NumFree())
			}
		}
		emit("anumfree %d", a.NumFree())
	}
}

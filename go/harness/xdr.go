package main

import (
	"encoding/hex"
	"encoding/json"
	"flag"
	"fmt"
	"os"
	"reflect"
	"sort"
	"strings"

	"github.com/mit-pdos/go-nfsd/nfstypes"
	"github.com/zeldovich/go-rpcgen/xdr"
)

// Correspondence of the XDR codec: structured values of every argument and
// result type are encoded and decoded by the real generated Xdr methods; the
// Lean driver does the same with the descriptors transcribed from the RFC.

type jitem struct {
	Kind    string    `json:"k"`
	Field   string    `json:"f"`
	Max     int       `json:"max"`
	N       int       `json:"n"`
	Ref     string    `json:"ref"`
	Bool    bool      `json:"bool"`
	Keys    []int     `json:"keys"`
	Arms    [][]jitem `json:"arms"`
	HasDflt bool      `json:"hasDflt"`
	Dflt    []jitem   `json:"dflt"`
	TArm    []jitem   `json:"t"`
	FArm    []jitem   `json:"fa"`
}

type xdesc struct {
	Bodies     map[string][]jitem `json:"bodies"`
	ArrayLen   map[string]int     `json:"arrayLen"`
	PtrTypedef map[string]bool    `json:"ptrTypedef"`
}

// Tree is the generic value (same shape as Lean's `Val`).
type Tree struct {
	K     string // n t f x a s u b l
	N     uint64
	B     bool
	Bytes []byte
	Nums  []uint64
	Kids  []*Tree
}

func (t *Tree) String() string {
	var b strings.Builder
	t.write(&b)
	return b.String()
}

func (t *Tree) write(b *strings.Builder) {
	kids := func() {
		b.WriteByte('(')
		for i, k := range t.Kids {
			if i > 0 {
				b.WriteByte(',')
			}
			k.write(b)
		}
		b.WriteByte(')')
	}
	switch t.K {
	case "n":
		fmt.Fprintf(b, "n%d", t.N)
	case "t":
		if t.B {
			b.WriteString("t")
		} else {
			b.WriteString("f")
		}
	case "x":
		if len(t.Bytes) == 0 {
			b.WriteString("x-")
		} else {
			b.WriteString("x" + hex.EncodeToString(t.Bytes))
		}
	case "a":
		b.WriteString("a(")
		for i, n := range t.Nums {
			if i > 0 {
				b.WriteByte(',')
			}
			fmt.Fprintf(b, "%d", n)
		}
		b.WriteByte(')')
	case "s":
		b.WriteString("s")
		kids()
	case "u":
		fmt.Fprintf(b, "u%d", t.N)
		kids()
	case "b":
		if t.B {
			b.WriteString("b1")
		} else {
			b.WriteString("b0")
		}
		kids()
	case "l":
		b.WriteString("l")
		kids()
	}
}

type walker struct {
	d *xdesc
	r *Rng
}

func structOfTrees(ts []*Tree) *Tree {
	if len(ts) == 1 {
		return ts[0]
	}
	return &Tree{K: "s", Kids: ts}
}

func (w *walker) targetOf(v reflect.Value, it jitem) reflect.Value {
	if it.Field == "" {
		return v
	}
	f := v.FieldByName(it.Field)
	if !f.IsValid() {
		die("xdr: type %s has no field %s", v.Type(), it.Field)
	}
	return f
}

// ---- generation of generic values from the descriptor ----

func (w *walker) genBytes(max int, small bool) []byte {
	r := w.r
	var n int
	switch r.Intn(8) {
	case 0:
		n = 0
	case 1:
		if max >= 0 {
			n = max
		} else {
			// no declared bound: lengths around the bounds other types have and far beyond
			n = []int{1 + r.Intn(300), 255, 256, 1024, 1025, 4096, 4097, 8193, 70000}[r.Intn(9)]
		}
	case 2:
		n = 1 + r.Intn(5)
	default:
		n = r.Intn(40)
	}
	if max >= 0 && n > max {
		n = max
	}
	if max >= 0 && r.Chance(1, 16) {
		n = max + 1 // one beyond the declared bound: both sides must refuse to encode it
	}
	b := make([]byte, n)
	for i := range b {
		if small {
			b[i] = byte('a' + r.Intn(26))
		} else {
			b[i] = byte(r.U64())
		}
	}
	return b
}

func (w *walker) genU(bits uint) uint64 {
	r := w.r
	switch r.Intn(6) {
	case 0:
		return 0
	case 1:
		return (uint64(1) << (bits - 1) << 1) - 1
	case 2:
		return uint64(r.Intn(10))
	case 3:
		return uint64(1) << uint(r.Intn(int(bits)))
	default:
		if bits == 32 {
			return r.U64() & 0xffffffff
		}
		return r.U64()
	}
}

func (w *walker) genItems(items []jitem, depth int) []*Tree {
	var ts []*Tree
	for _, it := range items {
		ts = append(ts, w.genItem(it, depth))
	}
	return ts
}

func (w *walker) genItem(it jitem, depth int) *Tree {
	switch it.Kind {
	case "u32":
		return &Tree{K: "n", N: w.genU(32)}
	case "u64":
		return &Tree{K: "n", N: w.genU(64)}
	case "bool":
		return &Tree{K: "t", B: w.r.Chance(1, 2)}
	case "str":
		return &Tree{K: "x", Bytes: w.genBytes(it.Max, w.r.Chance(3, 4))}
	case "opaqueVar":
		return &Tree{K: "x", Bytes: w.genBytes(it.Max, false)}
	case "arrU32":
		n := w.r.Intn(5)
		t := &Tree{K: "a"}
		for i := 0; i < n; i++ {
			t.Nums = append(t.Nums, w.genU(32))
		}
		return t
	case "ref":
		return w.genNamed(it.Ref, depth)
	case "union":
		if it.Bool {
			b := w.r.Chance(1, 2)
			arm := it.FArm
			if b {
				arm = it.TArm
			}
			return &Tree{K: "b", B: b, Kids: []*Tree{structOfTrees(w.genItems(arm, depth))}}
		}
		// pick a listed key, or (sometimes) another value
		var d uint64
		arm := it.Dflt
		if len(it.Keys) > 0 && !w.r.Chance(1, 4) {
			i := w.r.Intn(len(it.Keys))
			d = uint64(it.Keys[i])
			arm = it.Arms[i]
		} else {
			for {
				d = uint64(w.r.Intn(12))
				if w.r.Chance(1, 3) {
					d = w.genU(32)
				}
				listed := false
				for i, k := range it.Keys {
					if uint64(k) == d {
						listed = true
						arm = it.Arms[i]
					}
				}
				if !listed {
					arm = it.Dflt
				}
				break
			}
		}
		return &Tree{K: "u", N: d, Kids: []*Tree{structOfTrees(w.genItems(arm, depth))}}
	case "chain":
		body := w.d.Bodies[it.Ref]
		n := w.r.Intn(4)
		if depth > 2 {
			n = w.r.Intn(2)
		}
		t := &Tree{K: "l"}
		for i := 0; i < n; i++ {
			t.Kids = append(t.Kids, &Tree{K: "s", Kids: w.genItems(body[:len(body)-1], depth+1)})
		}
		return t
	}
	die("xdr: gen: unknown kind %s", it.Kind)
	return nil
}

func (w *walker) genNamed(name string, depth int) *Tree {
	body, ok := w.d.Bodies[name]
	if !ok {
		die("xdr: unknown type %s", name)
	}
	if len(body) == 1 && body[0].Field == "" {
		if body[0].Kind == "opaqueFix" {
			n := w.d.ArrayLen[name]
			b := make([]byte, n)
			for i := range b {
				b[i] = byte(w.r.U64())
			}
			return &Tree{K: "x", Bytes: b}
		}
		return w.genItem(body[0], depth)
	}
	if w.d.PtrTypedef[name] || (len(body) == 1 && body[0].Kind == "union") {
		return w.genItem(body[0], depth)
	}
	return &Tree{K: "s", Kids: w.genItems(body, depth)}
}

// ---- generic value -> Go value ----

func (w *walker) fillItems(items []jitem, v reflect.Value, ts []*Tree) {
	if len(items) != len(ts) {
		die("xdr: fill: arity mismatch")
	}
	for i, it := range items {
		w.fillItem(it, v, ts[i])
	}
}

func armTrees(arm []jitem, t *Tree) []*Tree {
	if len(arm) == 1 {
		return []*Tree{t}
	}
	return t.Kids
}

func (w *walker) fillItem(it jitem, v reflect.Value, t *Tree) {
	tv := w.targetOf(v, it)
	switch it.Kind {
	case "u32", "u64":
		tv.SetUint(t.N)
	case "bool":
		tv.SetBool(t.B)
	case "str":
		tv.SetString(string(t.Bytes))
	case "opaqueVar":
		b := make([]byte, len(t.Bytes))
		copy(b, t.Bytes)
		tv.SetBytes(b)
	case "arrU32":
		s := reflect.MakeSlice(tv.Type(), len(t.Nums), len(t.Nums))
		for i, n := range t.Nums {
			s.Index(i).SetUint(n)
		}
		tv.Set(s)
	case "ref":
		w.fillNamed(it.Ref, tv, t)
	case "union":
		if it.Bool {
			tv.SetBool(t.B)
			arm := it.FArm
			if t.B {
				arm = it.TArm
			}
			w.fillItems(arm, v, armTrees(arm, t.Kids[0]))
			return
		}
		tv.SetUint(t.N)
		arm := it.Dflt
		for i, k := range it.Keys {
			if uint64(k) == t.N {
				arm = it.Arms[i]
			}
		}
		w.fillItems(arm, v, armTrees(arm, t.Kids[0]))
	case "chain":
		body := w.d.Bodies[it.Ref]
		cur := tv // pointer field
		for _, e := range t.Kids {
			n := reflect.New(cur.Type().Elem())
			w.fillItems(body[:len(body)-1], n.Elem(), e.Kids)
			cur.Set(n)
			cur = n.Elem().FieldByName(body[len(body)-1].Field)
		}
	default:
		die("xdr: fill: unknown kind %s", it.Kind)
	}
}

func (w *walker) fillNamed(name string, v reflect.Value, t *Tree) {
	body := w.d.Bodies[name]
	if len(body) == 1 && body[0].Field == "" {
		if body[0].Kind == "opaqueFix" {
			reflect.Copy(v, reflect.ValueOf(t.Bytes))
			return
		}
		w.fillItem(body[0], v, t)
		return
	}
	if w.d.PtrTypedef[name] || (len(body) == 1 && body[0].Kind == "union") {
		w.fillItem(body[0], v, t)
		return
	}
	w.fillItems(body, v, t.Kids)
}

// ---- Go value -> generic value ----

func (w *walker) readItems(items []jitem, v reflect.Value) []*Tree {
	var ts []*Tree
	for _, it := range items {
		ts = append(ts, w.readItem(it, v))
	}
	return ts
}

func (w *walker) readItem(it jitem, v reflect.Value) *Tree {
	tv := w.targetOf(v, it)
	switch it.Kind {
	case "u32", "u64":
		return &Tree{K: "n", N: tv.Uint()}
	case "bool":
		return &Tree{K: "t", B: tv.Bool()}
	case "str":
		return &Tree{K: "x", Bytes: []byte(tv.String())}
	case "opaqueVar":
		return &Tree{K: "x", Bytes: tv.Bytes()}
	case "arrU32":
		t := &Tree{K: "a"}
		for i := 0; i < tv.Len(); i++ {
			t.Nums = append(t.Nums, tv.Index(i).Uint())
		}
		return t
	case "ref":
		return w.readNamed(it.Ref, tv)
	case "union":
		if it.Bool {
			arm := it.FArm
			if tv.Bool() {
				arm = it.TArm
			}
			return &Tree{K: "b", B: tv.Bool(), Kids: []*Tree{structOfTrees(w.readItems(arm, v))}}
		}
		arm := it.Dflt
		for i, k := range it.Keys {
			if uint64(k) == tv.Uint() {
				arm = it.Arms[i]
			}
		}
		return &Tree{K: "u", N: tv.Uint(), Kids: []*Tree{structOfTrees(w.readItems(arm, v))}}
	case "chain":
		body := w.d.Bodies[it.Ref]
		t := &Tree{K: "l"}
		cur := tv
		for !cur.IsNil() {
			e := cur.Elem()
			t.Kids = append(t.Kids, &Tree{K: "s", Kids: w.readItems(body[:len(body)-1], e)})
			cur = e.FieldByName(body[len(body)-1].Field)
		}
		return t
	}
	die("xdr: read: unknown kind %s", it.Kind)
	return nil
}

func (w *walker) readNamed(name string, v reflect.Value) *Tree {
	body := w.d.Bodies[name]
	if len(body) == 1 && body[0].Field == "" {
		if body[0].Kind == "opaqueFix" {
			b := make([]byte, v.Len())
			reflect.Copy(reflect.ValueOf(b), v)
			return &Tree{K: "x", Bytes: b}
		}
		return w.readItem(body[0], v)
	}
	if w.d.PtrTypedef[name] || (len(body) == 1 && body[0].Kind == "union") {
		return w.readItem(body[0], v)
	}
	return &Tree{K: "s", Kids: w.readItems(body, v)}
}

// every type that is an argument or result of a procedure, plus the shared building blocks
var xdrTypes = map[string]func() xdr.Xdrable{
	"GETATTR3args": func() xdr.Xdrable { return new(nfstypes.GETATTR3args) }, "GETATTR3res": func() xdr.Xdrable { return new(nfstypes.GETATTR3res) },
	"SETATTR3args": func() xdr.Xdrable { return new(nfstypes.SETATTR3args) }, "SETATTR3res": func() xdr.Xdrable { return new(nfstypes.SETATTR3res) },
	"LOOKUP3args": func() xdr.Xdrable { return new(nfstypes.LOOKUP3args) }, "LOOKUP3res": func() xdr.Xdrable { return new(nfstypes.LOOKUP3res) },
	"ACCESS3args": func() xdr.Xdrable { return new(nfstypes.ACCESS3args) }, "ACCESS3res": func() xdr.Xdrable { return new(nfstypes.ACCESS3res) },
	"READLINK3args": func() xdr.Xdrable { return new(nfstypes.READLINK3args) }, "READLINK3res": func() xdr.Xdrable { return new(nfstypes.READLINK3res) },
	"READ3args": func() xdr.Xdrable { return new(nfstypes.READ3args) }, "READ3res": func() xdr.Xdrable { return new(nfstypes.READ3res) },
	"WRITE3args": func() xdr.Xdrable { return new(nfstypes.WRITE3args) }, "WRITE3res": func() xdr.Xdrable { return new(nfstypes.WRITE3res) },
	"CREATE3args": func() xdr.Xdrable { return new(nfstypes.CREATE3args) }, "CREATE3res": func() xdr.Xdrable { return new(nfstypes.CREATE3res) },
	"MKDIR3args": func() xdr.Xdrable { return new(nfstypes.MKDIR3args) }, "MKDIR3res": func() xdr.Xdrable { return new(nfstypes.MKDIR3res) },
	"SYMLINK3args": func() xdr.Xdrable { return new(nfstypes.SYMLINK3args) }, "SYMLINK3res": func() xdr.Xdrable { return new(nfstypes.SYMLINK3res) },
	"MKNOD3args": func() xdr.Xdrable { return new(nfstypes.MKNOD3args) }, "MKNOD3res": func() xdr.Xdrable { return new(nfstypes.MKNOD3res) },
	"REMOVE3args": func() xdr.Xdrable { return new(nfstypes.REMOVE3args) }, "REMOVE3res": func() xdr.Xdrable { return new(nfstypes.REMOVE3res) },
	"RMDIR3args": func() xdr.Xdrable { return new(nfstypes.RMDIR3args) }, "RMDIR3res": func() xdr.Xdrable { return new(nfstypes.RMDIR3res) },
	"RENAME3args": func() xdr.Xdrable { return new(nfstypes.RENAME3args) }, "RENAME3res": func() xdr.Xdrable { return new(nfstypes.RENAME3res) },
	"LINK3args": func() xdr.Xdrable { return new(nfstypes.LINK3args) }, "LINK3res": func() xdr.Xdrable { return new(nfstypes.LINK3res) },
	"READDIR3args": func() xdr.Xdrable { return new(nfstypes.READDIR3args) }, "READDIR3res": func() xdr.Xdrable { return new(nfstypes.READDIR3res) },
	"READDIRPLUS3args": func() xdr.Xdrable { return new(nfstypes.READDIRPLUS3args) }, "READDIRPLUS3res": func() xdr.Xdrable { return new(nfstypes.READDIRPLUS3res) },
	"FSSTAT3args": func() xdr.Xdrable { return new(nfstypes.FSSTAT3args) }, "FSSTAT3res": func() xdr.Xdrable { return new(nfstypes.FSSTAT3res) },
	"FSINFO3args": func() xdr.Xdrable { return new(nfstypes.FSINFO3args) }, "FSINFO3res": func() xdr.Xdrable { return new(nfstypes.FSINFO3res) },
	"PATHCONF3args": func() xdr.Xdrable { return new(nfstypes.PATHCONF3args) }, "PATHCONF3res": func() xdr.Xdrable { return new(nfstypes.PATHCONF3res) },
	"COMMIT3args": func() xdr.Xdrable { return new(nfstypes.COMMIT3args) }, "COMMIT3res": func() xdr.Xdrable { return new(nfstypes.COMMIT3res) },
	"Dirpath3": func() xdr.Xdrable { return new(nfstypes.Dirpath3) }, "Mountres3": func() xdr.Xdrable { return new(nfstypes.Mountres3) },
	"Mountopt3": func() xdr.Xdrable { return new(nfstypes.Mountopt3) }, "Exportsopt3": func() xdr.Xdrable { return new(nfstypes.Exportsopt3) },
	"Fattr3": func() xdr.Xdrable { return new(nfstypes.Fattr3) }, "Sattr3": func() xdr.Xdrable { return new(nfstypes.Sattr3) },
	"Wcc_data": func() xdr.Xdrable { return new(nfstypes.Wcc_data) }, "Nfs_fh3": func() xdr.Xdrable { return new(nfstypes.Nfs_fh3) },
	"Createhow3": func() xdr.Xdrable { return new(nfstypes.Createhow3) }, "Mknoddata3": func() xdr.Xdrable { return new(nfstypes.Mknoddata3) },
}

func realEncode(v xdr.Xdrable) ([]byte, bool) {
	wr := xdr.MakeWriter(nil)
	v.Xdr(wr)
	if wr.Error() != nil {
		return nil, false
	}
	return wr.WriteBuf(), true
}

func realDecode(mk func() xdr.Xdrable, bs []byte) (v xdr.Xdrable, ok bool) {
	v = mk()
	rd := xdr.MakeReader(bs)
	v.Xdr(rd)
	return v, rd.Error() == nil
}

func hexOr(b []byte) string {
	if len(b) == 0 {
		return "-"
	}
	return hex.EncodeToString(b)
}

func cmdXdr(fs *flag.FlagSet, args []string) {
	seed := fs.Uint64("seed", 1, "seed")
	nvals := fs.Int("values", 200, "structured values per type")
	nmut := fs.Int("mutants", 10, "mutated byte strings per value")
	descPath := fs.String("desc", "", "descriptor JSON written by the translator")
	only := fs.String("type", "", "restrict to one type")
	fs.Parse(args)
	raw, err := os.ReadFile(*descPath)
	if err != nil {
		die("xdr: %v", err)
	}
	d := &xdesc{}
	if err := json.Unmarshal(raw, d); err != nil {
		die("xdr: %v", err)
	}
	var names []string
	for n := range xdrTypes {
		if *only == "" || *only == n {
			names = append(names, n)
		}
	}
	sort.Strings(names)
	root := NewRng(*seed)
	for _, name := range names {
		mk := xdrTypes[name]
		w := &walker{d: d, r: root.Fork()}
		lname := strings.ToLower(name)
		for i := 0; i < *nvals; i++ {
			t := w.genNamed(name, 0)
			v := mk()
			w.fillNamed(name, reflect.ValueOf(v).Elem(), t)
			bs, ok := realEncode(v)
			if !ok {
				emit("xenc %s %s ERR", lname, t.String())
				continue
			}
			emit("xenc %s %s %s", lname, t.String(), hexOr(bs))
			// the real decoder on the real encoding
			v2, ok2 := realDecode(mk, bs)
			if !ok2 {
				emit("xdec %s %s 0 -", lname, hexOr(bs))
			} else {
				emit("xdec %s %s 1 %s", lname, hexOr(bs), w.readNamed(name, reflect.ValueOf(v2).Elem()).String())
			}
			if name == "Mountres3" { // decoding allocates the announced array length up front
				continue
			}
			for m := 0; m < *nmut; m++ {
				mb := make([]byte, len(bs))
				copy(mb, bs)
				switch w.r.Intn(5) {
				case 0: // truncate
					mb = mb[:w.r.Intn(len(mb)+1)]
				case 1: // flip one bit
					if len(mb) > 0 {
						mb[w.r.Intn(len(mb))] ^= 1 << uint(w.r.Intn(8))
					}
				case 2: // overwrite one aligned word with a boundary value
					if len(mb) >= 4 {
						p := 4 * w.r.Intn(len(mb)/4)
						vals := [][]byte{{0, 0, 0, 0}, {0, 0, 0, 1}, {0, 0, 0, 2}, {0xff, 0xff, 0xff, 0xff}, {0, 0, 0, 65}, {0x7f, 0xff, 0xff, 0xff}, {0, 0, 4, 1}}
						copy(mb[p:], vals[w.r.Intn(len(vals))])
					}
				case 3: // append junk
					for k := w.r.Intn(9); k > 0; k-- {
						mb = append(mb, byte(w.r.U64()))
					}
				case 4: // drop one aligned word
					if len(mb) >= 8 {
						p := 4 * w.r.Intn(len(mb)/4)
						mb = append(mb[:p], mb[p+4:]...)
					}
				}
				v3, ok3 := realDecode(mk, mb)
				if !ok3 {
					emit("xdec %s %s 0 -", lname, hexOr(mb))
				} else {
					emit("xdec %s %s 1 %s", lname, hexOr(mb), w.readNamed(name, reflect.ValueOf(v3).Elem()).String())
				}
			}
		}
	}
	// directed probes of the real decoder for malformed-but-accepted messages
	if *only == "" {
		// CREATE3args: empty dir handle, empty name, createmode 7 (not a createmode3 value)
		cr := []byte{0, 0, 0, 0, 0, 0, 0, 0, 0, 0, 0, 7}
		if _, ok := realDecode(xdrTypes["CREATE3args"], cr); ok {
			emit("# FINDING xdr:createhow3-unknown-mode-accepted CREATE3args %s", hex.EncodeToString(cr))
		}
		// Post_op_attr-style boolean with value 2 inside SETATTR3args.guard: handle, sattr3 all unset, guard check = 2 + ctime
		sa := []byte{0, 0, 0, 0, 0, 0, 0, 0, 0, 0, 0, 0, 0, 0, 0, 0, 0, 0, 0, 0, 0, 0, 0, 0, 0, 0, 0, 0, 0, 0, 0, 2, 0, 0, 0, 1, 0, 0, 0, 2}
		if _, ok := realDecode(xdrTypes["SETATTR3args"], sa); ok {
			emit("# FINDING xdr:bool-nonzero-accepted SETATTR3args %s", hex.EncodeToString(sa))
		}
	}
	// (round 19, C16s) the entry lists of READDIR / READDIRPLUS replies are linked lists of any length: lists far longer than
	// the generator's depth, encoded and decoded by the real methods and compared with the RFC descriptors like every value
	if *only == "" {
		w := &walker{d: d, r: root.Fork()}
		for _, n := range []int{1023, 1024, 1025, 1500} {
			var head *nfstypes.Entry3
			for k := n; k >= 1; k-- {
				head = &nfstypes.Entry3{Fileid: nfstypes.Fileid3(k), Name: nfstypes.Filename3(fmt.Sprintf("n%d", k)), Cookie: nfstypes.Cookie3(128 * k), Nextentry: head}
			}
			v := &nfstypes.READDIR3res{Status: nfstypes.NFS3_OK}
			v.Resok.Reply.Entries = head
			v.Resok.Reply.Eof = true
			t := w.readNamed("READDIR3res", reflect.ValueOf(v).Elem())
			bs, ok := realEncode(v)
			if !ok {
				emit("xenc readdir3res %s ERR", t.String())
				continue
			}
			emit("xenc readdir3res %s %s", t.String(), hexOr(bs))
			v2, ok2 := realDecode(xdrTypes["READDIR3res"], bs)
			if !ok2 {
				emit("xdec readdir3res %s 0 -", hexOr(bs))
			} else {
				emit("xdec readdir3res %s 1 %s", hexOr(bs), w.readNamed("READDIR3res", reflect.ValueOf(v2).Elem()).String())
			}
		}
	}

}

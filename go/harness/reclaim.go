package main

// C05: build-then-delete histories.  Each round builds a tree under /top (files of
// every size class, sparse files, holes filled by reads, nested directories,
// renames over existing targets, failing and aborted operations, running out of
// space on a small disk), deletes all of it, waits for the background freeing,
// and then demands that (a) only the root is left, (b) both allocators report
// exactly the free counts of the empty file system, (c) the structure checker
// accepts the image (marked = reachable, nothing half-freed, allocators = bitmaps).
// The rounds together allocate several times the capacity of the disk.

import (
	"time"
	"sync/atomic"
	"encoding/binary"
	"bufio"
	"flag"
	"fmt"
	"os"
	"sort"
	"strings"

	"github.com/mit-pdos/go-nfsd/fstxn"
	"github.com/mit-pdos/go-nfsd/nfstypes"
)

func (s *seqRun) deleteTree(d []byte) {
	di, ok := s.dirs[hx(d)]
	if !ok {
		return
	}
	var names []string
	for n := range di.names {
		names = append(names, n)
	}
	sort.Strings(names)
	for _, n := range names {
		if s.dead {
			return
		}
		ch := di.names[n]
		if o, ok := s.objs[hx(ch)]; ok && o.kind == 2 {
			s.deleteTree(ch)
			s.opRemove("rmdir", d, n)
		} else {
			s.opRemove("remove", d, n)
		}
	}
}

func (s *seqRun) buildOp(top []byte) {
	r := s.r
	pickDir := func() []byte {
		var ks []string
		for k, o := range s.objs {
			if o.kind == 2 && k != hx(s.root()) {
				ks = append(ks, k)
			}
		}
		sort.Strings(ks)
		if len(ks) == 0 {
			return top
		}
		return s.objs[ks[r.Intn(len(ks))]].fh
	}
	pickFile := func() []byte {
		var ks []string
		for k, o := range s.objs {
			if o.kind == 1 {
				ks = append(ks, k)
			}
		}
		sort.Strings(ks)
		if len(ks) == 0 {
			return nil
		}
		return s.objs[ks[r.Intn(len(ks))]].fh
	}
	switch k := r.Intn(100); {
	case k < 14:
		s.opCreate("create", pickDir(), s.shortName(), 0, nil)
	case k < 22:
		s.opCreate("mkdir", pickDir(), s.shortName(), 0, nil)
	case k < 25:
		s.opCreate("symlink", pickDir(), s.shortName(), 0, s.mkData(1+r.Intn(200)))
	case k < 55:
		if f := pickFile(); f != nil {
			// every size class: inside a block, direct, indirect, double-indirect; multi-block
			n := []int{100, 4096, 3 * 4096, 8*4096 + 5, 40 * 4096, 64 * 4096}[r.Intn(6)]
			off := []uint64{0, 100, 7 * 4096, 8 * 4096, (8 + 200) * 4096, (8+512)*4096 - 4096, (8 + 512 + 700) * 4096}[r.Intn(7)]
			s.opWrite(f, off, uint32(n), uint32(r.Intn(3)), s.mkData(n))
		}
	case k < 61:
		if f := pickFile(); f != nil {
			// sparse growth, and shrinking (partial block, to zero, across the indirect boundary)
			sz := []uint64{0, 50, 4096, 8 * 4096, 9*4096 + 1, 2 << 20, (8 + 512 + 40) * 4096}[r.Intn(7)]
			s.opSetattr(f, &sz, timeHow{}, timeHow{})
		}
	case k < 67:
		if f := pickFile(); f != nil {
			// a read of a hole allocates the block it reads
			s.opRead(f, uint64(r.Intn(600))*4096, 8192)
		}
	case k < 80:
		// renames: over an existing target, onto a fresh name, within and across directories (files across, directories within)
		fd := pickDir()
		fn := s.pickName(fd)
		td := pickDir()
		if h := s.handleOf(fd, fn); h != nil {
			if o, ok := s.objs[hx(h)]; ok && o.kind == 2 {
				td = fd
			}
		}
		tn := s.shortName()
		if r.Chance(1, 2) {
			tn = s.pickName(td)
		}
		s.opRename(fd, fn, td, tn)
	case k < 86:
		d := pickDir()
		s.opRemove("remove", d, s.pickName(d))
	case k < 90:
		d := pickDir()
		s.opRemove("rmdir", d, s.pickName(d))
	case k < 93:
		// failing requests: existing name, missing name, oversized write
		d := pickDir()
		s.opCreate("create", d, s.pickName(d), 1, nil)
	case k < 96:
		s.opRemove("remove", pickDir(), "no-such-name")
	default:
		if f := pickFile(); f != nil {
			s.opWrite(f, 0, 4<<20, 2, s.mkData(4<<20))
		}
	}
}

// fillTo consumes free blocks with single-block writes to /filler until exactly k are left.
func (s *seqRun) fillTo(k uint64) bool {
	f := s.handleOf(s.root(), "filler")
	if f == nil {
		f = s.mk("create", s.root(), "filler")
		if f == nil {
			return false
		}
	}
	// append whole blocks; an append may need an index block as well, so approach k from above
	for i := 0; i < 100000 && !s.dead; i++ {
		free := s.freeCounts()[0]
		if free == k {
			return true
		}
		if free < k {
			return false
		}
		sz := s.objs[hx(f)].size
		next := (sz + 4095) / 4096
		need := uint64(1)
		if next == 8 || (next >= 8+512 && (next-8-512)%512 == 0) {
			need = 2 // data block + a new index block
		}
		if next == 8+512 {
			need = 3
		}
		if free-k < need {
			// cannot hit k exactly by appending here: use a second filler
			f2 := s.handleOf(s.root(), "filler2")
			if f2 == nil {
				f2 = s.mk("create", s.root(), "filler2")
				if f2 == nil {
					return false
				}
			}
			sz2 := s.objs[hx(f2)].size
			if (sz2+4095)/4096 >= 8 {
				return false
			}
			s.opWrite(f2, sz2, 4096, 2, s.mkData(4096))
			continue
		}
		s.opWrite(f, next*4096, 4096, 2, s.mkData(4096))
		if s.lastStatus != nfstypes.NFS3_OK {
			return false
		}
	}
	return false
}

// nospcScenarios: every allocation path at the exact boundary of a full disk.  With k = 0, 1, 2
// free blocks: a WRITE that needs a data block and a new index block (block 8 of a file with
// eight direct blocks), one that needs two index blocks and a data block (first double-indirect
// block), MKDIR, SYMLINK and CREATE; each failing request must leave no trace (C09: tree and free
// counts; C10: cached inodes = logical disk), and once space has been freed the same file must be
// writable and must not share a block with anybody (C04/C05: structure checker; read-back).
func (s *seqRun) nospcScenarios(h int) {
	// a multi-block WRITE / a READ of a hole that runs out of space exactly where it needs a new index block
	for _, k := range []uint64{1, 2} {
		for variant := 0; variant < 6 && !s.dead; variant++ {
			tag := fmt.Sprintf("history %d nospc-crossing k=%d variant=%d", h, k, variant)
			a := s.mk("create", s.root(), "a")
			if a == nil {
				return
			}
			first := uint64(8) // the indirect block is needed from block 8 on
			if variant == 2 || variant == 3 || variant == 5 {
				first = 8 + 512 // the double-indirect root and a second-level block from here on
			}
			// variants 0, 2: a WRITE that extends the file; 1, 3: a READ of a hole; 4, 5: a WRITE
			// INSIDE a size set by SETATTR (neither the size nor ShrinkSize changes)
			inside := variant >= 4
			if variant%2 == 0 || inside {
				// WRITE: blocks first-1 (exists) and first (needs the index block(s) and a data block)
				if first == 8 {
					s.opWrite(a, 0, 8*4096, 2, s.mkData(8*4096))
				} else {
					s.opWrite(a, (first-1)*4096, 4096, 2, s.mkData(4096))
				}
			}
			if variant%2 == 1 || inside {
				// a hole inside the file
				sz := (first + 4) * 4096
				s.opSetattr(a, &sz, timeHow{}, timeHow{})
			}
			if !s.fillTo(k) {
				s.deleteTree(s.root())
				continue
			}
			if variant%2 == 0 || inside {
				s.opWrite(a, (first-1)*4096, 2*4096, 2, s.mkData(2*4096))
			} else {
				s.opRead(a, first*4096, 4096)
			}
			s.coherence()
			s.fsckPoint(tag + " after the request that ran out of space")
			s.opRemove("remove", s.root(), "filler")
			s.opRemove("remove", s.root(), "filler2")
			zero := uint64(0)
			s.opSetattr(a, &zero, timeHow{}, timeHow{})
			s.deleteTree(s.root())
			s.fsckPoint(tag + " after delete-all")
		}
	}
	for _, k := range []uint64{1, 0, 2} {
		// variant 2 (round 13, C12m): as variant 0, and the block that /b takes is then made to look like an index block
		// whose first entry points to that block itself; /a is grown over the offset of its failed write (SETATTR allocates
		// nothing) and that never-written block is read: an inode that kept the pointer to the index block it was refused
		// shows /b's bytes there
		for variant := 0; variant < 3 && !s.dead; variant++ {
			tag := fmt.Sprintf("history %d nospc k=%d variant=%d", h, k, variant)
			a := s.mk("create", s.root(), "a")
			b := s.mk("create", s.root(), "b")
			if a == nil || b == nil {
				return
			}
			s.opWrite(a, 0, 8*4096, 2, s.mkData(8*4096)) // eight direct blocks, no index block yet
			if !s.fillTo(k) {
				s.deleteTree(s.root())
				continue
			}
			s.c09 = true
			s.afterOp("prime", false) // reference dump and free counts
			off := uint64(8 * 4096)
			if variant == 1 {
				off = (8 + 512) * 4096
			}
			s.opWrite(a, off, 4096, 2, s.mkData(4096)) // needs 2 (3) blocks
			failedA := s.lastStatus != nfstypes.NFS3_OK
			s.coherenceAfter(failedA)
			s.c09 = false
			// somebody else takes what is left
			// (its first half is zeros: read as an index block it has free slots, so that a file
			// wrongly using this block as its index block gets as far as committing)
			bdata := s.mkData(4096)
			for x := 0; x < 2048; x++ {
				bdata[x] = 0
			}
			s.opWrite(b, 0, 4096, 2, bdata)
			bOk := s.lastStatus == nfstypes.NFS3_OK
			if variant == 2 && bOk {
				if bb := s.bmSnapshot(b).blks; len(bb) > 0 && bb[0] != 0 {
					for x := range bdata {
						bdata[x] |= 1
					}
					binary.LittleEndian.PutUint64(bdata[0:8], bb[0])
					s.opWrite(b, 0, 4096, 2, bdata)
					sz := uint64(9 * 4096)
					s.opSetattr(a, &sz, timeHow{}, timeHow{})
					if s.lastStatus == nfstypes.NFS3_OK {
						var rd nfstypes.READ3res
						if s.guarded("read of the never-written block", func() {
							rd = s.srv.NFSPROC3_READ(nfstypes.READ3args{File: mkfh3(a), Offset: 8 * 4096, Count: 4096})
						}) && rd.Status == nfstypes.NFS3_OK {
							for x, c := range rd.Resok.Data {
								if c != 0 {
									s.oracle("C12", "unwritten-bytes-nonzero", fmt.Sprintf("%s: with %d free blocks a WRITE to /a at offset %d failed=%v; /b then took the last block (number %d) and wrote to it; /a was grown to 9 blocks by SETATTR and a READ of its block 8, which was never written, returns byte %#x at %d (and %d bytes that equal /b's)", tag, k, off, failedA, bb[0], c, x, sameBytes(rd.Resok.Data, bdata)))
									s.oracle("C02", "unwritten-bytes-nonzero", fmt.Sprintf("%s: with %d free blocks a WRITE to /a at offset %d failed=%v; /b then took the last block (number %d) and wrote to it; /a was grown to 9 blocks by SETATTR and a READ of its block 8, which was never written, returns byte %#x at %d (and %d bytes that equal /b's)", tag, k, off, failedA, bb[0], c, x, sameBytes(rd.Resok.Data, bdata)))
									break
								}
							}
						}
					}
				}
			}
			// nothing (or one block) is left now: requests that need a block for a new object
			s.c09 = true
			s.afterOp("prime", false)
			s.opCreate("mkdir", s.root(), "newdir", 0, nil) // needs 1 block for "." and ".."
			s.coherenceAfter(s.lastStatus != nfstypes.NFS3_OK)
			s.opCreate("symlink", s.root(), "newlink", 0, s.mkData(100)) // needs 1 block
			s.coherenceAfter(s.lastStatus != nfstypes.NFS3_OK)
			s.c09 = false
			// space comes back; the file of the failed write is used again
			s.opRemove("remove", s.root(), "filler")
			s.opRemove("remove", s.root(), "filler2")
			s.waitIdle()
			adata := s.mkData(4096)
			s.opWrite(a, off, 4096, 2, adata)
			s.fsckPoint(tag + " after reuse")
			if bOk {
				var rd nfstypes.READ3res
				if s.guarded("readback", func() {
					rd = s.srv.NFSPROC3_READ(nfstypes.READ3args{File: mkfh3(b), Offset: 0, Count: 4096})
				}) && (rd.Status != nfstypes.NFS3_OK || string(rd.Resok.Data) != string(bdata)) {
					s.oracle("C04", "block-shared-between-files", fmt.Sprintf("%s: with %d free blocks a WRITE to /a at offset %d failed=%v; /b then took the last block; after space was freed /a was written at that offset again and /b no longer reads back what was written to it (status %d)", tag, k, off, failedA, rd.Status))
					s.oracle("C02", "read-differs-from-what-was-written", fmt.Sprintf("%s: with %d free blocks a WRITE to /a at offset %d failed=%v; /b then took the last block and was written; after space was freed /a was written at that offset again; a READ of /b (status %d) no longer returns what was written to /b: %d of 4096 bytes differ", tag, k, off, failedA, rd.Status, 4096-sameBytes(rd.Resok.Data, bdata)))
				}
			}
			s.coherence()
			s.deleteTree(s.root())
		}
	}
}

// refusedCommitScenario: a request whose COMMIT the journal refuses (a SYMLINK whose target does
// not fit into the log) on a disk where the numbers it has to give back are nearly the only
// free ones, and another client's WRITE scheduled in the gap between the end of the failed
// transaction and the handler's reply (the observer hook runs it right at "abort-end": the locks
// are free, the handler has not returned).  Whatever the handler still does with its dead
// transaction must not touch what the other client was given meanwhile: allocators = bitmaps
// afterwards (C10; a trace of the failed request, C09), nobody shares a block (C04), everything
// comes back (C05).
func (s *seqRun) refusedCommitScenario(h int) {
	if s.dead {
		return
	}
	tag := fmt.Sprintf("history %d refused-commit", h)
	w := s.mk("create", s.root(), "w")
	z := s.mk("create", s.root(), "z")
	if w == nil || z == nil || !s.fillTo(517) {
		s.deleteTree(s.root())
		return
	}
	wdata := s.mkData(4 * 4096)
	for i := range wdata {
		wdata[i] |= 1 // never all zeros
	}
	fired := false
	old := fstxn.VerifObserver
	fstxn.VerifObserver = func(kind string, op *fstxn.FsTxn, arg uint64) {
		if kind == "abort-end" && !fired {
			fired = true
			fstxn.VerifObserver = old
			s.opWrite(w, 0, 4*4096, 2, wdata) // the other client
			wrote := s.lastStatus == nfstypes.NFS3_OK
			if !wrote {
				fired = false // (reported below)
			}
		}
	}
	before := s.freeCounts()
	s.opCreate("symlink", s.root(), "big", 0, s.mkData(515*4096))
	fstxn.VerifObserver = old
	st := s.lastStatus
	after := s.freeCounts()
	emit("# refused-commit %s: symlink status %d, other client's write ran=%v, free blocks %d -> %d", tag, st, fired, before[0], after[0])
	if st == nfstypes.NFS3_OK || !fired {
		// the log took it (a bigger log?) or nothing was aborted: the scenario does not apply
		s.deleteTree(s.root())
		return
	}
	s.coherenceAfter(true)
	if after[0]+4 != before[0] {
		s.oracle("C09", "refused-commit-free-count", fmt.Sprintf("%s: a SYMLINK whose commit the journal refused (status %d) ran next to a 4-block WRITE of another client; free blocks went from %d to %d instead of %d", tag, st, before[0], after[0], before[0]-4))
	}
	// somebody takes everything that is free now
	for i := 0; i < 12 && !s.dead; i++ {
		zd := s.mkData(50 * 4096)
		s.opWrite(z, uint64(i)*50*4096, 50*4096, 2, zd)
		if s.lastStatus != nfstypes.NFS3_OK {
			break
		}
	}
	var rd nfstypes.READ3res
	if s.guarded("readback", func() {
		rd = s.srv.NFSPROC3_READ(nfstypes.READ3args{File: mkfh3(w), Offset: 0, Count: 4 * 4096})
	}) && (rd.Status != nfstypes.NFS3_OK || string(rd.Resok.Data) != string(wdata)) {
		s.oracle("C04", "block-shared-between-files", fmt.Sprintf("%s: /w was written while a SYMLINK with a refused commit (status %d) was giving its blocks back; after /z took the free space /w no longer reads back what was written to it (status %d)", tag, st, rd.Status))
	}
	s.fsckPoint(tag + " after the free space was taken")
	s.coherence()
	s.deleteTree(s.root())
	s.fsckPoint(tag + " after delete-all")
}

// coherenceAfter: caches = logical disk (C10); after a FAILED request a difference is also a trace
// that request left behind (C09).
func (s *seqRun) coherenceAfter(failed bool) {
	n := s.nOracle
	s.coherence()
	if failed && s.nOracle > n {
		s.oracle("C09", "failed-op-left-cached-state", "after a request that failed with NOSPC the server's cached inodes differ from the logical disk (see the C10 line above): the failed request left a trace that later requests build on")
	}
}

func cmdReclaim(fs *flag.FlagSet, args []string) {
	seed := fs.Uint64("seed", 1, "seed")
	nhist := fs.Int("hists", 3, "histories")
	rounds := fs.Int("rounds", 4, "build-then-delete rounds per history")
	nops := fs.Int("ops", 120, "build operations per round")
	disksz := fs.Uint64("disk", 1700, "disk size (small: running out of space is part of the workload)")
	imgPath := fs.String("imgout", "", "file the disk images go to")
	fs.Parse(args)
	var imgOut func(string)
	if *imgPath != "" {
		f, err := os.Create(*imgPath)
		if err != nil {
			die("imgout: %v", err)
		}
		iw := bufio.NewWriterSize(f, 1<<20)
		defer func() { iw.Flush(); f.Close() }()
		imgOut = func(l string) { iw.WriteString(l); iw.WriteByte('\n') }
	}
	root := NewRng(*seed)
	for h := 0; h < *nhist; h++ {
		sz := *disksz + uint64(h%3)*450
		s := newSeqRun(root.Fork(), sz, h%2 == 0)
		s.imgOut = imgOut
		emit("# history %d disk=%d unstable=%v", h, sz, s.unstable)
		// the empty file system: the root holds "." and ".." in one block
		// (the root directory never shrinks: let it reach its final size of four slots first)
		s.opCreate("mkdir", s.root(), "top", 0, nil)
		s.opCreate("create", s.root(), "other", 0, nil)
		s.opRemove("rmdir", s.root(), "top")
		s.opRemove("remove", s.root(), "other")
		base := s.freeCounts()
		baseDump := s.dumpTree()
		s.fsckPoint("empty file system")
		var allocated uint64
		s.nospcScenarios(h)
		s.refusedCommitScenario(h)
		if after := s.freeCounts(); after != base && !s.dead {
			s.oracle("C05", "space-not-reclaimed", fmt.Sprintf("history %d (disk %d): after the full-disk scenarios and removing everything the allocators report %d free blocks / %d free inodes; the empty file system had %d / %d", h, sz, after[0], after[1], base[0], base[1]))
		}
		// directed: REMOVE (and RENAME over) a file whose truncation is still being finished in the background
		for k := 0; k < 4 && !s.dead; k++ {
			s.opCreate("create", s.root(), "victim", 0, nil)
			s.opCreate("create", s.root(), "other", 0, nil)
			v := s.handleOf(s.root(), "victim")
			if v == nil {
				break
			}
			for j := 0; j < 9; j++ {
				off := uint64(j) * 64 * 4096
				if j == 8 {
					off = (8 + 512 + 30) * 4096
				}
				s.opWrite(v, off, 64*4096, 0, s.mkData(64*4096))
			}
			zero := uint64(k%2) * 4097
			s.opSetattr(v, &zero, timeHow{}, timeHow{}) // too many blocks for one transaction: the shrinker thread takes over
			if k < 2 {
				s.opRemove("remove", s.root(), "victim")
			} else {
				s.opRename(s.root(), "other", s.root(), "victim")
			}
			s.deleteTree(s.root())
			after := s.freeCounts()
			if after != base {
				s.oracle("C05", "space-not-reclaimed", fmt.Sprintf("history %d (disk %d): a %d-block file truncated to %d bytes and then %s while the truncation was still being finished in the background: afterwards the allocators report %d free blocks / %d free inodes; the empty file system had %d / %d",
					h, sz, 9*64, zero, []string{"removed", "replaced by RENAME"}[k/2], after[0], after[1], base[0], base[1]))
			}
			s.fsckPoint(fmt.Sprintf("history %d directed remove-during-truncate %d", h, k))
		}
		s.shrinkerExitScenario(h, sz, base)
		s.dirOverDirScenario(h, sz, base)
		// directed: files of about the size one transaction can free (the estimate that decides between
		// freeing at once and handing over to the background shrinker must cover everything a freed block dirties)
		for k, nblk := range []uint64{240, 260, 300, 400, 480, 506, 507, 520} {
			if s.dead || sz < 2100 {
				break
			}
			s.opCreate("create", s.root(), "medium", 0, nil)
			m := s.handleOf(s.root(), "medium")
			if m == nil {
				break
			}
			okw := true
			for b := uint64(0); b < nblk && okw; b += 60 {
				n := uint64(60)
				if b+n > nblk {
					n = nblk - b
				}
				s.opWrite(m, b*4096, uint32(n*4096), 0, s.mkData(int(n*4096)))
				okw = s.lastStatus == nfstypes.NFS3_OK
			}
			what := "removed"
			if k%2 == 0 {
				s.opRemove("remove", s.root(), "medium")
			} else {
				what = "truncated to 0"
				zero := uint64(0)
				s.opSetattr(m, &zero, timeHow{}, timeHow{})
			}
			mid := s.freeCounts()
			wantBlocks := base[0]
			if mid[0] != wantBlocks && okw {
				s.oracle("C05", "space-not-reclaimed", fmt.Sprintf("history %d (disk %d): a %d-block file %s: afterwards (background freeing finished) the allocators report %d free blocks; the empty file system had %d",
					h, sz, nblk, what, mid[0], base[0]))
			}
			s.fsckPoint(fmt.Sprintf("history %d directed medium file %d %s", h, nblk, what))
			s.deleteTree(s.root())
			if after := s.freeCounts(); after != base {
				s.oracle("C05", "space-not-reclaimed", fmt.Sprintf("history %d (disk %d): after a %d-block file was %s and everything removed the allocators report %d free blocks / %d free inodes; the empty file system had %d / %d",
					h, sz, nblk, what, after[0], after[1], base[0], base[1]))
			}
		}
		for rd := 0; rd < *rounds && !s.dead; rd++ {
			s.opCreate("mkdir", s.root(), "top", 0, nil)
			top := s.handleOf(s.root(), "top")
			if top == nil {
				s.oracle("C05", "cannot-use-reclaimed-space", fmt.Sprintf("round %d: MKDIR /top fails on a file system holding only the root (status %d)", rd, s.lastStatus))
				break
			}
			before := s.freeCounts()
			nospc := 0
			for j := 0; j < *nops && !s.dead; j++ {
				s.buildOp(top)
				if s.lastStatus == nfstypes.NFS3ERR_NOSPC {
					nospc++
					if nospc > 6 {
						break
					}
				}
			}
			full := s.freeCounts()
			allocated += before[0] - full[0]
			if rd%2 == 1 {
				s.fsckPoint(fmt.Sprintf("history %d round %d built", h, rd))
			}
			s.deleteTree(s.root())
			after := s.freeCounts()
			emit("reclaimround history=%d round=%d blocks-in-use-at-peak=%d inodes-in-use-at-peak=%d nospc-replies=%d", h, rd, base[0]-full[0], base[1]-full[1], nospc)
			// (a directory never shrinks and new names go after the last one used, so the root's
			// size is not compared: only that nothing but "." and ".." is left)
			if d := s.dumpTree(); strings.Count(d, "\n") != strings.Count(baseDump, "\n") {
				s.oracle("C05", "delete-all-leaves-objects", fmt.Sprintf("history %d round %d: after removing everything the tree is not empty: %s", h, rd, firstDiff(baseDump, d)))
			}
			if after != base {
				s.oracle("C05", "space-not-reclaimed", fmt.Sprintf("history %d (disk %d) round %d: after removing everything and waiting for background freeing the allocators report %d free blocks / %d free inodes; the empty file system had %d / %d", h, sz, rd, after[0], after[1], base[0], base[1]))
			}
			s.fsckPoint(fmt.Sprintf("history %d round %d delete-all", h, rd))
		}
		emit("reclaimsum history=%d rounds=%d blocks-allocated-in-total=%d data-region-blocks=%d", h, *rounds, allocated, base[0])
		s.close()
		var ks []string
		for k := range s.hist {
			ks = append(ks, k)
		}
		sort.Strings(ks)
		line := "# HIST"
		for _, k := range ks {
			line += fmt.Sprintf(" %s=%d", k, s.hist[k])
		}
		emit("%s", line)
	}
}

func sameBytes(a, b []byte) int {
	n := 0
	for i := range a {
		if i < len(b) && a[i] == b[i] {
			n++
		}
	}
	return n
}

// shrinkerExitScenario (round 13, C05m; model M15): the background thread that finishes a truncation is held right
// after the commit of its LAST transaction — the inode's lock is free, the thread has not yet left — and the file is
// removed in that window (pending again).  Whoever is told "a thread already exists" must not rely on that thread:
// it has had its last look.  Afterwards everything is removed, background freeing finishes, and the free counts must
// be those of the empty file system.
func (s *seqRun) shrinkerExitScenario(h int, sz uint64, base [2]uint64) {
	if s.dead {
		return
	}
	s.opCreate("create", s.root(), "lastlook", 0, nil)
	v := s.handleOf(s.root(), "lastlook")
	if v == nil {
		return
	}
	// 64 real blocks and a sparse size of 2000 blocks: whether a truncation is left to the background is decided by the
	// number of blocks the SIZE change spans, so both truncations below (2000 -> 1000 -> removal) are
	s.opWrite(v, 0, 64*4096, 0, s.mkData(64*4096))
	big := uint64(2000 * 4096)
	s.opSetattr(v, &big, timeHow{}, timeHow{})
	s.waitIdle()
	st := s.srv.VerifFsState()
	inum := inumOf(v)
	gate := make(chan struct{})
	parked := make(chan struct{}, 1)
	var held int32
	old := fstxn.VerifObserver
	fstxn.VerifObserver = func(kind string, op *fstxn.FsTxn, arg uint64) {
		if old != nil {
			old(kind, op, arg)
		}
		if os.Getenv("VERIF_DEBUG") != "" && (kind == "commit-end" || kind == "begin") {
			fmt.Fprintf(os.Stderr, "shrinker-exit: %s gid=%d main=%d\n", kind, curGid(), atomic.LoadUint64(&seqMainGid))
		}
		if kind == "commit-end" && curGid() != atomic.LoadUint64(&seqMainGid) && atomic.LoadInt32(&held) == 0 {
			if os.Getenv("VERIF_DEBUG") != "" {
				fmt.Fprintf(os.Stderr, "shrinker-exit: commit-end gid=%d main=%d pending=%v\n", curGid(), atomic.LoadUint64(&seqMainGid), pendingShrinks(st))
			}
			still := false
			for _, p := range pendingShrinks(st) {
				if p == inum {
					still = true
				}
			}
			if !still && atomic.CompareAndSwapInt32(&held, 0, 1) {
				parked <- struct{}{}
				<-gate
			}
		}
	}
	half := uint64(1000 * 4096)
	s.opSetattr(v, &half, timeHow{}, timeHow{}) // too many blocks for one transaction: a shrinker thread takes over
	inWindow := false
	select {
	case <-parked:
		inWindow = true
	case <-time.After(8 * time.Second):
	}
	if inWindow {
		s.opRemove("remove", s.root(), "lastlook") // the rest of the file: pending again, while the thread is about to exit
	}
	if atomic.CompareAndSwapInt32(&held, 0, 2) || true {
		close(gate)
	}
	fstxn.VerifObserver = old
	s.deleteTree(s.root())
	after := s.freeCounts()
	s.hist["shrinker-exit-window:"+map[bool]string{true: "hit", false: "not-hit"}[inWindow]]++
	if after != base && inWindow {
		s.oracle("C05", "space-not-reclaimed", fmt.Sprintf("history %d (disk %d): a file of 64 blocks and a sparse size of 2000 blocks was truncated to 1000 blocks; the background thread was held right after the commit of its last transaction (lock released, thread not yet gone) and the file was REMOVED in that window; after the thread went on and everything was removed the allocators report %d free blocks / %d free inodes; the empty file system had %d / %d: nobody finished the second truncation",
			h, sz, after[0], after[1], base[0], base[1]))
	}
	s.fsckPoint(fmt.Sprintf("history %d directed remove-while-the-shrinker-exits", h))
}

// dirOverDirScenario (round 15, C05o): directories that lose a sub-directory by RENAME, not by RMDIR — p/x renamed over the
// empty directory p/y (p/y's inode and block are given back by the RENAME), then everything removed bottom-up.  Whatever
// bookkeeping MKDIR / RMDIR keep about sub-directories, the directories removed at the end must give their inode and their
// block back: free counts as before.
func (s *seqRun) dirOverDirScenario(h int, sz uint64, base [2]uint64) {
	if s.dead {
		return
	}
	before := s.freeCounts()
	p := s.mk("mkdir", s.root(), "dod")
	if p == nil {
		return
	}
	x := s.mk("mkdir", p, "x")
	y := s.mk("mkdir", p, "y")
	if x == nil || y == nil {
		s.deleteTree(s.root())
		return
	}
	s.mk("create", x, "f")
	s.opRename(p, "x", p, "y") // over the existing empty directory
	ok := s.lastStatus == nfstypes.NFS3_OK
	s.opRemove("remove", x, "f") // (the directory that was /dod/x keeps its handle under its new name)
	s.opRemove("rmdir", p, "y")
	s.opRemove("rmdir", s.root(), "dod")
	gone := s.lastStatus == nfstypes.NFS3_OK
	after := s.freeCounts()
	if ok && gone && after != before {
		s.oracle("C05", "space-not-reclaimed", fmt.Sprintf("history %d (disk %d): MKDIR /dod, /dod/x, /dod/y; RENAME /dod/x over the empty directory /dod/y; everything removed again (RMDIR /dod answered OK): the allocators report %d free blocks / %d free inodes, before the scenario %d / %d: a removed directory kept its inode and its block",
			h, sz, after[0], after[1], before[0], before[1]))
	}
	s.fsckPoint(fmt.Sprintf("history %d directed directory renamed over a directory", h))
	s.deleteTree(s.root())
}

//go:build verif

package main

// Limits through the back door (C19): the creating procedures take initial attributes, among them a SIZE.  Whatever a
// server does with it — RFC 1813 lets it apply or ignore the size — no object may come to exceed the announced maximum
// file size, and the object must stay readable.  Run on a server of its own (these requests are not part of the
// reference model's vocabulary): CREATE (UNCHECKED and GUARDED), MKDIR and SYMLINK with sizes at and beyond maxfilesize.

import (
	"flag"
	"fmt"

	"github.com/mit-pdos/go-nfsd/nfstypes"
)

func cmdInitAttr(fs *flag.FlagSet, args []string) {
	fs.Parse(args)
	s := newSeqRun(NewRng(1), 20000, true)
	s.sink = func(string) {}
	defer s.close()
	var fi nfstypes.FSINFO3res
	if !s.guarded("fsinfo", func() { fi = s.srv.NFSPROC3_FSINFO(nfstypes.FSINFO3args{Fsroot: mkfh3(s.root())}) }) || fi.Status != nfstypes.NFS3_OK {
		emit("# ORACLE C19 announce-failed FSINFO on the root failed")
		return
	}
	mfs := uint64(fi.Resok.Maxfilesize)
	n := 0
	for _, sz := range []uint64{mfs, mfs + 1, mfs + 4096, 1 << 40, 1 << 62, ^uint64(0)} {
		for _, kind := range []string{"create-unchecked", "create-guarded", "mkdir", "symlink"} {
			n++
			name := nfstypes.Filename3(fmt.Sprintf("init-%d", n))
			where := nfstypes.Diropargs3{Dir: mkfh3(s.root()), Name: name}
			attr := nfstypes.Sattr3{Size: nfstypes.Set_size3{Set_it: true, Size: nfstypes.Size3(sz)}}
			var st nfstypes.Nfsstat3
			var obj nfstypes.Post_op_fh3
			if !s.guarded("initattr "+kind, func() {
				switch kind {
				case "create-unchecked":
					r := s.srv.NFSPROC3_CREATE(nfstypes.CREATE3args{Where: where, How: nfstypes.Createhow3{Mode: nfstypes.UNCHECKED, Obj_attributes: attr}})
					st, obj = r.Status, r.Resok.Obj
				case "create-guarded":
					r := s.srv.NFSPROC3_CREATE(nfstypes.CREATE3args{Where: where, How: nfstypes.Createhow3{Mode: nfstypes.GUARDED, Obj_attributes: attr}})
					st, obj = r.Status, r.Resok.Obj
				case "mkdir":
					r := s.srv.NFSPROC3_MKDIR(nfstypes.MKDIR3args{Where: where, Attributes: attr})
					st, obj = r.Status, r.Resok.Obj
				default:
					r := s.srv.NFSPROC3_SYMLINK(nfstypes.SYMLINK3args{Where: where, Symlink: nfstypes.Symlinkdata3{Symlink_attributes: attr, Symlink_data: nfstypes.Nfspath3("t")}})
					st, obj = r.Status, r.Resok.Obj
				}
			}) {
				emit("# ORACLE C19 limit-request-crashes %s with an initial size of %d (announced maximum file size %d) panics or hangs", kind, sz, mfs)
				return
			}
			emit("initattr %s %d => %d", kind, sz, st)
			if st != nfstypes.NFS3_OK || !obj.Handle_follows {
				continue
			}
			var ga nfstypes.GETATTR3res
			if !s.guarded("initattr getattr", func() { ga = s.srv.NFSPROC3_GETATTR(nfstypes.GETATTR3args{Object: obj.Handle}) }) {
				emit("# ORACLE C19 limit-request-crashes GETATTR of the object that %s with an initial size of %d created panics or hangs", kind, sz)
				return
			}
			if ga.Status == nfstypes.NFS3_OK && kind != "mkdir" && kind != "symlink" && uint64(ga.Resok.Obj_attributes.Size) > mfs {
				emit("# ORACLE C19 beyond-maxfilesize-accepted %s with an initial size of %d was answered NFS3_OK and the file now has size %d; FSINFO announces a maximum file size of %d (SETATTR refuses that size)", kind, sz, uint64(ga.Resok.Obj_attributes.Size), mfs)
			}
			// the object stays readable at its end
			if ga.Status == nfstypes.NFS3_OK && (kind == "create-unchecked" || kind == "create-guarded") {
				size := uint64(ga.Resok.Obj_attributes.Size)
				off := uint64(0)
				if size > 100 {
					off = size - 100
				}
				if !s.guarded("initattr read", func() {
					s.srv.NFSPROC3_READ(nfstypes.READ3args{File: obj.Handle, Offset: nfstypes.Offset3(off), Count: 200})
				}) {
					emit("# ORACLE C19 limit-request-crashes a READ near the end of the file that %s with an initial size of %d created (size now %d) panics or hangs", kind, sz, size)
					return
				}
			}
		}
	}
}

package main

import (
	"fmt"
	"reflect"
	"strings"
	"sync/atomic"
	"unsafe"

	"github.com/mit-pdos/go-nfsd/fh"
	"github.com/mit-pdos/go-nfsd/fstxn"
	"github.com/mit-pdos/go-nfsd/inode"
)

// Directed scenarios: one per behaviour that the random generator reaches
// only rarely (block-map boundaries, cache eviction, inode-number reuse,
// the inputs of every repaired defect).  They go through the same emit path
// as random operations, so the Lean model judges every reply.

type scenario struct {
	name string
	run  func(s *seqRun)
}

func (s *seqRun) root() []byte { return fh.MkRootFh3().Data }

// handleOf returns the handle the generator learned for dir/name.
func (s *seqRun) handleOf(dfh []byte, name string) []byte {
	if d, ok := s.dirs[hx(dfh)]; ok {
		return d.names[name]
	}
	return nil
}

func (s *seqRun) mk(kind string, dfh []byte, name string) []byte {
	s.opCreate(kind, dfh, name, 0, []byte("target"))
	return s.handleOf(dfh, name)
}

// pokeInodeAlloc makes the inode allocator's roving pointer continue at n, so
// that inode-number reuse (normally 32,768 allocations away) happens at once.
// Any pointer value is a legal allocator state.
func (s *seqRun) pokeInodeAlloc(n uint64) {
	a := s.srv.VerifFsState().Ialloc
	f := reflect.ValueOf(a).Elem().FieldByName("next")
	*(*uint64)(unsafe.Pointer(f.UnsafeAddr())) = n
}

func pat(b byte, n int) []byte {
	d := make([]byte, n)
	for i := range d {
		d[i] = b
	}
	return d
}

var scenarios = []scenario{
	{"shrink-then-grow exposes zeros", func(s *seqRun) {
		f := s.mk("create", s.root(), "f")
		s.opWrite(f, 0, 8192, 2, pat(0xab, 8192))
		sz := uint64(100)
		s.opSetattr(f, &sz, timeHow{}, timeHow{})
		sz2 := uint64(4096)
		s.opSetattr(f, &sz2, timeHow{}, timeHow{})
		s.opRead(f, 0, 4096)
		sz3 := uint64(5000)
		s.opSetattr(f, &sz3, timeHow{}, timeHow{})
		s.opRead(f, 4000, 2000)
		s.opWrite(f, 6000, 10, 2, pat(0xcd, 10))
		s.opRead(f, 4090, 3000)
		// shrinking INSIDE the last block (the number of blocks stays the same), then growing:
		// by SETATTR, and by a WRITE beyond the end that leaves a gap
		g := s.mk("create", s.root(), "g")
		s.opWrite(g, 0, 7096, 2, pat(0xe2, 7096))
		sz4 := uint64(5096)
		s.opSetattr(g, &sz4, timeHow{}, timeHow{})
		sz5 := uint64(8000)
		s.opSetattr(g, &sz5, timeHow{}, timeHow{})
		s.opRead(g, 4096, 4096)
		h := s.mk("create", s.root(), "h")
		s.opWrite(h, 0, 2500, 2, pat(0x77, 2500))
		sz6 := uint64(100)
		s.opSetattr(h, &sz6, timeHow{}, timeHow{})
		s.opWrite(h, 3000, 10, 2, pat(0x11, 10))
		s.opRead(h, 0, 4096)
		s.opRestart()
		s.opRead(g, 4096, 4096)
		s.opRead(h, 0, 4096)
		// a sparse file whose SIZE lies in the double-indirect range while its data end in the
		// indirect range: the truncation walks down through a range that has no index block at all
		k := s.mk("create", s.root(), "k")
		s.opWrite(k, 0, 40*4096, 2, pat(0x5a, 40*4096))
		big := uint64(600 * 4096)
		s.opSetattr(k, &big, timeHow{}, timeHow{})
		small := uint64(10 * 4096)
		s.opSetattr(k, &small, timeHow{}, timeHow{})
		mid := uint64(40 * 4096)
		s.opSetattr(k, &mid, timeHow{}, timeHow{})
		s.opRead(k, 12*4096, 28*4096)
		// ... and removed: whoever gets the inode number next starts from nothing
		m := s.mk("create", s.root(), "m")
		s.opWrite(m, 0, 40*4096, 2, pat(0x6b, 40*4096))
		s.opSetattr(m, &big, timeHow{}, timeHow{})
		s.opRemove("remove", s.root(), "m")
		s.pokeInodeAlloc(inumOf(m) - 1)
		n := s.mk("create", s.root(), "n")
		s.opSetattr(n, &mid, timeHow{}, timeHow{})
		s.opRead(n, 0, 40*4096)
	}},
	{"failed rename leaves the source in place", func(s *seqRun) {
		s.mk("create", s.root(), "src")
		s.opRename(s.root(), "src", s.root(), strings.Repeat("q", 200))
		s.opLookup(s.root(), "src")
		s.opRename(s.root(), "src", s.root(), strings.Repeat("q", 113))
		s.opLookup(s.root(), "src")
		s.opRestart()
		s.opLookup(s.root(), "src")
	}},
	{"a refused rename, the old name again, listings", func(s *seqRun) {
		// (round 14, C13n) RENAME removes the old name before it finds that the new one cannot be added; the request fails and
		// its transaction aborts.  Nothing of it may survive: the old name is still there (a second CREATE is refused) and
		// every page size lists each name exactly once, before and after a removal
		d := s.mk("mkdir", s.root(), "frn")
		if d == nil {
			return
		}
		for _, n := range []string{"a", "b", "c"} {
			s.mk("create", d, n)
		}
		s.opRename(d, "a", d, strings.Repeat("q", 113))
		s.opCreate("create", d, "a", 0, nil)
		for _, c := range []uint32{1, 200, 65536} {
			s.opReaddir(d, 0, c)
		}
		for _, c := range []uint32{1, 600, 65536} {
			s.opReaddirplus(d, 0, c, c)
		}
		s.opRemove("remove", d, "a")
		s.opReaddir(d, 0, 65536)
		s.opReaddirplus(d, 0, 65536, 65536)
		s.opLookup(d, "a")
	}},
	{"removed parent directory goes away", func(s *seqRun) {
		a := s.mk("mkdir", s.root(), "a")
		s.mk("mkdir", a, "b")
		s.opRemove("rmdir", a, "b")
		s.opRemove("rmdir", s.root(), "a")
		s.opGetattr(a)
		s.opLookup(a, "b")
	}},
	{"one-entry pages enumerate a directory", func(s *seqRun) {
		d := s.mk("mkdir", s.root(), "d")
		for i := 0; i < 6; i++ {
			s.mk("create", d, fmt.Sprintf("e%d", i))
		}
		s.opRemove("remove", d, "e2")
		for c := uint64(0); c <= 9*128; c += 128 {
			s.opReaddir(d, c, 97)
			s.opReaddirplus(d, c, 9, 4096)
			s.opReaddirplus(d, c, 1000, 197)
		}
		s.opReaddir(d, 0, 0)
		s.opReaddir(d, 0, 65536)
		s.opReaddir(d, 1, 100)
		s.opReaddirplus(d, 130, 100, 1000)
		s.opReaddir(d, 128000, 100)
	}},
	{"name length limit", func(s *seqRun) {
		for _, n := range []int{110, 111, 112, 113, 114, 255, 256} {
			s.opCreate("create", s.root(), strings.Repeat("L", n), 0, nil)
			s.opCreate("mkdir", s.root(), strings.Repeat("M", n), 0, nil)
			s.opCreate("symlink", s.root(), strings.Repeat("S", n), 0, []byte("t"))
			s.opLookup(s.root(), strings.Repeat("L", n))
		}
		s.mk("create", s.root(), "short")
		s.opRename(s.root(), "short", s.root(), strings.Repeat("R", 112))
		s.opRename(s.root(), strings.Repeat("R", 112), s.root(), strings.Repeat("R", 113))
		s.opReaddir(s.root(), 0, 65536)
	}},
	{"stale handles in every procedure", func(s *seqRun) {
		d := s.mk("mkdir", s.root(), "d")
		f := s.mk("create", s.root(), "f")
		l := s.mk("symlink", s.root(), "l")
		s.opRemove("remove", s.root(), "f")
		s.opRemove("remove", s.root(), "l")
		s.opRemove("rmdir", s.root(), "d")
		for _, h := range [][]byte{d, f, l} {
			s.opGetattr(h)
			z := uint64(0)
			s.opSetattr(h, &z, timeHow{}, timeHow{})
			s.opLookup(h, "x")
			s.opAccess(h)
			s.opReadlink(h)
			s.opRead(h, 0, 10)
			s.opWrite(h, 0, 1, 2, []byte{1})
			s.opCreate("create", h, "x", 0, nil)
			s.opCreate("mkdir", h, "x", 0, nil)
			s.opCreate("symlink", h, "x", 0, []byte("t"))
			s.opRemove("remove", h, "x")
			s.opRemove("rmdir", h, "x")
			s.opRename(h, "x", s.root(), "y")
			s.opRename(s.root(), "x", h, "y")
			s.opRename(h, "x", h, "y")
			s.opReaddir(h, 0, 100)
			s.opReaddirplus(h, 0, 100, 1000)
			s.opFsinfo(h)
			s.opPathconf(h)
			s.opCommit(h, 0, 0)
			s.opSimple("mknod", h, "x")
			s.opSimple("fsstat", h, "x")
		}
	}},
	{"inode number reuse keeps old handles stale", func(s *seqRun) {
		a := s.mk("mkdir", s.root(), "a")
		s.mk("create", a, "inside")
		s.opRemove("remove", a, "inside")
		s.opRemove("rmdir", s.root(), "a")
		s.pokeInodeAlloc(inumOf(a) - 1)
		b := s.mk("mkdir", s.root(), "b") // gets a's number, newer generation
		s.mk("create", s.root(), "g")
		s.opGetattr(a)
		s.opGetattr(b)
		s.opLookup(a, ".")
		s.opCreate("create", a, "x", 0, nil)
		s.opRename(s.root(), "g", a, "g2") // stale target directory
		s.opRename(a, "x", s.root(), "g3") // stale source directory
		s.opRename(b, "x", a, "y")         // live and stale handle of one number
		s.opRename(a, "x", b, "y")
		s.mk("create", b, "x") // ... and with both names present (an existing target is relocked and revalidated)
		s.mk("create", b, "y")
		s.opRename(b, "x", a, "y")
		s.opRename(a, "x", b, "y")
		s.opLookup(b, "x")
		s.opLookup(b, "y")
		s.opReaddir(a, 0, 1000)
		s.opRestart()
		s.opGetattr(a)
		s.opGetattr(b)
		s.opLookup(s.root(), "g")
	}},
	{"a directory reusing the number of a removed directory of another parent", func(s *seqRun) {
		// the freed inode stays in the inode cache as an object, with the name cache that was built
		// for it: whoever gets the number next must not see the old "." / ".." / entries
		s.pokeInodeAlloc(50)
		p := s.mk("mkdir", s.root(), "p") // number 51: above the directory that will be reused
		s.pokeInodeAlloc(20)
		a := s.mk("mkdir", p, "a") // number 21
		s.mk("create", a, "x")
		s.opLookup(a, "..")
		s.opLookup(a, "x")
		s.opReaddir(a, 0, 1000) // the name cache of a exists now
		s.opRemove("remove", a, "x")
		s.opRemove("rmdir", p, "a")
		s.pokeInodeAlloc(inumOf(a) - 1)
		b := s.mk("mkdir", s.root(), "b") // takes a's number, in ANOTHER parent
		if s.c10on {
			s.coherence() // before anything aborts on b (an abort drops the cached inode and heals it)
		}
		s.opLookup(b, "..")
		s.opLookup(b, ".")
		s.opLookup(b, "x")
		s.opReaddirplus(b, 0, 1000, 10000)
		s.mk("create", b, "y")
		s.opReaddir(b, 0, 1000)
		s.opLookup(s.root(), "p")
		// ... and the other way round: the old parent numbered below
		q := s.mk("mkdir", s.root(), "q")
		c := s.mk("mkdir", q, "c")
		s.opLookup(c, "..")
		s.opReaddir(c, 0, 1000)
		s.opRemove("rmdir", q, "c")
		s.pokeInodeAlloc(inumOf(c) - 1)
		e := s.mk("mkdir", b, "e") // c's number, now under b
		if s.c10on {
			s.coherence()
		}
		s.opLookup(e, "..")
		s.opReaddirplus(e, 0, 1000, 10000)
	}},
	{"size on directories, removal of directories", func(s *seqRun) {
		d := s.mk("mkdir", s.root(), "d")
		s.mk("create", d, "f")
		z := uint64(0)
		s.opSetattr(d, &z, timeHow{}, timeHow{})
		s.opLookup(d, "f")
		s.opReaddir(d, 0, 1000)
		s.opRemove("remove", s.root(), "d")
		s.opRemove("rmdir", s.root(), "d")
		s.opLookup(d, "f")
		l := s.mk("symlink", s.root(), "l")
		s.opSetattr(l, &z, timeHow{}, timeHow{})
		s.opReadlink(l)
		s.opRemove("rmdir", d, "f")
		s.opRemove("remove", d, "f")
		s.opRemove("rmdir", s.root(), "d")
	}},
	{"hostile arguments", func(s *seqRun) {
		f := s.mk("create", s.root(), "f")
		s.opRemove("remove", s.root(), ".")
		s.opRemove("rmdir", s.root(), "..")
		s.opWrite(f, ^uint64(0)-9, 20, 2, pat(1, 20))
		s.opWrite(f, ^uint64(0), 1, 2, pat(1, 1))
		s.opWrite(f, 0, 100, 2, pat(1, 10))
		s.opWrite(f, inode.MaxFileSize()-5, 10, 2, pat(1, 10))
		s.opWrite(f, inode.MaxFileSize()-10, 10, 2, pat(7, 10))
		s.opRead(f, inode.MaxFileSize()-20, 40)
		s.opGetattr([]byte{1, 2, 3})
		s.opGetattr([]byte{})
		big := uint64(1) << 63
		s.opSetattr(f, &big, timeHow{}, timeHow{})
		mfs := inode.MaxFileSize() + 1
		s.opSetattr(f, &mfs, timeHow{}, timeHow{})
		z := uint64(0)
		s.opSetattr(f, &z, timeHow{}, timeHow{})
		s.opRead(f, 0, 100)
		s.opReaddir(s.root(), 1, 100)
		s.opReaddirplus(s.root(), 127, 100, 1000)
		s.opCommit(f, ^uint64(0), 1)
		d := s.mk("mkdir", s.root(), "d")
		s.opRename(s.root(), "d", d, "x") // a directory into itself
		s.opRename(s.root(), "f", s.root(), ".")
		s.opRename(s.root(), "f", d, "..")
		s.opRename(s.root(), ".", s.root(), "y")
		s.opLookup(s.root(), "d")
		s.opLookup(s.root(), "f")
	}},
	{"overwrite inside existing blocks at every block-map level", func(s *seqRun) {
		// short and long, aligned and unaligned overwrites of data that is already there — in the
		// direct, indirect and double-indirect ranges (first and later second-level blocks) — must
		// change exactly the bytes written
		f := s.mk("create", s.root(), "f")
		blocks := []uint64{0, 3, 7, 8, 13, 8 + 511, 8 + 512, 8 + 512 + 3, 8 + 512 + 511, 8 + 512 + 512, 8 + 512 + 512*2 + 7}
		for _, b := range blocks {
			d := s.mkData(2 * 4096)
			s.opWrite(f, b*4096, uint32(len(d)), 2, d)
		}
		for i, b := range blocks {
			s.opWrite(f, b*4096, 100, uint32(i%3), pat(0x11, 100)) // aligned, short
			s.opWrite(f, b*4096+200, 50, 2, pat(0x22, 50))         // unaligned, short
			s.opWrite(f, b*4096+4000, 200, 2, pat(0x33, 200))      // across the block boundary
			s.opWrite(f, (b+1)*4096, 4095, 2, pat(0x44, 4095))     // aligned, one byte short of a block
			s.opRead(f, b*4096, 2*4096)
		}
		s.opCommit(f, 0, 0)
		s.opRestart()
		for _, b := range blocks {
			s.opRead(f, b*4096, 2*4096)
		}
		// the same for a directory-sized object is covered by the enumeration scenarios
	}},
	{"create reusing the number of a file that is still being freed", func(s *seqRun) {
		// REMOVE of a 1400-block file returns while the shrinker still frees it (three transactions);
		// the inode allocator is pointed at its number, so the next creations take the path of
		// getAlloc that aborts, helps freeing, and starts over — with everything re-checked
		for round := 0; round < 3; round++ {
			f := s.mk("create", s.root(), "huge")
			if f == nil {
				return
			}
			for b := uint64(0); b < 1400; b += 100 {
				s.opWrite(f, b*4096, 100*4096, 0, pat(byte(0xc0+round), 100*4096))
			}
			inum := inumOf(f)
			s.opRemove("remove", s.root(), "huge")
			s.pokeInodeAlloc(inum - 1)
			s.opCreate("create", s.root(), fmt.Sprintf("reuse%d", round), 0, nil)
			s.opCreate("create", s.root(), fmt.Sprintf("reuse%d", round), 0, nil) // exists now
			s.opCreate("mkdir", s.root(), fmt.Sprintf("reusedir%d", round), 0, nil)
			s.opLookup(s.root(), fmt.Sprintf("reuse%d", round))
			s.opReaddir(s.root(), 0, 0xffffffff)
		}
	}},
	{"directory growing across block boundaries, last slots removed", func(s *seqRun) {
		// 32 slots per block: the 31st, 63rd and 95th name open a new block; removing the name in
		// the last slot (and the one before), re-adding, removing everything, removing the directory
		d := s.mk("mkdir", s.root(), "wide")
		var names []string
		for i := 0; i < 97; i++ {
			n := fmt.Sprintf("w%03d", i)
			names = append(names, n)
			s.opCreate("create", d, n, 0, nil)
			if i == 30 || i == 31 || i == 62 || i == 94 {
				s.opGetattr(d)
				s.opRemove("remove", d, n) // the name in the last slot
				s.opGetattr(d)
				s.opReaddir(d, 0, 0xffffffff)
				s.opCreate("create", d, n, 0, nil)
				s.opGetattr(d)
			}
		}
		s.opRestart()
		for i := len(names) - 1; i >= 0; i-- {
			s.opRemove("remove", d, names[i])
			if i == 94 || i == 62 || i == 31 || i == 30 || i == 0 {
				s.opGetattr(d)
				s.opReaddir(d, 0, 0xffffffff)
			}
		}
		s.opRemove("rmdir", s.root(), "wide")
		s.mk("mkdir", s.root(), "wide2") // the number (and whatever it still pointed to) is reused
		s.opCreate("create", s.handleOf(s.root(), "wide2"), "x", 0, nil)
	}},
	{"write straddling the end of file while a truncation is still pending", func(s *seqRun) {
		// a truncation too large for one transaction leaves the inode shrinking (finished in the
		// background, or — just below the journal's capacity — by whoever touches the file next);
		// a WRITE that starts inside the file and ends beyond it must not resurrect the old bytes
		for i, nblk := range []uint64{507, 508, 509, 700} {
			f := s.mk("create", s.root(), fmt.Sprintf("t%d", i))
			for b := uint64(0); b < nblk; b += 64 {
				n := uint64(64)
				if b+n > nblk {
					n = nblk - b
				}
				s.opWrite(f, b*4096, uint32(n*4096), 0, pat(byte(0xb0+i), int(n*4096)))
			}
			sz := uint64(8192)
			s.opSetattr(f, &sz, timeHow{}, timeHow{})
			s.opWrite(f, 8000, 492, 2, pat(0x77, 492)) // [8000, 8492): starts inside, ends beyond
			sz = 16384
			s.opSetattr(f, &sz, timeHow{}, timeHow{})
			s.opRead(f, 4096, 12288)
			sz = 3 * 4096
			s.opSetattr(f, &sz, timeHow{}, timeHow{})
			s.opWrite(f, 20000, 100, 2, pat(0x78, 100)) // beyond the end: a hole in between
			s.opRead(f, 8192, 16384)
		}
	}},
	{"long names and a name cache rebuilt from the directory", func(s *seqRun) {
		// 40 names of 110 bytes (the limit is 112): the per-directory name cache, rebuilt from the
		// directory blocks after any aborted request, must hold every one of them again
		d := s.mk("mkdir", s.root(), "longnames")
		name := func(i int) string { return fmt.Sprintf("f%03d-", i) + strings.Repeat("n", 105) }
		for i := 0; i < 40; i++ {
			s.mk("create", d, name(i))
		}
		s.opLookup(d, "missing") // fails: the transaction is aborted and the cached directory dropped
		for _, i := range []int{0, 20, 36, 37, 38, 39} {
			s.opLookup(d, name(i))
		}
		s.opCreate("create", d, name(39), 1, nil) // GUARDED: exists
		s.opRemove("remove", d, name(38))
		s.opLookup(d, "missing")
		s.opLookup(d, name(38))
		s.opRename(d, name(37), d, name(38))
		s.opReaddir(d, 0, 0xffffffff)
		s.dirScan(d)
		s.opRestart()
		s.opLookup(d, name(39))
		s.opLookup(d, name(38))
		s.opCreate("create", d, name(36), 1, nil)
		s.dirScan(d)
	}},
	{"pages of a directory with names of mixed lengths", func(s *seqRun) {
		// where a page ends depends on the size of the entries; whatever the budgets, the pages
		// together are the directory
		d := s.mk("mkdir", s.root(), "mixed")
		for i := 0; i < 40; i++ {
			if i%2 == 0 {
				s.mk("create", d, fmt.Sprintf("report-of-the-quarter-%02d.final.txt", i))
			} else {
				s.mk("create", d, fmt.Sprintf("f%02d", i))
			}
		}
		s.dirScan(d)
		for _, mc := range []uint32{1269, 1400, 2000, 2600} {
			s.opReaddirplus(d, 0, 0xffffffff, mc)
			s.opReaddirplus(d, 9*128, 0xffffffff, mc)
		}
		for i := 0; i < 40; i += 3 {
			if i%2 == 0 {
				s.opRemove("remove", d, fmt.Sprintf("report-of-the-quarter-%02d.final.txt", i))
			} else {
				s.opRemove("remove", d, fmt.Sprintf("f%02d", i))
			}
		}
		s.dirScan(d)
	}},
	{"more data than count: the surplus never becomes file content", func(s *seqRun) {
		// a WRITE carries count bytes; a request buffer longer than count must leave no trace —
		// not even beyond the new end of file, where a later extension would expose it
		a := s.mk("create", s.root(), "surplus-a")
		s.opWrite(a, 0, 10, 2, pat(0xaa, 100))
		sz := uint64(300)
		s.opSetattr(a, &sz, timeHow{}, timeHow{})
		s.opRead(a, 0, 400)
		b := s.mk("create", s.root(), "surplus-b")
		s.opWrite(b, 1000, 16, 2, pat(0xbb, 600))
		s.opWrite(b, 2000, 8, 2, pat(0x11, 8))
		s.opRead(b, 0, 4096)
		c := s.mk("create", s.root(), "surplus-c")
		s.opWrite(c, 0, 4096+100, 2, pat(0xcc, 3*4096)) // the last block written only partly
		s.opRestart()
		sz = 3 * 4096
		s.opSetattr(c, &sz, timeHow{}, timeHow{})
		s.opRead(c, 4096, 8192)
		s.opWrite(c, 5*4096+7, 4096, 0, pat(0xcd, 2*4096)) // unaligned, crossing a block boundary
		sz = 8 * 4096
		s.opSetattr(c, &sz, timeHow{}, timeHow{})
		s.opRead(c, 5*4096, 3*4096)
	}},
	{"one READ over several holes, then a restart", func(s *seqRun) {
		// a READ fills the holes it crosses; every block it allocates must be recorded in the inode
		// on disk, whichever of the blocks of the request is the last one
		for i, written := range [][]uint64{{2}, {0, 3}, {1}, {8 + 3}, {5, 8 + 512 + 2}} {
			f := s.mk("create", s.root(), fmt.Sprintf("holes%d", i))
			var end uint64
			for _, b := range written {
				s.opWrite(f, b*4096, 4096, 2, pat(byte(0x30+i), 4096))
				if (b+1)*4096 > end {
					end = (b + 1) * 4096
				}
			}
			lo := uint64(0)
			if end > 6*4096 {
				lo = end - 6*4096
			}
			s.opRead(f, lo, uint32(end-lo))
			s.opRestart()
			s.opRead(f, lo, uint32(end-lo))
			s.opGetattr(f)
		}
	}},
	{"block-map boundaries", func(s *seqRun) {
		f := s.mk("create", s.root(), "f")
		for _, off := range []uint64{7*4096 + 100, (8+511)*4096 + 4000, (8+512+511)*4096 + 1, (8 + 512 + 512*3) * 4096} {
			d := s.mkData(3 * 4096)
			s.opWrite(f, off, uint32(len(d)), 2, d)
			s.opRead(f, off-50, 3*4096+100)
		}
		s.opRead(f, 0, 4096) // a hole
		s.opRead(f, (8+512)*4096-100, 200)
		sz := uint64((8+512)*4096 + 17)
		s.opSetattr(f, &sz, timeHow{}, timeHow{})
		s.opRead(f, (8+512)*4096-100, 200)
		sz = (8 + 512 + 600) * 4096
		s.opSetattr(f, &sz, timeHow{}, timeHow{})
		s.opRead(f, (8+512)*4096, 4096)
		s.opRead(f, (8+512+511)*4096, 4096)
		s.opRestart()
		s.opRead(f, 7*4096, 8192)
		s.opRemove("remove", s.root(), "f")
		g := s.mk("create", s.root(), "g")
		s.opRead(g, 0, 100)
		s.opWrite(g, 10000, 5, 2, pat(9, 5))
		s.opRead(g, 0, 10005)
	}},
	{"more objects than the inode cache holds", func(s *seqRun) {
		d := s.mk("mkdir", s.root(), "many")
		var hs [][]byte
		for i := 0; i < 130; i++ {
			h := s.mk("create", d, fmt.Sprintf("f%03d", i))
			if i%7 == 0 {
				s.opWrite(h, 0, 10, 0, pat(byte(i), 10))
			}
			hs = append(hs, h)
		}
		for i := 0; i < 130; i += 5 {
			s.opGetattr(hs[i])
		}
		s.opReaddir(d, 0, 0xffffffff)
		s.opRestart()
		for i := 0; i < 130; i += 9 {
			s.opRead(hs[i], 0, 20)
		}
		for i := 0; i < 130; i += 2 {
			s.opRemove("remove", d, fmt.Sprintf("f%03d", i))
		}
		s.opReaddirplus(d, 0, 0xffffffff, 0xffffffff)
		s.mk("create", d, "reuse-slot")
		s.opReaddir(d, 0, 0xffffffff)
	}},
	{"rename onto the dot entries of a moved directory", func(s *seqRun) {
		// a directory moved to another parent keeps its old ".." (known finding); if RENAME took
		// ".." as a target name it would free that old parent, which still has its own name
		a := s.mk("mkdir", s.root(), "a")
		b := s.mk("mkdir", a, "b")
		s.opRename(a, "b", s.root(), "b")
		s.mk("mkdir", s.root(), "c")
		s.opRename(s.root(), "c", b, "..")
		s.opLookup(s.root(), "a")
		s.opGetattr(a)
		s.opLookup(s.root(), "c")
		s.opRename(s.root(), "c", b, ".")
		s.mk("create", s.root(), "f")
		s.opRename(s.root(), "f", b, "..")
		s.opRename(s.root(), "f", b, ".")
		s.mk("mkdir", s.root(), "x") // would take the number of a freed directory
		s.opLookup(s.root(), "a")
		s.opReaddirplus(s.root(), 0, 1000, 10000)
		s.opReaddirplus(b, 0, 1000, 10000)
	}},
	{"renames over existing targets", func(s *seqRun) {
		a := s.mk("mkdir", s.root(), "a")
		b := s.mk("mkdir", s.root(), "b")
		s.mk("create", a, "f1")
		s.mk("create", b, "f2")
		s.mk("mkdir", a, "d1")
		s.mk("mkdir", b, "d2")
		s.mk("create", s.handleOf(b, "d2"), "inside")
		s.opRename(a, "f1", b, "f2") // file over file
		s.opRename(a, "d1", b, "d2") // directory over non-empty directory
		s.opRename(a, "d1", b, "f2") // directory over file
		s.opRename(b, "f2", a, "d1") // file over directory
		s.opRemove("remove", s.handleOf(b, "d2"), "inside")
		s.opRename(a, "d1", b, "d2") // directory over empty directory
		s.opRename(b, "f2", b, "f2") // onto itself
		s.opRename(b, "d2", a, "moved")
		s.opLookup(s.handleOf(a, "moved"), "..")
		s.opReaddirplus(a, 0, 1000, 10000)
		s.opReaddirplus(b, 0, 1000, 10000)
		// the four inodes in every relative order (directories created after their contents' numbers)
		c := s.mk("mkdir", s.root(), "c")
		s.mk("create", b, "p")
		s.mk("create", c, "q")
		s.mk("create", a, "late")     // larger number than c and its file
		s.opRename(c, "q", a, "late") // source directory above target directory
		s.mk("create", c, "q2")
		s.opRename(a, "late", c, "q2") // and back
		s.mk("create", s.root(), "top")
		s.opRename(c, "q2", s.root(), "top")
		s.opRename(s.root(), "top", b, "p")
		// a directory whose number is above those of the files in it (as after inode reuse)
		s.mk("create", s.root(), "x1")
		s.mk("create", s.root(), "x2")
		s.mk("create", s.root(), "x3")
		hi := s.mk("mkdir", s.root(), "hi")
		s.opRename(s.root(), "x1", hi, "x1")
		s.opRename(s.root(), "x2", hi, "x2")
		s.opRename(s.root(), "x3", hi, "x3")
		s.opRename(hi, "x1", hi, "x2") // three inodes: directory, source, target (source < target < directory)
		s.opRename(hi, "x3", hi, "x2") // source > target
		s.opLookup(hi, "x2")
		s.opRemove("remove", hi, "x2") // child below parent: ordered relock
		s.mk("create", s.root(), "y1")
		lo := s.mk("mkdir", s.root(), "lo")
		s.opRename(s.root(), "y1", lo, "y1")
		s.opRename(hi, "x2", lo, "y1")
	}},
	{"cross-directory renames over an existing target, the four inodes in all 24 orders", func(s *seqRun) {
		// ranks of (source directory, source, target directory, target) among the four numbers
		var perms [][4]int
		var rec func(cur []int, used [4]bool)
		rec = func(cur []int, used [4]bool) {
			if len(cur) == 4 {
				perms = append(perms, [4]int{cur[0], cur[1], cur[2], cur[3]})
				return
			}
			for v := 0; v < 4; v++ {
				if !used[v] {
					u := used
					u[v] = true
					rec(append(append([]int{}, cur...), v), u)
				}
			}
		}
		rec(nil, [4]bool{})
		for pi, r := range perms {
			base := uint64(300 + 10*pi)
			s.pokeInodeAlloc(base + uint64(r[0]))
			fd := s.mk("mkdir", s.root(), fmt.Sprintf("s%02d", pi))
			s.pokeInodeAlloc(base + uint64(r[2]))
			td := s.mk("mkdir", s.root(), fmt.Sprintf("t%02d", pi))
			if fd == nil || td == nil {
				return
			}
			s.pokeInodeAlloc(base + uint64(r[1]))
			s.mk("create", fd, "x")
			s.pokeInodeAlloc(base + uint64(r[3]))
			s.mk("create", td, "g")
			s.opRename(fd, "x", td, "g")
			s.opLookup(td, "g")
		}
	}},
	{"the gap in getShrink: another client's request while a WRITE helps the shrinker", func(s *seqRun) {
		// WRITE and SETATTR give the file's lock back to help a pending truncation (getShrink: lock,
		// see the shrink, abort, DoShrink, lock again).  Whatever another client does in between must
		// be seen when the lock is taken again: the handle may have died (variant A), the file may be
		// shrinking once more (variant B).  Background shrinkers are held at the start of their first
		// transaction (a legal schedule), so the truncations stay pending; the other client's requests
		// are issued from the observer hook of the WRITE's own goroutine.
		gate := make(chan struct{})
		var gateOpen int32
		old := fstxn.VerifObserver
		var hook func(kind string)
		fstxn.VerifObserver = func(kind string, op *fstxn.FsTxn, arg uint64) {
			if kind == "begin" && curGid() != atomic.LoadUint64(&seqMainGid) && atomic.LoadInt32(&gateOpen) == 0 {
				<-gate
			}
			if old != nil {
				old(kind, op, arg)
			}
			if h := hook; h != nil && curGid() == atomic.LoadUint64(&seqMainGid) {
				h(kind)
			}
		}
		defer func() {
			if atomic.CompareAndSwapInt32(&gateOpen, 0, 1) {
				close(gate)
			}
			fstxn.VerifObserver = old
		}()
		blk := func(n uint64) *uint64 { v := n * 4096; return &v }
		pending := func(h []byte) bool {
			for _, p := range pendingShrinks(s.srv.VerifFsState()) {
				if p == inumOf(h) {
					return true
				}
			}
			return false
		}
		// variant B: the file is truncated AGAIN after the WRITE has helped the first truncation to its end
		f := s.mk("create", s.root(), "gapB")
		s.opWrite(f, 600*4096, 4096, 2, pat(0x41, 4096))
		s.opSetattr(f, blk(1600), timeHow{}, timeHow{})
		s.opSetattr(f, blk(1000), timeHow{}, timeHow{}) // deferred to the (held) shrinker
		if s.dead || !pending(f) {
			return
		}
		aborted, fired := false, false
		hook = func(kind string) {
			if kind == "abort-end" {
				aborted = true
			}
			if kind == "acq-req" && aborted && !fired && !pending(f) {
				fired = true
				hook = nil
				main := atomic.LoadUint64(&seqMainGid)
				s.opSetattr(f, blk(400), timeHow{}, timeHow{}) // the other client: pending again
				atomic.StoreUint64(&seqMainGid, main)
			}
		}
		s.opWrite(f, 800*4096, 1, 2, []byte{0x42})
		hook = nil
		s.opRead(f, 600*4096, 4096)
		s.opGetattr(f)
		// variant A: the file is removed and its number reused while the WRITE helps the shrinker
		g := s.mk("create", s.root(), "gapA")
		s.opWrite(g, 0, 4096, 2, pat(0x43, 4096))
		s.opSetattr(g, blk(1400), timeHow{}, timeHow{})
		s.opSetattr(g, blk(700), timeHow{}, timeHow{}) // deferred
		if s.dead || !pending(g) {
			return
		}
		fired = false
		var n []byte
		hook = func(kind string) {
			if kind == "abort-end" && !fired {
				fired = true
				hook = nil
				main := atomic.LoadUint64(&seqMainGid)
				s.opRemove("remove", s.root(), "gapA")
				if atomic.CompareAndSwapInt32(&gateOpen, 0, 1) {
					close(gate) // the shrinkers run: the removed file's blocks and inode are given back
				}
				s.waitIdle()
				s.pokeInodeAlloc(inumOf(g) - 1)
				n = s.mk("create", s.root(), "gapA-new")
				if n != nil {
					s.opWrite(n, 0, 4096, 2, pat(0x44, 4096))
				}
				atomic.StoreUint64(&seqMainGid, main)
			}
		}
		s.opWrite(g, 0, 4096, 2, pat(0x45, 4096)) // through the handle that died meanwhile
		hook = nil
		if n != nil {
			s.opRead(n, 0, 4096)
		}
	}},
	{"another client's request inside the abort of a failing request", func(s *seqRun) {
		// (round 14, C09n) RENAME a/x -> b/<113 bytes> removes "x" from a's cached directory before it finds that the new
		// name cannot be added; it fails and aborts.  The abort gives the locks back one by one: once a's lock is free another
		// client may get in, while the failing request is still inside its abort.  What that client sees must be the state
		// before the RENAME — CREATE a/x is refused (EXIST) — so the cached inodes the failing request changed must be
		// forgotten BEFORE its locks are given back.  The other client's request is issued from the hook at the first lock
		// release AFTER a's (the order of the releases is not fixed: the round is repeated until that happened, at most 8 times).
		old := fstxn.VerifObserver
		var hook func(kind string, arg uint64)
		fstxn.VerifObserver = func(kind string, op *fstxn.FsTxn, arg uint64) {
			if old != nil {
				old(kind, op, arg)
			}
			if h := hook; h != nil && curGid() == atomic.LoadUint64(&seqMainGid) {
				h(kind, arg)
			}
		}
		defer func() { fstxn.VerifObserver = old }()
		inWindow := 0
		for round := 0; round < 8 && inWindow < 2 && !s.dead; round++ {
			a := s.mk("mkdir", s.root(), fmt.Sprintf("abA%d", round))
			b := s.mk("mkdir", s.root(), fmt.Sprintf("abB%d", round))
			if a == nil || b == nil {
				return
			}
			s.mk("create", a, "x")
			s.mk("create", a, "y")
			aborted, aFree, fired := false, false, false
			other := func() {
				fired = true
				hook = nil
				main := atomic.LoadUint64(&seqMainGid)
				// (the failing request still holds locks: no tree dumps or images from inside its abort)
				c09, due, inl := s.c09, s.fsckDue, s.inline
				s.c09, s.fsckDue, s.inline = false, false, true
				s.opCreate("create", a, "x", 0, nil) // the other client
				s.opLookup(a, "x")
				s.c09, s.fsckDue, s.inline = c09, due, inl
				atomic.StoreUint64(&seqMainGid, main)
			}
			hook = func(kind string, arg uint64) {
				switch {
				case kind == "abort":
					aborted = true
				case kind == "rel" && aborted && !fired && aFree:
					inWindow++
					other() // a's lock is free, the lock of `arg` is about to be released, the abort is not over
				case kind == "rel" && aborted && arg == inumOf(a):
					aFree = true // (the event precedes the release itself: act at the next event)
				case kind == "abort-end" && aborted && !fired:
					other()
				}
			}
			s.opRename(a, "x", b, strings.Repeat("n", 113))
			hook = nil
			s.opLookup(a, "x")
			s.opReaddir(a, 0, 65536)
			s.opRemove("remove", a, "x")
			s.opReaddir(a, 0, 65536)
		}
		s.hist[fmt.Sprintf("in-abort-window:%d", inWindow)]++
	}},
	{"a WRITE at the end of a file whose truncation is still pending", func(s *seqRun) {
		// (round 13, C03m) SETATTR to 0 of a large file is acknowledged with the freeing left to the background shrinker, which is
		// held at the start of its first transaction (a legal schedule).  The file's old blocks are still mapped.  A WRITE of
		// 100 bytes at offset 0 — the block-aligned end of the file — must not land in the old block 0: after growing the
		// file again the bytes behind the 100 written are zeros in every sequential order of the requests.
		gate := make(chan struct{})
		var gateOpen int32
		old := fstxn.VerifObserver
		fstxn.VerifObserver = func(kind string, op *fstxn.FsTxn, arg uint64) {
			if kind == "begin" && curGid() != atomic.LoadUint64(&seqMainGid) && atomic.LoadInt32(&gateOpen) == 0 {
				<-gate
			}
			if old != nil {
				old(kind, op, arg)
			}
		}
		defer func() {
			if atomic.CompareAndSwapInt32(&gateOpen, 0, 1) {
				close(gate)
			}
			fstxn.VerifObserver = old
		}()
		blk := func(n uint64) *uint64 { v := n * 4096; return &v }
		for _, cnt := range []uint32{100, 4096 + 17} {
			f := s.mk("create", s.root(), fmt.Sprintf("endw%d", cnt))
			if f == nil {
				return
			}
			s.opWrite(f, 0, 2*4096, 2, pat(0xaa, 2*4096))
			s.opSetattr(f, blk(1600), timeHow{}, timeHow{})
			s.opSetattr(f, blk(0), timeHow{}, timeHow{}) // deferred to the (held) shrinker
			s.opWrite(f, 0, cnt, 2, pat(0x42, int(cnt)))
			s.opSetattr(f, blk(3), timeHow{}, timeHow{})
			s.opRead(f, 0, 3*4096)
			s.opGetattr(f)
		}
	}},
	{"unstable writes, commit, restart", func(s *seqRun) {
		f := s.mk("create", s.root(), "u")
		s.opWrite(f, 0, 5000, 0, s.mkData(5000))
		s.opWrite(f, 5000, 100, 1, s.mkData(100))
		s.opRead(f, 0, 6000)
		s.opCommit(f, 0, 5100)
		s.opCommit(f, 0, 6000)
		s.opWrite(f, 100, 50, 0, s.mkData(50))
		s.opRestart()
		s.opRead(f, 0, 6000)
	}},
}

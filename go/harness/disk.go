package main

import (
	"sync"
)

const BlockSize = 4096

// SparseDisk is an in-memory disk.Disk that stores only blocks that were
// written, so that large or numerous disks cost nothing.  Optionally layered
// over a read-only base image.
type SparseDisk struct {
	mu   sync.Mutex
	sz   uint64
	base map[uint64][]byte
	blks map[uint64][]byte
}

func NewSparseDisk(sz uint64) *SparseDisk {
	return &SparseDisk{sz: sz, blks: make(map[uint64][]byte)}
}

// NewOverlay returns a copy-on-write disk over the given image.
func NewOverlay(sz uint64, base map[uint64][]byte) *SparseDisk {
	return &SparseDisk{sz: sz, base: base, blks: make(map[uint64][]byte)}
}

func (d *SparseDisk) get(a uint64) []byte {
	if b, ok := d.blks[a]; ok {
		return b
	}
	if d.base != nil {
		if b, ok := d.base[a]; ok {
			return b
		}
	}
	return nil
}

func (d *SparseDisk) Read(a uint64) []byte {
	if a >= d.sz {
		panic("SparseDisk: out-of-bounds read")
	}
	d.mu.Lock()
	defer d.mu.Unlock()
	r := make([]byte, BlockSize)
	if b := d.get(a); b != nil {
		copy(r, b)
	}
	return r
}

func (d *SparseDisk) ReadTo(a uint64, b []byte) {
	copy(b, d.Read(a))
}

func (d *SparseDisk) Write(a uint64, v []byte) {
	if a >= d.sz {
		panic("SparseDisk: out-of-bounds write")
	}
	if len(v) != BlockSize {
		panic("SparseDisk: short block")
	}
	c := make([]byte, BlockSize)
	copy(c, v)
	d.mu.Lock()
	d.blks[a] = c
	d.mu.Unlock()
}

func (d *SparseDisk) Size() uint64 { return d.sz }
func (d *SparseDisk) Barrier()     {}
func (d *SparseDisk) Close()       {}

// Snapshot returns the current content (merged with the base) as an image.
func (d *SparseDisk) Snapshot() map[uint64][]byte {
	d.mu.Lock()
	defer d.mu.Unlock()
	m := make(map[uint64][]byte, len(d.blks)+len(d.base))
	for a, b := range d.base {
		m[a] = b
	}
	for a, b := range d.blks {
		m[a] = b
	}
	return m
}

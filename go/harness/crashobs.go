package main

// crashobs: what a reply REVEALED to another client must survive a crash.
//
// One client changes a directory step by step (CREATE, MKDIR, SYMLINK, RENAME of
// numbered names, each acknowledged with stable semantics) while two other clients
// look the names up all the time (LOOKUP and READDIRPLUS).  The disk is slow on the
// log header, so a transaction stays "appended to the log in memory but not on disk"
// for a while.  Every reply that shows a name is stamped with the disk trace position
// at which it was received; the server crashes right there with none of the
// un-barriered writes on disk, the REAL code recovers, and the recovered server must
// still have that name with the same handle: a handle that was handed out denotes its
// object for ever (C08), and a transaction's changes are visible to others only when
// they can no longer be lost (C03, C07).

import (
	"bytes"
	"flag"
	"fmt"
	"sort"
	"sync"
	"sync/atomic"
	"time"

	"github.com/mit-pdos/go-nfsd/fh"
	"github.com/mit-pdos/go-nfsd/nfs"
	"github.com/mit-pdos/go-nfsd/nfstypes"
)

func cmdCrashObs(fs *flag.FlagSet, args []string) {
	seed := fs.Uint64("seed", 1, "seed")
	nwl := fs.Int("workloads", 3, "workloads")
	steps := fs.Int("steps", 30, "changes per workload")
	disksz := fs.Uint64("disk", 20000, "disk size")
	prop := fs.String("prop", "C08", "property the oracle lines are labelled with")
	fs.Parse(args)
	root := NewRng(*seed)
	for w := 0; w < *nwl; w++ {
		crashObsOne(*prop, w, *seed, root.Fork(), *steps, *disksz)
	}
}

type nameObs struct {
	pos int
	h   []byte
	how string
}

func crashObsOne(prop string, w int, seed uint64, r *Rng, steps int, disksz uint64) {
	rec := NewRecDisk(disksz)
	rec.slow = func(a uint64) {
		if a == 0 {
			time.Sleep(300 * time.Microsecond)
		}
	}
	var srv *nfs.Nfs
	if !guardedCall(func() { srv = nfs.MakeNfs(rec) }) {
		emit("# ORACLE %s server-does-not-start crashobs workload %d (seed %d)", prop, w, seed)
		return
	}
	rootfh := fh.MkRootFh3()
	name := func(i int) nfstypes.Filename3 { return nfstypes.Filename3(fmt.Sprintf("o%03d", i)) }
	var mu sync.Mutex
	first := map[int]nameObs{} // step -> earliest reply that showed its name
	var hi int32               // highest step seen so far
	var stop int32
	var wg sync.WaitGroup
	nrep := 0
	note := func(i int, p int, h []byte, how string) {
		mu.Lock()
		nrep++
		if o, ok := first[i]; !ok || p < o.pos {
			first[i] = nameObs{pos: p, h: append([]byte(nil), h...), how: how}
		}
		mu.Unlock()
		for {
			c := atomic.LoadInt32(&hi)
			if int32(i) <= c || atomic.CompareAndSwapInt32(&hi, c, int32(i)) {
				break
			}
		}
	}
	for g := 0; g < 2; g++ {
		wg.Add(1)
		g := g
		go func() {
			defer wg.Done()
			defer func() { recover() }()
			for atomic.LoadInt32(&stop) == 0 {
				next := int(atomic.LoadInt32(&hi)) + 1
				if g == 0 {
					rep := srv.NFSPROC3_LOOKUP(nfstypes.LOOKUP3args{What: nfstypes.Diropargs3{Dir: rootfh, Name: name(next)}})
					p := rec.pos()
					if rep.Status == nfstypes.NFS3_OK {
						note(next, p, rep.Resok.Object.Data, "LOOKUP")
					}
				} else {
					rep := srv.NFSPROC3_READDIRPLUS(nfstypes.READDIRPLUS3args{Dir: rootfh, Dircount: 1 << 20, Maxcount: 1 << 20})
					p := rec.pos()
					if rep.Status == nfstypes.NFS3_OK {
						for e := rep.Resok.Reply.Entries; e != nil; e = e.Nextentry {
							var i int
							if n, _ := fmt.Sscanf(string(e.Name), "o%03d", &i); n == 1 && e.Name_handle.Handle_follows {
								mu.Lock()
								_, seen := first[i]
								mu.Unlock()
								if !seen {
									note(i, p, e.Name_handle.Handle.Data, "READDIRPLUS")
								}
							}
						}
					}
				}
			}
		}()
	}
	kinds := make([]int, steps+1)
	okRun := guardedCall(func() {
		for i := 1; i <= steps; i++ {
			where := nfstypes.Diropargs3{Dir: rootfh, Name: name(i)}
			k := r.Intn(4)
			kinds[i] = k
			switch k {
			case 0:
				srv.NFSPROC3_CREATE(nfstypes.CREATE3args{Where: where})
			case 1:
				srv.NFSPROC3_MKDIR(nfstypes.MKDIR3args{Where: where})
			case 2:
				srv.NFSPROC3_SYMLINK(nfstypes.SYMLINK3args{Where: where, Symlink: nfstypes.Symlinkdata3{Symlink_data: "target"}})
			case 3:
				// made under another name (not one the readers look for), then renamed into place
				tmp := nfstypes.Diropargs3{Dir: rootfh, Name: nfstypes.Filename3(fmt.Sprintf("t%03d", i))}
				srv.NFSPROC3_CREATE(nfstypes.CREATE3args{Where: tmp})
				srv.NFSPROC3_RENAME(nfstypes.RENAME3args{From: tmp, To: where})
			}
			time.Sleep(200 * time.Microsecond) // lets the readers have the directory's lock between two steps
		}
	})
	atomic.StoreInt32(&stop, 1)
	wg.Wait()
	if !okRun {
		emit("# ORACLE %s request-did-not-return crashobs workload %d (seed %d): a creation next to concurrent LOOKUP/READDIRPLUS panicked or hung", prop, w, seed)
		return
	}
	guardedCall(func() { srv.ShutdownNfs() })
	rec.mu.Lock()
	events := rec.events
	rec.mu.Unlock()
	var is []int
	for i := range first {
		is = append(is, i)
	}
	sort.Ints(is)
	checked := 0
	kindName := []string{"CREATE", "MKDIR", "SYMLINK", "CREATE+RENAME"}
	for _, i := range is {
		o := first[i]
		img := buildImage(events, o.pos, nil, true)
		var rs *nfs.Nfs
		var rep nfstypes.LOOKUP3res
		if !guardedCall(func() {
			rs = nfs.MakeNfs(NewOverlay(disksz, img))
			rep = rs.NFSPROC3_LOOKUP(nfstypes.LOOKUP3args{What: nfstypes.Diropargs3{Dir: rootfh, Name: name(i)}})
		}) {
			emit("# ORACLE %s recovery-crashed crashobs workload %d (seed %d): recovery from the image at crash point %d panicked or hung", prop, w, seed, o.pos)
			continue
		}
		checked++
		bad := ""
		if rep.Status != nfstypes.NFS3_OK {
			bad = fmt.Sprintf("the recovered server answers LOOKUP of that name with status %d", rep.Status)
		} else if !bytes.Equal(rep.Resok.Object.Data, o.h) {
			bad = fmt.Sprintf("the recovered server has that name with handle %s", hx(rep.Resok.Object.Data))
		}
		guardedCall(func() { rs.ShutdownNfs() })
		if bad != "" {
			emit("# ORACLE %s revealed-object-lost crashobs workload %d (seed %d): a %s reply received after %d of %d disk events showed name %s (made by %s) with handle %s; the server crashed right then (un-barriered writes lost) and %s: a reply handed out a handle for a change that was not durable", prop, w, seed, o.how, o.pos, len(events), name(i), kindName[kinds[i]], hx(o.h), bad)
			break
		}
	}
	emit("crashobs workload=%d events=%d replies-showing-a-name=%d names-seen=%d of %d checked=%d", w, len(events), nrep, len(is), steps, checked)
}

//go:build verif

package main

// Allocation-discipline correspondence (model M8b): several real alloctxn.AllocTxn transactions open at the same time
// on the allocators and the journal of a real server, interleaved step by step: AllocBlock / AllocINum, FreeBlock /
// FreeINum, commit (PreCommit, CommitWait(true), PostCommit), abort (PostAbort).  After every step the in-memory
// allocator (private bitmap, by reflection) and the bitmap on the logical disk (read through the journal) are written
// out over the range of numbers the workload uses; the Lean driver `drv atxn` replays the steps on Model/AllocTxn and
// compares.  A freed block must read as zeros once the freeing transaction has committed.

import (
	"flag"
	"fmt"

	"github.com/mit-pdos/go-journal/addr"
	"github.com/mit-pdos/go-journal/alloc"
	"github.com/mit-pdos/go-journal/common"

	"github.com/mit-pdos/go-nfsd/alloctxn"
	"github.com/mit-pdos/go-nfsd/fstxn"
	"github.com/mit-pdos/go-nfsd/nfs"
)

func bitsOf(bm []byte, lo, hi uint64) string {
	b := make([]byte, 0, hi-lo)
	for n := lo; n < hi; n++ {
		if bm[n/8]&(1<<(n%8)) != 0 {
			b = append(b, '1')
		} else {
			b = append(b, '0')
		}
	}
	return string(b)
}

func diskBits(st *fstxn.FsState, start uint64, lo, hi uint64) string {
	b := make([]byte, 0, hi-lo)
	for n := lo; n < hi; n++ {
		blk := st.Txn.Load(addr.MkAddr(start+n/common.NBITBLOCK, 0), common.NBITBLOCK).Data
		m := n % common.NBITBLOCK
		if blk[m/8]&(1<<(m%8)) != 0 {
			b = append(b, '1')
		} else {
			b = append(b, '0')
		}
	}
	return string(b)
}

func cmdAtxn(fs *flag.FlagSet, args []string) {
	seed := fs.Uint64("seed", 1, "seed")
	ncase := fs.Int("cases", 8, "servers")
	nops := fs.Int("ops", 200, "steps per server")
	fs.Parse(args)
	root := NewRng(*seed)
	for c := 0; c < *ncase; c++ {
		r := root.Fork()
		sz := uint64(1560 + r.Intn(80))
		srv := nfs.MakeNfs(NewSparseDisk(sz))
		st := srv.VerifFsState()
		sup := st.Super
		type kind struct {
			tag    string
			a      *alloc.Alloc
			start  uint64
			lo, hi uint64
		}
		kinds := []kind{
			{"b", st.Balloc, uint64(sup.BitmapBlockStart()), uint64(sup.DataStart()), sz},
			{"i", st.Ialloc, uint64(sup.BitmapInodeStart()), 0, 48},
		}
		for _, k := range kinds {
			emit("ainit %s %d %d %s %s", k.tag, k.lo, k.hi, bitsOf(peekBitmap(k.a), k.lo, k.hi), diskBits(st, k.start, k.lo, k.hi))
		}
		const ntx = 4
		var tx [ntx]*alloctxn.AllocTxn
		// numbers in use (committed) that no open transaction is freeing, per kind
		used := map[string][]uint64{}
		allocd := [ntx]map[string][]uint64{}
		freed := [ntx]map[string][]uint64{}
		open := func(t int) {
			if tx[t] == nil {
				tx[t] = alloctxn.Begin(sup, st.Txn, st.Balloc, st.Ialloc)
				allocd[t] = map[string][]uint64{}
				freed[t] = map[string][]uint64{}
			}
		}
		state := func() {
			for _, k := range kinds {
				emit("astate %s %s %s", k.tag, bitsOf(peekBitmap(k.a), k.lo, k.hi), diskBits(st, k.start, k.lo, k.hi))
			}
		}
		dead := false
		for i := 0; i < *nops && !dead; i++ {
			t := r.Intn(ntx)
			open(t)
			k := kinds[r.Intn(2)]
			if !guardedCall(func() {
				x := r.Intn(10)
				if c%3 == 2 && x >= 4 && x < 6 && r.Chance(2, 3) {
					x = 0 // allocation-heavy: the allocator runs full
				}
				switch {
				case x < 4:
					var n uint64
					if k.tag == "b" {
						n = uint64(tx[t].AllocBlock())
					} else {
						n = uint64(tx[t].AllocINum())
						if n >= k.hi { // outside the window that is compared: give it back at once through the allocator
							st.Ialloc.FreeNum(n)
							emit("# inode number %d outside the window", n)
							return
						}
					}
					emit("aalloc %s %d => %d", k.tag, t, n)
					if n != 0 {
						allocd[t][k.tag] = append(allocd[t][k.tag], n)
					}
				case x < 6:
					u := used[k.tag]
					if len(u) == 0 {
						return
					}
					j := r.Intn(len(u))
					n := u[j]
					used[k.tag] = append(u[:j:j], u[j+1:]...)
					if k.tag == "b" {
						tx[t].FreeBlock(common.Bnum(n))
					} else {
						tx[t].FreeINum(common.Inum(n))
					}
					freed[t][k.tag] = append(freed[t][k.tag], n)
					emit("afree %s %d %d", k.tag, t, n)
				case x < 9:
					tx[t].PreCommit()
					// between PreCommit and the journal's commit nothing of the transaction is visible to others yet — in
					// particular the numbers it frees are not available: their zero images and free bits are in its private buffers
					emit("aprecommit %d", t)
					state()
					ok := tx[t].Op.CommitWait(true)
					if ok {
						tx[t].PostCommit()
						emit("acommit %d", t)
						for _, kk := range kinds {
							used[kk.tag] = append(used[kk.tag], allocd[t][kk.tag]...)
						}
						for _, n := range freed[t]["b"] {
							z := 1
							if !allZero(st.Txn.Load(addr.MkAddr(n, 0), common.NBITBLOCK).Data) {
								z = 0
							}
							emit("afreedzero %d %d", n, z)
						}
					} else {
						tx[t].PostAbort()
						emit("aabort %d", t)
						for _, kk := range kinds {
							used[kk.tag] = append(used[kk.tag], freed[t][kk.tag]...)
						}
					}
					tx[t] = nil
				default:
					tx[t].PostAbort()
					emit("aabort %d", t)
					for _, kk := range kinds {
						used[kk.tag] = append(used[kk.tag], freed[t][kk.tag]...)
					}
					tx[t] = nil
				}
			}) {
				emit("apanic")
				dead = true
			}
			if !dead {
				state()
			}
		}
		guardedCall(func() { srv.ShutdownNfs() })
	}
	_ = fmt.Sprintf
}

package main

import (
	"encoding/json"
	"flag"
	"os"
	"reflect"
	"sort"

	"github.com/mit-pdos/go-nfsd/nfstypes"
	"github.com/zeldovich/go-rpcgen/xdr"
)

// recorder implements both handler interfaces and records which method the
// registration table dispatched to.
type recorder struct {
	called string
	status nfstypes.Nfsstat3 // stamped into every NFS result: two dispatches can be told apart
}

func (r *recorder) NFSPROC3_NULL() { r.called = "NFSPROC3_NULL" }
func (r *recorder) NFSPROC3_GETATTR(a nfstypes.GETATTR3args) (res nfstypes.GETATTR3res) {
	r.called = "NFSPROC3_GETATTR"
	res.Status = r.status
	return
}
func (r *recorder) NFSPROC3_SETATTR(a nfstypes.SETATTR3args) (res nfstypes.SETATTR3res) {
	r.called = "NFSPROC3_SETATTR"
	res.Status = r.status
	return
}
func (r *recorder) NFSPROC3_LOOKUP(a nfstypes.LOOKUP3args) (res nfstypes.LOOKUP3res) {
	r.called = "NFSPROC3_LOOKUP"
	res.Status = r.status
	return
}
func (r *recorder) NFSPROC3_ACCESS(a nfstypes.ACCESS3args) (res nfstypes.ACCESS3res) {
	r.called = "NFSPROC3_ACCESS"
	res.Status = r.status
	return
}
func (r *recorder) NFSPROC3_READLINK(a nfstypes.READLINK3args) (res nfstypes.READLINK3res) {
	r.called = "NFSPROC3_READLINK"
	res.Status = r.status
	return
}
func (r *recorder) NFSPROC3_READ(a nfstypes.READ3args) (res nfstypes.READ3res) {
	r.called = "NFSPROC3_READ"
	res.Status = r.status
	return
}
func (r *recorder) NFSPROC3_WRITE(a nfstypes.WRITE3args) (res nfstypes.WRITE3res) {
	r.called = "NFSPROC3_WRITE"
	res.Status = r.status
	return
}
func (r *recorder) NFSPROC3_CREATE(a nfstypes.CREATE3args) (res nfstypes.CREATE3res) {
	r.called = "NFSPROC3_CREATE"
	res.Status = r.status
	return
}
func (r *recorder) NFSPROC3_MKDIR(a nfstypes.MKDIR3args) (res nfstypes.MKDIR3res) {
	r.called = "NFSPROC3_MKDIR"
	res.Status = r.status
	return
}
func (r *recorder) NFSPROC3_SYMLINK(a nfstypes.SYMLINK3args) (res nfstypes.SYMLINK3res) {
	r.called = "NFSPROC3_SYMLINK"
	res.Status = r.status
	return
}
func (r *recorder) NFSPROC3_MKNOD(a nfstypes.MKNOD3args) (res nfstypes.MKNOD3res) {
	r.called = "NFSPROC3_MKNOD"
	res.Status = r.status
	return
}
func (r *recorder) NFSPROC3_REMOVE(a nfstypes.REMOVE3args) (res nfstypes.REMOVE3res) {
	r.called = "NFSPROC3_REMOVE"
	res.Status = r.status
	return
}
func (r *recorder) NFSPROC3_RMDIR(a nfstypes.RMDIR3args) (res nfstypes.RMDIR3res) {
	r.called = "NFSPROC3_RMDIR"
	res.Status = r.status
	return
}
func (r *recorder) NFSPROC3_RENAME(a nfstypes.RENAME3args) (res nfstypes.RENAME3res) {
	r.called = "NFSPROC3_RENAME"
	res.Status = r.status
	return
}
func (r *recorder) NFSPROC3_LINK(a nfstypes.LINK3args) (res nfstypes.LINK3res) {
	r.called = "NFSPROC3_LINK"
	res.Status = r.status
	return
}
func (r *recorder) NFSPROC3_READDIR(a nfstypes.READDIR3args) (res nfstypes.READDIR3res) {
	r.called = "NFSPROC3_READDIR"
	res.Status = r.status
	return
}
func (r *recorder) NFSPROC3_READDIRPLUS(a nfstypes.READDIRPLUS3args) (res nfstypes.READDIRPLUS3res) {
	r.called = "NFSPROC3_READDIRPLUS"
	res.Status = r.status
	return
}
func (r *recorder) NFSPROC3_FSSTAT(a nfstypes.FSSTAT3args) (res nfstypes.FSSTAT3res) {
	r.called = "NFSPROC3_FSSTAT"
	res.Status = r.status
	return
}
func (r *recorder) NFSPROC3_FSINFO(a nfstypes.FSINFO3args) (res nfstypes.FSINFO3res) {
	r.called = "NFSPROC3_FSINFO"
	res.Status = r.status
	return
}
func (r *recorder) NFSPROC3_PATHCONF(a nfstypes.PATHCONF3args) (res nfstypes.PATHCONF3res) {
	r.called = "NFSPROC3_PATHCONF"
	res.Status = r.status
	return
}
func (r *recorder) NFSPROC3_COMMIT(a nfstypes.COMMIT3args) (res nfstypes.COMMIT3res) {
	r.called = "NFSPROC3_COMMIT"
	res.Status = r.status
	return
}
func (r *recorder) MOUNTPROC3_NULL() { r.called = "MOUNTPROC3_NULL" }
func (r *recorder) MOUNTPROC3_MNT(a nfstypes.Dirpath3) (res nfstypes.Mountres3) {
	r.called = "MOUNTPROC3_MNT"
	return
}
func (r *recorder) MOUNTPROC3_DUMP() (res nfstypes.Mountopt3) { r.called = "MOUNTPROC3_DUMP"; return }
func (r *recorder) MOUNTPROC3_UMNT(a nfstypes.Dirpath3)       { r.called = "MOUNTPROC3_UMNT" }
func (r *recorder) MOUNTPROC3_UMNTALL()                       { r.called = "MOUNTPROC3_UMNTALL" }
func (r *recorder) MOUNTPROC3_EXPORT() (res nfstypes.Exportsopt3) {
	r.called = "MOUNTPROC3_EXPORT"
	return
}

// cmdDispatch calls every registered handler of both tables with an (empty but
// well-formed) argument message and prints which method was reached:
//
//	disp <prog> <vers> <proc> <method reached> <decode ok>
func cmdDispatch(fs *flag.FlagSet, args []string) {
	descPath := fs.String("desc", "", "descriptor JSON (RFC transcription): also deliver TRUNCATED argument messages")
	seed := fs.Uint64("seed", 1, "seed")
	fs.Parse(args)
	r := &recorder{}
	regs := append(nfstypes.NFS_PROGRAM_NFS_V3_regs(r), nfstypes.MOUNT_PROGRAM_MOUNT_V3_regs(r)...)
	sort.SliceStable(regs, func(i, j int) bool {
		if regs[i].Prog != regs[j].Prog {
			return regs[i].Prog < regs[j].Prog
		}
		return regs[i].Proc < regs[j].Proc
	})
	for _, g := range regs {
		r.called = "-"
		// 512 zero bytes decode as any argument type (empty handles, names, zero numbers)
		_, err := g.Handler(xdr.MakeReader(make([]byte, 512)))
		ok := 1
		if err != nil {
			ok = 0
		}
		emit("disp %d %d %d %s %d", g.Prog, g.Vers, g.Proc, r.called, ok)
	}
	// a reply object belongs to ONE request: the RPC server encodes the result after the wrapper has returned, while
	// other requests are being dispatched (one goroutine per request, all sharing one wrapper).  Dispatch A, encode its
	// result, dispatch B with a different outcome, encode A's result again: the bytes must be the same.
	//	dispr <prog> <vers> <proc> <encoding of A's result before B> <after B>
	for _, g := range regs {
		if g.Prog != 100003 || g.Proc == 0 {
			continue
		}
		r.status = nfstypes.NFS3ERR_PERM
		resA, errA := g.Handler(xdr.MakeReader(make([]byte, 512)))
		if errA != nil || resA == nil {
			continue
		}
		before, _ := realEncode(resA)
		before = append([]byte(nil), before...)
		for k := 0; k < 3; k++ { // (a pool may hand the object out again only on a later call)
			r.status = nfstypes.NFS3ERR_NOENT
			g.Handler(xdr.MakeReader(make([]byte, 512)))
		}
		after, _ := realEncode(resA)
		emit("dispr %d %d %d %s %s", g.Prog, g.Vers, g.Proc, hexOr(before), hexOr(after))
	}
	r.status = 0
	if *descPath == "" {
		return
	}
	// a message cut short must never reach the handler: for every procedure with arguments,
	// proper prefixes of real encodings of generated argument values
	//	dispt <prog> <vers> <proc> <bytes> <method reached or -> <decode ok>
	raw, err := os.ReadFile(*descPath)
	if err != nil {
		die("dispatch: %v", err)
	}
	d := &xdesc{}
	if err := json.Unmarshal(raw, d); err != nil {
		die("dispatch: %v", err)
	}
	w := &walker{d: d, r: NewRng(*seed)}
	for _, g := range regs {
		tn, ok := procArgType[g.Prog][g.Proc]
		if !ok {
			continue
		}
		for i := 0; i < 4; i++ {
			t := w.genNamed(tn, 0)
			v := xdrTypes[tn]()
			w.fillNamed(tn, reflect.ValueOf(v).Elem(), t)
			bs, encOk := realEncode(v)
			if !encOk || len(bs) == 0 || len(bs) > 4096 {
				continue
			}
			cuts := map[int]bool{0: true, 1: true, len(bs) / 2: true, len(bs) - 1: true, len(bs) - 4: true}
			var cs []int
			for c := range cuts {
				if c >= 0 && c < len(bs) {
					cs = append(cs, c)
				}
			}
			sort.Ints(cs)
			for _, c := range append(cs, len(bs)) { // the whole message last: it must be accepted
				r.called = "-"
				_, err := g.Handler(xdr.MakeReader(append([]byte(nil), bs[:c]...)))
				dok := 1
				if err != nil {
					dok = 0
				}
				emit("dispt %d %d %d %s %s %d", g.Prog, g.Vers, g.Proc, hexOr(bs[:c]), r.called, dok)
			}
		}
	}
}

package main

// Crash runs for the two small servers (C17 simple, C18 kvs): the same recipe as
// `crash` — record every disk write and barrier of a real run, cut the disk at
// every point (with and without the un-barriered writes), let the REAL code
// recover, and demand that what it serves equals the state after a prefix of the
// acknowledged operations, all of each operation or none of it.

import (
	"bytes"
	"crypto/sha1"
	"flag"
	"fmt"
	"sort"
	"strings"
	"sync"
	"sync/atomic"
	"time"

	"github.com/mit-pdos/go-nfsd/kvs"
	"github.com/mit-pdos/go-nfsd/nfstypes"
	"github.com/mit-pdos/go-nfsd/simple"
)

type smallOp struct {
	start, ret int
	acked      bool
	text       string
}

// checkPrefixStates: the shared oracle.  dumps[k] = state after k operations.
func checkPrefixStates(prop, what string, events []recEvent, ops []smallOp, dumps []string, cps []cp, recoverDump func(img map[uint64][]byte) (string, bool)) (checked int, distinct int) {
	seen := map[int]bool{}
	for _, c := range cps {
		img := buildImage(events, c.p, c.keep, c.dropAll)
		kmin, kmax := 0, 0
		for i, o := range ops {
			if o.acked && o.ret <= c.p && dumps[i+1] != dumps[i] {
				kmin = i + 1
			}
			if o.start <= c.p {
				kmax = i + 1
			}
		}
		got, ok := recoverDump(img)
		checked++
		if !ok {
			emit("# ORACLE %s recovery-crashed %s: recovery from the image at crash point %d (%s) panicked or hung", prop, what, c.p, c.desc)
			continue
		}
		match := -1
		for k := kmax; k >= kmin; k-- {
			if dumps[k] == got {
				match = k
				break
			}
		}
		if match >= 0 {
			seen[match] = true
			continue
		}
		other := -1
		for k := range dumps {
			if dumps[k] == got {
				other = k
			}
		}
		desc, key := "equals no prefix state: an operation is visible in part", "partial-state"
		if other >= 0 && other < kmin {
			desc, key = fmt.Sprintf("equals the state after %d operations: operation %d [%s], acknowledged before the crash, is lost", other, kmin-1, trunc(ops[kmin-1].text)), "acknowledged-operation-lost"
		} else if other > kmax {
			desc, key = fmt.Sprintf("equals the state after %d operations although only %d had started", other, kmax), "future-state"
		}
		emit("# ORACLE %s %s %s: crash after %d of %d disk events (%s): the recovered state %s; allowed: the state after k operations, %d <= k <= %d; %s", prop, key, what, c.p, len(events), c.desc, desc, kmin, kmax, firstDiff(dumps[kmin], got))
	}
	return checked, len(seen)
}

func guardedCall(f func()) (ok bool) {
	done := make(chan bool, 1)
	go func() {
		defer func() {
			if r := recover(); r != nil {
				done <- false
			}
		}()
		f()
		done <- true
	}()
	select {
	case ok = <-done:
		return ok
	case <-afterSeconds(20):
		return false
	}
}

func cmdCrashKv(fs *flag.FlagSet, args []string) {
	seed := fs.Uint64("seed", 1, "seed")
	nwl := fs.Int("workloads", 3, "workloads")
	nops := fs.Int("ops", 40, "multi-puts per workload")
	maxImages := fs.Int("images", 300, "crash images per workload")
	fs.Parse(args)
	root := NewRng(*seed)
	const disksz, kvsz = 4000, 3000
	for w := 0; w < *nwl; w++ {
		r := root.Fork()
		rec := NewRecDisk(disksz)
		store := kvs.MkKVS(rec, kvsz)
		// a small key universe so that puts overlap; boundary keys included
		keys := []uint64{513, 514, 515, 600, 601, 1000, 2000, 2998, 2999}
		state := map[uint64]string{}
		dump := func(get func(k uint64) ([]byte, bool)) (string, bool) {
			var parts []string
			for _, k := range keys {
				v, ok := get(k)
				if !ok {
					return "", false
				}
				parts = append(parts, fmt.Sprintf("%d=%x", k, sha1.Sum(v)))
			}
			return strings.Join(parts, " "), true
		}
		zero := make([]byte, 4096)
		refDump := func() string {
			d, _ := dump(func(k uint64) ([]byte, bool) {
				if v, ok := state[k]; ok {
					return []byte(v), true
				}
				return zero, true
			})
			return d
		}
		var ops []smallOp
		dumps := []string{refDump()}
		p0 := rec.pos()
		ctr := 0
		// every other workload runs next to a client whose puts are too big for the log: they are
		// refused, change nothing and write nothing, so the reference is the same — but whatever
		// the journal does when it refuses must not cost an acknowledged put of somebody else its
		// durability
		var stopNoise chan bool
		var noiseWg sync.WaitGroup
		var refused, accepted int64
		if w%2 == 1 {
			stopNoise = make(chan bool)
			// several of them: they queue on the journal's lock, so one of them runs (and is
			// refused) right after every commit of the client under test
			for g := 0; g < 4; g++ {
				noiseWg.Add(1)
				go func() {
					defer noiseWg.Done()
					var big []kvs.KVPair
					junk := make([]byte, 4096)
					for k := uint64(0); k < 512; k++ { // one more than a transaction holds
						big = append(big, kvs.KVPair{Key: 1200 + k, Val: junk})
					}
					for {
						select {
						case <-stopNoise:
							return
						default:
						}
						ok := true
						guardedCall(func() { ok = store.MultiPut(big) })
						if ok {
							atomic.AddInt64(&accepted, 1)
						} else {
							atomic.AddInt64(&refused, 1)
						}
					}
				}()
			}
		}
		for i := 0; i < *nops; i++ {
			n := 1 + r.Intn(5)
			if r.Chance(1, 8) {
				n = 1 + r.Intn(len(keys)) // large overlapping put
			}
			var pairs []kvs.KVPair
			var txt []string
			for j := 0; j < n; j++ {
				k := keys[r.Intn(len(keys))]
				ctr++
				v := make([]byte, 4096)
				for x := range v {
					v[x] = byte(ctr + x*3)
				}
				pairs = append(pairs, kvs.KVPair{Key: k, Val: v})
				txt = append(txt, fmt.Sprintf("%d:%d", k, ctr))
			}
			start := rec.pos()
			ok := false
			good := guardedCall(func() { ok = store.MultiPut(pairs) })
			ret := rec.pos()
			if good && ok {
				for _, p := range pairs {
					state[p.Key] = string(p.Val) // a later pair for the same key wins
				}
			}
			ops = append(ops, smallOp{start: start, ret: ret, acked: good && ok, text: "multiput " + strings.Join(txt, ",")})
			dumps = append(dumps, refDump())
		}
		if stopNoise != nil {
			close(stopNoise)
			noiseWg.Wait()
			emit("# kv workload %d ran next to %d refused oversized puts", w, refused)
			if accepted > 0 {
				emit("# ORACLE C18 oversized-put-accepted a MultiPut of 600 pairs (more than the log holds) returned true %d times", accepted)
			}
		}
		store.Delete()
		rec.mu.Lock()
		events := rec.events
		rec.mu.Unlock()
		emit("# kv workload %d ops=%d disk-events=%d", w, len(ops), len(events))
		for i, o := range ops {
			emit("# op %d [%d,%d] acked=%v %s", i, o.start, o.ret, o.acked, trunc(o.text))
		}
		emitWalTrace(events, disksz)
		cps, total := crashPoints(events, p0, 0, 1<<30, *maxImages, root)
		cps = append([]cp{{p: p0, desc: "right after start-up, all-pending-written"}, {p: p0, dropAll: true, desc: "right after start-up, no-pending-written"}}, cps...)
		checked, distinct := checkPrefixStates("C18", fmt.Sprintf("kvs workload %d (seed %d)", w, *seed), events, ops, dumps, cps, func(img map[uint64][]byte) (string, bool) {
			var st *kvs.KVS
			if !guardedCall(func() { st = kvs.MkKVS(NewOverlay(disksz, img), kvsz) }) {
				return "", false
			}
			defer st.Delete()
			okAll := true
			d, ok := dump(func(k uint64) ([]byte, bool) {
				var p *kvs.KVPair
				if !guardedCall(func() { p, _ = st.Get(k) }) {
					okAll = false
					return nil, false
				}
				return p.Val, true
			})
			return d, ok && okAll
		})
		emit("crashsum workload=%d events=%d crashpoints=%d checked=%d distinct-recovered-states=%d", w, len(events), total, checked, distinct)
		observedCrashKv(w, *seed, disksz, kvsz)
	}
}

func cmdCrashSimple(fs *flag.FlagSet, args []string) {
	seed := fs.Uint64("seed", 1, "seed")
	nwl := fs.Int("workloads", 3, "workloads")
	nops := fs.Int("ops", 50, "operations per workload")
	maxImages := fs.Int("images", 300, "crash images per workload")
	fs.Parse(args)
	root := NewRng(*seed)
	const disksz = 2000
	files := []uint64{2, 3, 4, 31}
	fhOf := func(i uint64) nfstypes.Nfs_fh3 { return nfstypes.Nfs_fh3{Data: le64b(i)} }
	dumpSrv := func(srv *simple.Nfs) (string, bool) {
		var parts []string
		for _, f := range files {
			var ga nfstypes.GETATTR3res
			var rd nfstypes.READ3res
			if !guardedCall(func() {
				ga = srv.NFSPROC3_GETATTR(nfstypes.GETATTR3args{Object: fhOf(f)})
				rd = srv.NFSPROC3_READ(nfstypes.READ3args{File: fhOf(f), Offset: 0, Count: 4096})
			}) {
				return "", false
			}
			parts = append(parts, fmt.Sprintf("%d:%d:%d:%d:%x", f, ga.Status, ga.Resok.Obj_attributes.Size, rd.Status, sha1.Sum(rd.Resok.Data)))
		}
		sort.Strings(parts)
		return strings.Join(parts, " "), true
	}
	for w := 0; w < *nwl; w++ {
		r := root.Fork()
		rec := NewRecDisk(disksz)
		srv := simple.MakeNfs(rec)
		p0 := rec.pos()
		var ops []smallOp
		d0, _ := dumpSrv(srv)
		dumps := []string{d0}
		sizes := map[uint64]uint64{}
		for i := 0; i < *nops; i++ {
			f := files[r.Intn(len(files))]
			start := rec.pos()
			var st nfstypes.Nfsstat3
			text := ""
			good := false
			if r.Chance(3, 4) {
				// writes at or below the current size (holes are refused), up to the 4096-byte limit
				off := uint64(0)
				if sizes[f] > 0 {
					off = uint64(r.Intn(int(sizes[f]) + 1))
				}
				n := 1 + r.Intn(1200)
				if off+uint64(n) > 4096 {
					n = int(4096 - off)
				}
				data := make([]byte, n)
				for x := range data {
					data[x] = byte(i*7 + x)
				}
				text = fmt.Sprintf("write %d %d %d", f, off, n)
				good = guardedCall(func() {
					st = srv.NFSPROC3_WRITE(nfstypes.WRITE3args{File: fhOf(f), Offset: nfstypes.Offset3(off), Count: nfstypes.Count3(n), Stable: nfstypes.Stable_how(r.Intn(3)), Data: data}).Status
				})
				if good && st == 0 && off+uint64(n) > sizes[f] {
					sizes[f] = off + uint64(n)
				}
			} else {
				sz := uint64(r.Intn(4097))
				text = fmt.Sprintf("setattr %d %d", f, sz)
				var a nfstypes.SETATTR3args
				a.Object = fhOf(f)
				a.New_attributes.Size = nfstypes.Set_size3{Set_it: true, Size: nfstypes.Size3(sz)}
				good = guardedCall(func() { st = srv.NFSPROC3_SETATTR(a).Status })
				if good && st == 0 {
					sizes[f] = sz
				}
			}
			ret := rec.pos()
			ops = append(ops, smallOp{start: start, ret: ret, acked: good && st == 0, text: fmt.Sprintf("%s => %d", text, st)})
			d, _ := dumpSrv(srv)
			dumps = append(dumps, d)
		}
		rec.mu.Lock()
		events := rec.events
		rec.mu.Unlock()
		emit("# simple workload %d ops=%d disk-events=%d", w, len(ops), len(events))
		for i, o := range ops {
			emit("# op %d [%d,%d] acked=%v %s", i, o.start, o.ret, o.acked, o.text)
		}
		emitWalTrace(events, disksz)
		cps, total := crashPoints(events, p0, 0, 1<<30, *maxImages, root)
		// the point right after start-up (nothing but MakeNfs and reads has happened): every write issued so
		// far made it / none of the un-barriered ones did
		cps = append([]cp{{p: p0, desc: "right after start-up, all-pending-written"}, {p: p0, dropAll: true, desc: "right after start-up, no-pending-written"}}, cps...)
		probeReported := false
		nrec := 0
		checked, distinct := checkPrefixStates("C17", fmt.Sprintf("simple workload %d (seed %d)", w, *seed), events, ops, dumps, cps, func(img map[uint64][]byte) (string, bool) {
			var rs *simple.Nfs
			nrec++
			if !guardedCall(func() {
				// both ways a simple server comes up on a used disk: the recovery example's and cmd/simple-nfsd's
				if nrec%2 == 0 {
					rs = simple.Recover(NewOverlay(disksz, img))
				} else {
					rs = simple.MakeNfs(NewOverlay(disksz, img))
				}
			}) {
				return "", false
			}
			d, ok := dumpSrv(rs)
			if ok {
				// the recovered server must go on working as a file server: every file takes its own
				// data and gives it back (files must not share storage, whatever was on the disk)
				bad := ""
				guardedCall(func() {
					for f := uint64(2); f < 32; f++ {
						data := bytes.Repeat([]byte{byte(0x40 + f)}, 8)
						w := rs.NFSPROC3_WRITE(nfstypes.WRITE3args{File: fhOf(f), Offset: 0, Count: 8, Stable: nfstypes.FILE_SYNC, Data: data})
						if w.Status != nfstypes.NFS3_OK && bad == "" {
							bad = fmt.Sprintf("WRITE to file %d returned status %d", f, w.Status)
						}
					}
					for f := uint64(2); f < 32 && bad == ""; f++ {
						rd := rs.NFSPROC3_READ(nfstypes.READ3args{File: fhOf(f), Offset: 0, Count: 8})
						want := bytes.Repeat([]byte{byte(0x40 + f)}, 8)
						if rd.Status != nfstypes.NFS3_OK || !bytes.Equal(rd.Resok.Data, want) {
							bad = fmt.Sprintf("file %d was written %x and reads %x (status %d)", f, want, rd.Resok.Data, rd.Status)
						}
					}
				})
				if bad != "" && !probeReported {
					probeReported = true
					emit("# ORACLE C17 recovered-server-broken simple workload %d (seed %d): after recovery from a crash image, %s", w, *seed, bad)
				}
			}
			return d, ok
		})
		emit("crashsum workload=%d events=%d crashpoints=%d checked=%d distinct-recovered-states=%d", w, len(events), total, checked, distinct)
		observedCrash(w, *seed, disksz, fhOf)
	}
}

// observedCrash: what a reply REVEALED must survive a crash too.  One client grows a file step by
// step (SETATTR size 1, 2, 3, ...) while another asks for its attributes all the time; the disk is
// slow on the log header, so a transaction stays "appended but not on disk" for a while.  Every
// GETATTR reply is stamped with the disk trace position at which it was received; the server
// crashes right there with nothing of the un-barriered writes on disk, recovers, and must not
// serve a size smaller than the one it had already reported.
func observedCrash(w int, seed uint64, disksz uint64, fhOf func(uint64) nfstypes.Nfs_fh3) {
	rec := NewRecDisk(disksz)
	rec.slow = func(a uint64) {
		if a == 0 {
			time.Sleep(300 * time.Microsecond)
		}
	}
	srv := simple.MakeNfs(rec)
	const f = 5
	const steps = 40
	type obs struct {
		pos  int
		size uint64
	}
	var obsMu sync.Mutex
	first := map[uint64]int{} // size -> earliest position at which a reply reported it
	var stop int32
	var wg sync.WaitGroup
	nobs := 0
	for g := 0; g < 2; g++ {
		wg.Add(1)
		go func() {
			defer wg.Done()
			defer func() { recover() }()
			for atomic.LoadInt32(&stop) == 0 {
				ga := srv.NFSPROC3_GETATTR(nfstypes.GETATTR3args{Object: fhOf(f)})
				p := rec.pos()
				if ga.Status != nfstypes.NFS3_OK {
					continue
				}
				sz := uint64(ga.Resok.Obj_attributes.Size)
				obsMu.Lock()
				nobs++
				if q, ok := first[sz]; !ok || p < q {
					first[sz] = p
				}
				obsMu.Unlock()
			}
		}()
	}
	okRun := guardedCall(func() {
		for i := 1; i <= steps; i++ {
			var a nfstypes.SETATTR3args
			a.Object = fhOf(f)
			a.New_attributes.Size = nfstypes.Set_size3{Set_it: true, Size: nfstypes.Size3(i)}
			srv.NFSPROC3_SETATTR(a)
			time.Sleep(200 * time.Microsecond) // lets the readers have the file's lock between two steps
		}
	})
	atomic.StoreInt32(&stop, 1)
	wg.Wait()
	if !okRun {
		emit("# ORACLE C17 request-did-not-return simple observed workload %d (seed %d): SETATTR with a concurrent GETATTR panicked or hung", w, seed)
		return
	}
	rec.mu.Lock()
	events := rec.events
	rec.mu.Unlock()
	checked := 0
	var sizes []uint64
	for sz := range first {
		sizes = append(sizes, sz)
	}
	sort.Slice(sizes, func(i, j int) bool { return sizes[i] < sizes[j] })
	for _, sz := range sizes {
		p := first[sz]
		img := buildImage(events, p, nil, true)
		var rs *simple.Nfs
		var ga nfstypes.GETATTR3res
		if !guardedCall(func() {
			rs = simple.Recover(NewOverlay(disksz, img))
			ga = rs.NFSPROC3_GETATTR(nfstypes.GETATTR3args{Object: fhOf(f)})
		}) {
			emit("# ORACLE C17 recovery-crashed simple observed workload %d (seed %d): recovery from the image at crash point %d panicked or hung", w, seed, p)
			continue
		}
		checked++
		if got := uint64(ga.Resok.Obj_attributes.Size); ga.Status != nfstypes.NFS3_OK || got < sz {
			emit("# ORACLE C17 reported-state-lost simple observed workload %d (seed %d): a GETATTR reply received after %d of %d disk events reported size %d for file %d (sizes only grow: SETATTR 1, 2, 3, ...); the server crashed right then (un-barriered writes lost), recovered, and serves size %d (status %d): a reply revealed a change that was not durable", w, seed, p, len(events), sz, f, got, ga.Status)
			break
		}
	}
	emit("crashobs workload=%d events=%d getattr-replies=%d distinct-sizes-reported=%d checked=%d", w, len(events), nobs, len(sizes), checked)
}

func afterSeconds(n int) <-chan time.Time { return time.After(time.Duration(n) * time.Second) }

// observedCrashKv: the same question for the key/value store.  One caller puts generations 1, 2,
// 3, ... of a key (8-byte counter at the start of the block) while two others get it all the
// time; the server crashes at the trace position of each first reply that showed a generation
// (un-barriered writes lost), and the recovered store must not serve an older one.
func observedCrashKv(w int, seed uint64, disksz, kvsz uint64) {
	rec := NewRecDisk(disksz)
	rec.slow = func(a uint64) {
		if a == 0 {
			time.Sleep(300 * time.Microsecond)
		}
	}
	store := kvs.MkKVS(rec, kvsz)
	const key = 700
	const steps = 40
	genOf := func(v []byte) uint64 {
		var g uint64
		for i := 0; i < 8 && i < len(v); i++ {
			g |= uint64(v[i]) << (8 * uint(i))
		}
		return g
	}
	var obsMu sync.Mutex
	first := map[uint64]int{}
	var stop int32
	var wg sync.WaitGroup
	nobs := 0
	for g := 0; g < 2; g++ {
		wg.Add(1)
		go func() {
			defer wg.Done()
			defer func() { recover() }()
			for atomic.LoadInt32(&stop) == 0 {
				p, ok := store.Get(key)
				pos := rec.pos()
				if !ok || p == nil {
					continue
				}
				gen := genOf(p.Val)
				obsMu.Lock()
				nobs++
				if q, seen := first[gen]; !seen || pos < q {
					first[gen] = pos
				}
				obsMu.Unlock()
			}
		}()
	}
	okRun := guardedCall(func() {
		for i := 1; i <= steps; i++ {
			v := make([]byte, 4096)
			for b := 0; b < 8; b++ {
				v[b] = byte(uint64(i) >> (8 * uint(b)))
			}
			store.MultiPut([]kvs.KVPair{{Key: key, Val: v}})
			time.Sleep(200 * time.Microsecond)
		}
	})
	atomic.StoreInt32(&stop, 1)
	wg.Wait()
	if !okRun {
		emit("# ORACLE C18 request-did-not-return kv observed workload %d (seed %d): MultiPut with a concurrent Get panicked or hung", w, seed)
		return
	}
	rec.mu.Lock()
	events := rec.events
	rec.mu.Unlock()
	var gens []uint64
	for g := range first {
		gens = append(gens, g)
	}
	sort.Slice(gens, func(i, j int) bool { return gens[i] < gens[j] })
	checked := 0
	for _, g := range gens {
		p := first[g]
		img := buildImage(events, p, nil, true)
		var got uint64
		if !guardedCall(func() {
			st := kvs.MkKVS(NewOverlay(disksz, img), kvsz)
			pr, _ := st.Get(key)
			got = genOf(pr.Val)
		}) {
			emit("# ORACLE C18 recovery-crashed kv observed workload %d (seed %d): recovery from the image at crash point %d panicked or hung", w, seed, p)
			continue
		}
		checked++
		if got < g {
			emit("# ORACLE C18 reported-state-lost kv observed workload %d (seed %d): a Get reply received after %d of %d disk events returned generation %d of key %d (puts write generations 1, 2, 3, ...); the store crashed right then (un-barriered writes lost), recovered, and serves generation %d: a Get returned the value of a put that was not durable", w, seed, p, len(events), g, key, got)
			break
		}
	}
	emit("crashobs workload=%d events=%d getattr-replies=%d distinct-sizes-reported=%d checked=%d", w, len(events), nobs, len(gens), checked)
}

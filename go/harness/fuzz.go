package main

import (
	"encoding/json"
	"flag"
	"fmt"
	"os"
	"reflect"
	"runtime"
	"sort"
	"time"

	"github.com/mit-pdos/go-nfsd/nfstypes"
	"github.com/zeldovich/go-rpcgen/xdr"
)

// cmdFuzz drives the real server through its registration tables with XDR
// messages: structurally generated arguments of all 28 procedures (handles and
// names drawn from the live state), encoded with the real codec and, half of
// the time, mutated at the byte level.  Outcome classes only: reply / decode
// error / panic / hang / memory growth.  This is search support for C11, not a
// proof.

var procArgType = map[uint32]map[uint32]string{
	nfstypes.NFS_PROGRAM: {
		1: "GETATTR3args", 2: "SETATTR3args", 3: "LOOKUP3args", 4: "ACCESS3args", 5: "READLINK3args", 6: "READ3args",
		7: "WRITE3args", 8: "CREATE3args", 9: "MKDIR3args", 10: "SYMLINK3args", 11: "MKNOD3args", 12: "REMOVE3args",
		13: "RMDIR3args", 14: "RENAME3args", 15: "LINK3args", 16: "READDIR3args", 17: "READDIRPLUS3args",
		18: "FSSTAT3args", 19: "FSINFO3args", 20: "PATHCONF3args", 21: "COMMIT3args"},
	nfstypes.MOUNT_PROGRAM: {1: "Dirpath3", 3: "Dirpath3"},
}

func cmdFuzz(fs *flag.FlagSet, args []string) {
	seed := fs.Uint64("seed", 1, "seed")
	iters := fs.Int("iters", 20000, "messages")
	descPath := fs.String("desc", "", "descriptor JSON (RFC transcription)")
	fs.Parse(args)
	raw, err := os.ReadFile(*descPath)
	if err != nil {
		die("fuzz: %v", err)
	}
	d := &xdesc{}
	if err := json.Unmarshal(raw, d); err != nil {
		die("fuzz: %v", err)
	}
	r := NewRng(*seed)
	s := newSeqRun(r.Fork(), 100000, true)
	// a non-trivial state
	dir1 := s.mk("mkdir", s.root(), "dir1")
	s.mk("mkdir", dir1, "sub")
	f1 := s.mk("create", s.root(), "file1")
	s.opWrite(f1, 0, 10000, 2, s.mkData(10000))
	f2 := s.mk("create", dir1, "file2")
	s.opWrite(f2, 8*4096-10, 5000, 0, s.mkData(5000))
	s.mk("symlink", s.root(), "link1")
	for i := 0; i < 5; i++ {
		s.mk("create", dir1, fmt.Sprintf("e%d", i))
	}
	emit("# fuzz start")
	regs := append(nfstypes.NFS_PROGRAM_NFS_V3_regs(s.srv), nfstypes.MOUNT_PROGRAM_MOUNT_V3_regs(s.srv)...)
	w := &walker{d: d, r: r.Fork()}
	fhType := reflect.TypeOf(nfstypes.Nfs_fh3{})
	nameType := reflect.TypeOf(nfstypes.Filename3(""))
	var liveNames = []string{"dir1", "sub", "file1", "file2", "link1", "e0", "e1", "e2", ".", ".."}
	var improve func(v reflect.Value)
	improve = func(v reflect.Value) {
		switch v.Kind() {
		case reflect.Struct:
			if v.Type() == fhType {
				if r.Chance(7, 10) {
					v.FieldByName("Data").SetBytes(append([]byte{}, s.pickHandle(0)...))
				}
				return
			}
			for i := 0; i < v.NumField(); i++ {
				improve(v.Field(i))
			}
		case reflect.String:
			if v.Type() == nameType && r.Chance(1, 2) {
				v.SetString(liveNames[r.Intn(len(liveNames))])
			}
		case reflect.Ptr:
			if !v.IsNil() {
				improve(v.Elem())
			}
		}
	}
	outcomes := map[string]int{}
	var maxHeap uint64
	for it := 0; it < *iters && !s.dead; it++ {
		g := regs[r.Intn(len(regs))]
		var msg []byte
		if tn, ok := procArgType[g.Prog][g.Proc]; ok {
			t := w.genNamed(tn, 0)
			v := xdrTypes[tn]()
			w.fillNamed(tn, reflect.ValueOf(v).Elem(), t)
			improve(reflect.ValueOf(v).Elem())
			// keep transfers modest most of the time
			if wa, ok := v.(*nfstypes.WRITE3args); ok && r.Chance(9, 10) {
				wa.Count = nfstypes.Count3(len(wa.Data))
				wa.Offset = nfstypes.Offset3(s.pickOffset(10000))
			}
			if ra, ok := v.(*nfstypes.READ3args); ok && r.Chance(9, 10) {
				ra.Offset = nfstypes.Offset3(s.pickOffset(10000))
			}
			bs, ok := realEncode(v)
			if !ok {
				outcomes["encode-refused"]++
				continue
			}
			msg = bs
		}
		mutated := false
		if r.Chance(2, 5) {
			mutated = true
			switch r.Intn(4) {
			case 0:
				msg = msg[:r.Intn(len(msg)+1)]
			case 1:
				if len(msg) > 0 {
					msg[r.Intn(len(msg))] ^= 1 << uint(r.Intn(8))
				}
			case 2:
				if len(msg) >= 4 {
					p := 4 * r.Intn(len(msg)/4)
					vals := [][]byte{{0, 0, 0, 0}, {0, 0, 0, 1}, {0xff, 0xff, 0xff, 0xff}, {0x7f, 0xff, 0xff, 0xff}, {0, 0, 0, 65}, {0, 1, 0, 0}}
					copy(msg[p:], vals[r.Intn(len(vals))])
				}
			case 3:
				for k := r.Intn(9); k > 0; k-- {
					msg = append(msg, byte(r.U64()))
				}
			}
		}
		desc := fmt.Sprintf("prog %d proc %d mutated=%v msg %s", g.Prog, g.Proc, mutated, hx(msg))
		var res xdr.Xdrable
		var herr error
		if !s.guarded(desc, func() { res, herr = g.Handler(xdr.MakeReader(msg)) }) {
			break
		}
		key := fmt.Sprintf("%d/%d", g.Prog, g.Proc)
		if herr != nil {
			outcomes[key+":decode-error"]++
			continue
		}
		if _, ok := realEncode(res); !ok {
			emit("# ORACLE C11 reply-not-encodable the reply to [%s] cannot be XDR-encoded", trunc(desc))
		}
		outcomes[key+":reply"]++
		if it%200 == 0 {
			var ms runtime.MemStats
			runtime.ReadMemStats(&ms)
			if ms.HeapAlloc > maxHeap {
				maxHeap = ms.HeapAlloc
			}
			if ms.HeapAlloc > 3<<30 {
				emit("# ORACLE C11 memory heap grew to %d bytes after [%s]", ms.HeapAlloc, trunc(desc))
				break
			}
		}
	}
	// the server must still serve correctly afterwards
	if !s.dead {
		done := make(chan bool, 1)
		go func() { s.opGetattr(s.root()); s.opLookup(s.root(), "dir1"); done <- true }()
		select {
		case <-done:
		case <-time.After(30 * time.Second):
			emit("# HANG :: server does not answer after the fuzz run")
		}
	}
	var ks []string
	for k := range outcomes {
		ks = append(ks, k)
	}
	sort.Strings(ks)
	line := "# FUZZ"
	for _, k := range ks {
		line += fmt.Sprintf(" %s=%d", k, outcomes[k])
	}
	emit("%s maxheap=%d", line, maxHeap)
	s.close()
}

package main

// Image dump for the Lean structure checker (C04/C05): the logical disk —
// every block read THROUGH the journal (installed blocks overlaid with the
// log), decoded with the repository's own inode and directory-entry decoders —
// as facts: inodes, indirect blocks, directory slots, bitmaps, and (for a
// running server) the in-memory allocators.

import (
	"encoding/binary"
	"fmt"
	"strings"

	"github.com/mit-pdos/go-journal/addr"
	"github.com/mit-pdos/go-journal/common"

	"github.com/mit-pdos/go-nfsd/dir"
	"github.com/mit-pdos/go-nfsd/fstxn"
	"github.com/mit-pdos/go-nfsd/inode"
)

type imager struct {
	st   *fstxn.FsState
	sz   uint64
	out  func(string)
	inds map[uint64]bool
}

func (im *imager) block(b uint64) []byte {
	if b == 0 || b >= im.sz {
		return nil
	}
	return im.st.Txn.Load(addr.MkAddr(common.Bnum(b), 0), common.NBITBLOCK).Data
}

func allZero(b []byte) bool {
	for _, x := range b {
		if x != 0 {
			return false
		}
	}
	return true
}

// emitInd prints the non-null entries of a block used as an indirect block and returns them.
func (im *imager) emitInd(b uint64) map[uint64]uint64 {
	ents := map[uint64]uint64{}
	data := im.block(b)
	if data == nil {
		return ents
	}
	var parts []string
	for i := uint64(0); i < 512; i++ {
		p := binary.LittleEndian.Uint64(data[8*i : 8*i+8])
		if p != 0 {
			ents[i] = p
			parts = append(parts, fmt.Sprintf("%d:%d", i, p))
		}
	}
	if !im.inds[b] {
		im.inds[b] = true
		im.out(fmt.Sprintf("ind %d %s", b, dashIfEmpty(strings.Join(parts, ","))))
	}
	return ents
}

func dashIfEmpty(s string) string {
	if s == "" {
		return "-"
	}
	return s
}

func runsOfBits(bm []byte) string {
	var parts []string
	start := -1
	n := len(bm) * 8
	for i := 0; i <= n; i++ {
		set := i < n && bm[i/8]&(1<<(uint(i)%8)) != 0
		if set && start < 0 {
			start = i
		}
		if !set && start >= 0 {
			parts = append(parts, fmt.Sprintf("%d-%d", start, i))
			start = -1
		}
	}
	return dashIfEmpty(strings.Join(parts, ","))
}

// emitImage writes one image.  quiescent: no RPC in flight, shrinker idle, this server never recovered
// from a crash (so nothing may be half-freed).  withAlloc: also the in-memory allocators.
func emitImage(st *fstxn.FsState, label string, quiescent, withAlloc bool, moved []uint64, out func(string)) {
	sup := st.Super
	im := &imager{st: st, sz: sup.Size, out: out, inds: map[uint64]bool{}}
	q := 0
	if quiescent {
		q = 1
	}
	out(fmt.Sprintf("img begin %d %d %s", sup.Size, q, label))
	var allDirs []uint64
	for blk := uint64(sup.InodeStart()); blk < uint64(sup.DataStart()); blk++ {
		data := st.Txn.Load(addr.MkAddr(common.Bnum(blk), 0), common.NBITBLOCK).Data
		if allZero(data) {
			continue
		}
		for slot := uint64(0); slot < common.INODEBLK; slot++ {
			raw := data[slot*common.INODESZ : (slot+1)*common.INODESZ]
			if allZero(raw) {
				continue
			}
			inum := (blk-uint64(sup.InodeStart()))*common.INODEBLK + slot
			ip := inode.Decode(st.Txn.Load(sup.Inum2Addr(common.Inum(inum)), common.INODESZ*8), common.Inum(inum))
			blks := ip.VerifBlks()
			var bs []string
			for _, b := range blks {
				bs = append(bs, fmt.Sprintf("%d", b))
			}
			out(fmt.Sprintf("ino %d %d %d %d %d %d %s", inum, ip.Kind, ip.Nlink, ip.Gen, ip.Size, ip.ShrinkSize, strings.Join(bs, ",")))
			var ind1 map[uint64]uint64
			ind2 := map[uint64]map[uint64]uint64{}
			var dind map[uint64]uint64
			if len(blks) > 8 && blks[8] != 0 {
				ind1 = im.emitInd(uint64(blks[8]))
			}
			if len(blks) > 9 && blks[9] != 0 {
				dind = im.emitInd(uint64(blks[9]))
				for j, qb := range dind {
					ind2[j] = im.emitInd(qb)
				}
			}
			if ip.Kind == 2 && inum != 1 {
				allDirs = append(allDirs, inum)
			}
			if ip.Kind == 2 && ip.Size <= 1<<26 {
				// the directory's slots, through a read-only walk of the block map
				var parts []string
				for off := uint64(0); off+dir.DIRENTSZ <= ip.Size; off += dir.DIRENTSZ {
					bn := off / 4096
					var b uint64
					switch {
					case bn < 8:
						if int(bn) < len(blks) {
							b = uint64(blks[bn])
						}
					case bn < 8+512:
						b = ind1[bn-8]
					default:
						o := bn - 8 - 512
						if m, ok := ind2[o/512]; ok {
							b = m[o%512]
						}
					}
					data := im.block(b)
					if data == nil {
						continue
					}
					ci, name := dir.VerifDecodeDirEnt(data[off%4096 : off%4096+dir.DIRENTSZ])
					if ci != 0 {
						parts = append(parts, fmt.Sprintf("%d:%d:%s", off/dir.DIRENTSZ, ci, hx([]byte(name))))
					}
				}
				out(fmt.Sprintf("dir %d %s", inum, dashIfEmpty(strings.Join(parts, ","))))
			}
		}
	}
	var bb, ib []byte
	for i := uint64(0); i < sup.NBlockBitmap; i++ {
		bb = append(bb, st.Txn.Load(addr.MkAddr(sup.BitmapBlockStart()+common.Bnum(i), 0), common.NBITBLOCK).Data...)
	}
	for i := uint64(0); i < sup.NInodeBitmap; i++ {
		ib = append(ib, st.Txn.Load(addr.MkAddr(sup.BitmapInodeStart()+common.Bnum(i), 0), common.NBITBLOCK).Data...)
	}
	out("bb " + runsOfBits(bb))
	out("ib " + runsOfBits(ib))
	if withAlloc {
		out("ab " + runsOfBits(peekBitmap(st.Balloc)))
		out("ai " + runsOfBits(peekBitmap(st.Ialloc)))
	}
	if len(moved) == 1 && moved[0] == ^uint64(0) {
		// concurrent histories: which directory a cross-directory RENAME moved is not known to the
		// clients; every directory counts as possibly moved (loosens only the ".." clause)
		moved = allDirs
	}
	if len(moved) > 0 {
		var ms []string
		for _, m := range moved {
			ms = append(ms, fmt.Sprintf("%d", m))
		}
		out("moved " + strings.Join(ms, ","))
	}
	out("img end")
}

// halfFreed lists the free inodes that still hold blocks (a shrink interrupted by a crash).
func halfFreed(st *fstxn.FsState) []uint64 {
	sup := st.Super
	var res []uint64
	for blk := uint64(sup.InodeStart()); blk < uint64(sup.DataStart()); blk++ {
		data := st.Txn.Load(addr.MkAddr(common.Bnum(blk), 0), common.NBITBLOCK).Data
		if allZero(data) {
			continue
		}
		for slot := uint64(0); slot < common.INODEBLK; slot++ {
			raw := data[slot*common.INODESZ : (slot+1)*common.INODESZ]
			if allZero(raw) {
				continue
			}
			inum := (blk-uint64(sup.InodeStart()))*common.INODEBLK + slot
			ip := inode.Decode(st.Txn.Load(sup.Inum2Addr(common.Inum(inum)), common.INODESZ*8), common.Inum(inum))
			if ip.Kind != 0 {
				continue
			}
			for _, b := range ip.VerifBlks() {
				if b != 0 {
					res = append(res, inum)
					break
				}
			}
		}
	}
	return res
}

// pendingShrinks lists the LIVE inodes of the logical disk whose ShrinkSize lies above their size
// (a truncation that has not finished).
func pendingShrinks(st *fstxn.FsState) []uint64 {
	sup := st.Super
	var res []uint64
	for blk := uint64(sup.InodeStart()); blk < uint64(sup.DataStart()); blk++ {
		data := st.Txn.Load(addr.MkAddr(common.Bnum(blk), 0), common.NBITBLOCK).Data
		if allZero(data) {
			continue
		}
		for slot := uint64(0); slot < common.INODEBLK; slot++ {
			inum := (blk-uint64(sup.InodeStart()))*common.INODEBLK + slot
			ip := inode.Decode(st.Txn.Load(sup.Inum2Addr(common.Inum(inum)), common.INODESZ*8), common.Inum(inum))
			if ip.Kind != 0 && ip.ShrinkSize > (ip.Size+4095)/4096 {
				res = append(res, inum)
			}
		}
	}
	return res
}

// inodeOnDisk renders the inode of the logical disk (size, ShrinkSize, pointers) for messages.
func inodeOnDisk(st *fstxn.FsState, inum uint64) string {
	ip := inode.Decode(st.Txn.Load(st.Super.Inum2Addr(common.Inum(inum)), common.INODESZ*8), common.Inum(inum))
	return fmt.Sprintf("%v", ip)
}

package main

import (
	"flag"
	"fmt"
	"strings"

	"github.com/mit-pdos/go-journal/addr"
	"github.com/mit-pdos/go-journal/alloc"
	"github.com/mit-pdos/go-journal/common"
	"github.com/mit-pdos/go-nfsd/fstxn"
	"github.com/mit-pdos/go-nfsd/nfs"
	"github.com/mit-pdos/go-nfsd/super"
)

// runs of set bits of a bitmap block, as "a-b,c-d" with numbers offset by base
func bitRuns(blk []byte, base uint64) []string {
	var rs []string
	start := int64(-1)
	n := uint64(len(blk)) * 8
	for i := uint64(0); i < n; i++ {
		set := blk[i/8]&(1<<(i%8)) != 0
		if set && start < 0 {
			start = int64(i)
		}
		if !set && start >= 0 {
			rs = append(rs, fmt.Sprintf("%d-%d", base+uint64(start), base+i))
			start = -1
		}
	}
	if start >= 0 {
		rs = append(rs, fmt.Sprintf("%d-%d", base+uint64(start), base+n))
	}
	return rs
}

func joinRuns(rs []string) string {
	if len(rs) == 0 {
		return "-"
	}
	return strings.Join(rs, ",")
}

// mkfsOne formats a sparse disk of sz blocks with the real code and reports
// what it did; also checks the "fully usable" oracle directly on the real
// allocator: every data block is handed out exactly once, nothing else is.
func mkfsOne(sz uint64, fill bool) (line string, oracle string) {
	d := NewSparseDisk(sz)
	s := super.MkFsSuper(d)
	panicked := false
	func() {
		defer func() {
			if r := recover(); r != nil {
				panicked = true
			}
		}()
		nfs.VerifMakeFs(d)
	}()
	var addrs []string
	for _, i := range []uint64{0, 1, 2, 31, 32, 33, 1000, uint64(s.NInode()) - 1} {
		a := s.Inum2Addr(common.Inum(i))
		addrs = append(addrs, fmt.Sprintf("%d:%d:%d", i, a.Blkno, a.Off))
	}
	p := 0
	if panicked {
		p = 1
	}
	var bruns, iruns []string
	var bbytes []byte
	if !panicked {
		for k := uint64(0); k < s.NBlockBitmap; k++ {
			blk := d.Read(uint64(s.BitmapBlockStart()) + k)
			bbytes = append(bbytes, blk...)
			bruns = append(bruns, bitRuns(blk, k*common.NBITBLOCK)...)
		}
		for k := uint64(0); k < s.NInodeBitmap; k++ {
			blk := d.Read(uint64(s.BitmapInodeStart()) + k)
			iruns = append(iruns, bitRuns(blk, k*common.NBITBLOCK)...)
		}
	}
	line = fmt.Sprintf("mkfs %d %d %d %d %d %d %d %d %d %d %s %s %s", sz, p,
		s.MaxBnum(), s.BitmapBlockStart(), s.BitmapInodeStart(), s.InodeStart(), s.DataStart(),
		s.NInode(), s.NBlockBitmap, s.NInodeBitmap, joinRuns(bruns), joinRuns(iruns),
		strings.Join(addrs, ","))
	if panicked {
		return
	}
	// property oracles, evaluated on the real code's own answers
	bbs, bis, is, ds := uint64(s.BitmapBlockStart()), uint64(s.BitmapInodeStart()), uint64(s.InodeStart()), uint64(s.DataStart())
	if !(common.LOGSIZE <= bbs && bbs+s.NBlockBitmap <= bis && bis+s.NInodeBitmap <= is && is+uint64(s.NInode())/common.INODEBLK <= ds && ds <= sz) {
		return line, fmt.Sprintf("size %d: regions overlap or leave the disk: log %d bbitmap %d ibitmap %d inodes %d data %d", sz, common.LOGSIZE, bbs, bis, is, ds)
	}
	if s.NBlockBitmap*common.NBITBLOCK <= sz {
		return line, fmt.Sprintf("size %d: block bitmap has %d bits, fewer than blocks", sz, s.NBlockBitmap*common.NBITBLOCK)
	}
	for b := uint64(0); b < s.NBlockBitmap*common.NBITBLOCK; b++ {
		set := bbytes[b/8]&(1<<(b%8)) != 0
		want := b < ds || b >= sz
		if set != want {
			return line, fmt.Sprintf("size %d: fresh block bitmap bit %d is %v, want %v (data region [%d,%d))", sz, b, set, want, ds, sz)
		}
	}
	if joinRuns(iruns) != "0-2" {
		return line, fmt.Sprintf("size %d: fresh inode bitmap marks %s, want exactly inodes 0 and 1", sz, joinRuns(iruns))
	}
	if !fill {
		return
	}
	// the whole data region, and nothing else, can be allocated
	a := alloc.MkAlloc(bbytes)
	seen := make(map[uint64]bool)
	want := sz - uint64(s.DataStart())
	for i := uint64(0); ; i++ {
		n := a.AllocNum()
		if n == 0 {
			break
		}
		if n < uint64(s.DataStart()) || n >= sz {
			return line, fmt.Sprintf("size %d: allocator handed out block %d outside the data region [%d,%d)", sz, n, s.DataStart(), sz)
		}
		if seen[n] {
			return line, fmt.Sprintf("size %d: block %d allocated twice", sz, n)
		}
		seen[n] = true
		if i > want+1 {
			break
		}
	}
	if uint64(len(seen)) != want {
		return line, fmt.Sprintf("size %d: %d blocks allocatable, data region has %d", sz, len(seen), want)
	}
	// ... and through the allocator of a RUNNING server (built by fstxn.MkFsState from the bitmap
	// on disk): what it hands out together with what the fresh file system uses (the root
	// directory's block) is the data region, block for block
	var st *fstxn.FsState
	var srv *nfs.Nfs
	if !guardedCall(func() {
		srv = nfs.MakeNfs(NewSparseDisk(sz))
		st = srv.VerifFsState()
	}) {
		return line, fmt.Sprintf("size %d: the format is accepted but a server does not start on it", sz)
	}
	defer func() { guardedCall(func() { srv.ShutdownNfs() }) }()
	inUse := map[uint64]bool{}
	for k := uint64(0); k < s.NBlockBitmap; k++ {
		blk := st.Txn.Load(addr.MkAddr(uint64(s.BitmapBlockStart())+k, 0), common.NBITBLOCK).Data
		for b := uint64(0); b < common.NBITBLOCK; b++ {
			if blk[b/8]&(1<<(b%8)) != 0 {
				inUse[k*common.NBITBLOCK+b] = true
			}
		}
	}
	got := map[uint64]bool{}
	for i := uint64(0); i <= want+1; i++ {
		n := st.Balloc.AllocNum()
		if n == 0 {
			break
		}
		if n < uint64(s.DataStart()) || n >= sz || inUse[n] || got[n] {
			return line, fmt.Sprintf("size %d: the running server's allocator handed out block %d (data region [%d,%d), in use on disk: %v, handed out before: %v)", sz, n, s.DataStart(), sz, inUse[n], got[n])
		}
		got[n] = true
	}
	for b := uint64(s.DataStart()); b < sz; b++ {
		if !got[b] && !inUse[b] {
			return line, fmt.Sprintf("size %d: block %d of the data region [%d,%d) is free on disk but the running server's allocator never hands it out (%d handed out, %d in use)", sz, b, s.DataStart(), sz, len(got), len(inUse))
		}
	}
	return
}

func cmdMkfs(fs *flag.FlagSet, args []string) {
	from := fs.Uint64("from", 1530, "first size")
	to := fs.Uint64("to", 1950, "last size (inclusive)")
	around := fs.String("around", "", "comma-separated centres; sizes centre-40..centre+40 are added")
	fill := fs.Bool("fill", true, "run the allocator exhaustion oracle")
	fs.Parse(args)
	var sizes []uint64
	for s := *from; s <= *to; s++ {
		sizes = append(sizes, s)
	}
	if *around != "" {
		for _, c := range strings.Split(*around, ",") {
			var v uint64
			fmt.Sscanf(c, "%d", &v)
			for s := v - 40; s <= v+40; s++ {
				sizes = append(sizes, s)
			}
		}
	}
	for _, sz := range sizes {
		line, oracle := mkfsOne(sz, *fill)
		emit("%s", line)
		if oracle != "" {
			emit("# ORACLE %s", oracle)
		}
	}
}

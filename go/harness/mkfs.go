package main

import (
	"time"
	"flag"
	"fmt"
	"reflect"
	"strings"
	"unsafe"

	"github.com/mit-pdos/go-journal/addr"
	"github.com/mit-pdos/go-journal/alloc"
	"github.com/mit-pdos/go-journal/common"
	"github.com/mit-pdos/go-nfsd/fh"
	"github.com/mit-pdos/go-nfsd/fstxn"
	"github.com/mit-pdos/go-nfsd/nfs"
	"github.com/mit-pdos/go-nfsd/nfstypes"
	"github.com/mit-pdos/go-nfsd/super"
)

// runs of set bits of a bitmap block, as "a-b,c-d" with numbers offset by base
func bitRuns(blk []byte, base uint64) []string {
	var rs []string
	start := int64(-1)
	n := uint64(len(blk)) * 8
	for i := uint64(0); i < n; i++ {
		set := blk[i/8]&(1<<(i%8)) != 0
		if set && start < 0 {
			start = int64(i)
		}
		if !set && start >= 0 {
			rs = append(rs, fmt.Sprintf("%d-%d", base+uint64(start), base+i))
			start = -1
		}
	}
	if start >= 0 {
		rs = append(rs, fmt.Sprintf("%d-%d", base+uint64(start), base+n))
	}
	return rs
}

func joinRuns(rs []string) string {
	if len(rs) == 0 {
		return "-"
	}
	return strings.Join(rs, ",")
}

// mkfsOne formats a sparse disk of sz blocks with the real code and reports
// what it did; also checks the "fully usable" oracle directly on the real
// allocator: every data block is handed out exactly once, nothing else is.
func mkfsOne(sz uint64, fill bool, useFree bool) (line string, oracle string) {
	d := NewSparseDisk(sz)
	s := super.MkFsSuper(d)
	panicked := false
	func() {
		defer func() {
			if r := recover(); r != nil {
				panicked = true
			}
		}()
		nfs.VerifMakeFs(d)
	}()
	var addrs []string
	for _, i := range []uint64{0, 1, 2, 31, 32, 33, 1000, uint64(s.NInode()) - 1} {
		a := s.Inum2Addr(common.Inum(i))
		addrs = append(addrs, fmt.Sprintf("%d:%d:%d", i, a.Blkno, a.Off))
	}
	p := 0
	if panicked {
		p = 1
	}
	var bruns, iruns []string
	var bbytes []byte
	if !panicked {
		for k := uint64(0); k < s.NBlockBitmap; k++ {
			blk := d.Read(uint64(s.BitmapBlockStart()) + k)
			bbytes = append(bbytes, blk...)
			bruns = append(bruns, bitRuns(blk, k*common.NBITBLOCK)...)
		}
		for k := uint64(0); k < s.NInodeBitmap; k++ {
			blk := d.Read(uint64(s.BitmapInodeStart()) + k)
			iruns = append(iruns, bitRuns(blk, k*common.NBITBLOCK)...)
		}
	}
	line = fmt.Sprintf("mkfs %d %d %d %d %d %d %d %d %d %d %s %s %s", sz, p,
		s.MaxBnum(), s.BitmapBlockStart(), s.BitmapInodeStart(), s.InodeStart(), s.DataStart(),
		s.NInode(), s.NBlockBitmap, s.NInodeBitmap, joinRuns(bruns), joinRuns(iruns),
		strings.Join(addrs, ","))
	if panicked {
		return
	}
	// property oracles, evaluated on the real code's own answers
	bbs, bis, is, ds := uint64(s.BitmapBlockStart()), uint64(s.BitmapInodeStart()), uint64(s.InodeStart()), uint64(s.DataStart())
	if !(common.LOGSIZE <= bbs && bbs+s.NBlockBitmap <= bis && bis+s.NInodeBitmap <= is && is+uint64(s.NInode())/common.INODEBLK <= ds && ds <= sz) {
		return line, fmt.Sprintf("size %d: regions overlap or leave the disk: log %d bbitmap %d ibitmap %d inodes %d data %d", sz, common.LOGSIZE, bbs, bis, is, ds)
	}
	if s.NBlockBitmap*common.NBITBLOCK <= sz {
		return line, fmt.Sprintf("size %d: block bitmap has %d bits, fewer than blocks", sz, s.NBlockBitmap*common.NBITBLOCK)
	}
	for b := uint64(0); b < s.NBlockBitmap*common.NBITBLOCK; b++ {
		set := bbytes[b/8]&(1<<(b%8)) != 0
		want := b < ds || b >= sz
		if set != want {
			return line, fmt.Sprintf("size %d: fresh block bitmap bit %d is %v, want %v (data region [%d,%d))", sz, b, set, want, ds, sz)
		}
	}
	if joinRuns(iruns) != "0-2" {
		return line, fmt.Sprintf("size %d: fresh inode bitmap marks %s, want exactly inodes 0 and 1", sz, joinRuns(iruns))
	}
	// every inode number the inode allocator can hand out has its slot inside the inode table: the allocator is built
	// from the inode bitmap (fstxn.MkFsState: NInodeBitmap blocks of bits), and the fresh bitmap leaves everything but 0
	// and 1 free
	if nbits := s.NInodeBitmap * common.NBITBLOCK; uint64(s.NInode()) < nbits {
		n := uint64(s.NInode())
		a := s.Inum2Addr(common.Inum(n))
		return line, fmt.Sprintf("size %d: the inode table has %d slots but the fresh inode bitmap leaves the numbers up to %d free: inode %d, which the allocator will hand out once %d files exist, has its slot at block %d — data region [%d,%d)", sz, n, nbits-1, n, n-2, a.Blkno, ds, sz)
	}
	for _, i := range []uint64{2, uint64(s.NInode()) / 2, uint64(s.NInode()) - 1} {
		if a := s.Inum2Addr(common.Inum(i)); a.Blkno < is || a.Blkno >= ds {
			return line, fmt.Sprintf("size %d: the slot of inode %d is at block %d, outside the inode table [%d,%d)", sz, i, a.Blkno, is, ds)
		}
	}
	if !fill {
		return
	}
	// the whole data region, and nothing else, can be allocated
	a := alloc.MkAlloc(bbytes)
	seen := make(map[uint64]bool)
	want := sz - uint64(s.DataStart())
	for i := uint64(0); ; i++ {
		n := a.AllocNum()
		if n == 0 {
			break
		}
		if n < uint64(s.DataStart()) || n >= sz {
			return line, fmt.Sprintf("size %d: allocator handed out block %d outside the data region [%d,%d)", sz, n, s.DataStart(), sz)
		}
		if seen[n] {
			return line, fmt.Sprintf("size %d: block %d allocated twice", sz, n)
		}
		seen[n] = true
		if i > want+1 {
			break
		}
	}
	if uint64(len(seen)) != want {
		return line, fmt.Sprintf("size %d: %d blocks allocatable, data region has %d", sz, len(seen), want)
	}
	// ... and through the allocator of a RUNNING server (built by fstxn.MkFsState from the bitmap
	// on disk): what it hands out together with what the fresh file system uses (the root
	// directory's block) is the data region, block for block
	var st *fstxn.FsState
	var srv *nfs.Nfs
	if !guardedCall(func() {
		srv = nfs.MakeNfs(NewSparseDisk(sz))
		st = srv.VerifFsState()
	}) {
		return line, fmt.Sprintf("size %d: the format is accepted but a server does not start on it", sz)
	}
	defer func() { guardedCall(func() { srv.ShutdownNfs() }) }()
	// ... and USED AND FREED through normal operations: a file written where the allocator's
	// roving pointer stands (any pointer value is a legal allocator state) takes its blocks from
	// there, and removing it gives back exactly those blocks — at the first and the last block of
	// the data region and on both sides of every bitmap-block boundary inside it
	if useFree {
		if msg := useAndFree(srv, st, s, sz); msg != "" {
			return line, msg
		}
	}
	// ... and FILLED AND EMPTIED through normal operations (round 16, C15p): files written with 3-block WRITEs until the disk
	// is full — where exactly the space runs out (in front of a data block, an index block, a second-level block) depends on
	// the disk size —, everything removed, background freeing finished: every block of the data region is free again, in the
	// allocator and on disk.  (Sizes with up to 1100 data blocks: the fill stays cheap.)
	if useFree && sz-ds <= 1100 {
		if msg := fillAndFree(srv, st, s, sz); msg != "" {
			return line, msg
		}
	}
	inUse := map[uint64]bool{}
	for k := uint64(0); k < s.NBlockBitmap; k++ {
		blk := st.Txn.Load(addr.MkAddr(uint64(s.BitmapBlockStart())+k, 0), common.NBITBLOCK).Data
		for b := uint64(0); b < common.NBITBLOCK; b++ {
			if blk[b/8]&(1<<(b%8)) != 0 {
				inUse[k*common.NBITBLOCK+b] = true
			}
		}
	}
	got := map[uint64]bool{}
	for i := uint64(0); i <= want+1; i++ {
		n := st.Balloc.AllocNum()
		if n == 0 {
			break
		}
		if n < uint64(s.DataStart()) || n >= sz || inUse[n] || got[n] {
			return line, fmt.Sprintf("size %d: the running server's allocator handed out block %d (data region [%d,%d), in use on disk: %v, handed out before: %v)", sz, n, s.DataStart(), sz, inUse[n], got[n])
		}
		got[n] = true
	}
	for b := uint64(s.DataStart()); b < sz; b++ {
		if !got[b] && !inUse[b] {
			return line, fmt.Sprintf("size %d: block %d of the data region [%d,%d) is free on disk but the running server's allocator never hands it out (%d handed out, %d in use)", sz, b, s.DataStart(), sz, len(got), len(inUse))
		}
	}
	return
}

func cmdMkfs(fs *flag.FlagSet, args []string) {
	from := fs.Uint64("from", 1530, "first size")
	to := fs.Uint64("to", 1950, "last size (inclusive)")
	around := fs.String("around", "", "comma-separated centres; sizes centre-40..centre+40 are added")
	fill := fs.Bool("fill", true, "run the allocator exhaustion oracle")
	useFreeEvery := fs.Uint64("usefree", 1, "run the use-and-free oracle on every Nth size (and on every size within 40 of a bitmap-block boundary)")
	fs.Parse(args)
	var sizes []uint64
	for s := *from; s <= *to; s++ {
		sizes = append(sizes, s)
	}
	if *around != "" {
		for _, c := range strings.Split(*around, ",") {
			var v uint64
			fmt.Sscanf(c, "%d", &v)
			for s := v - 40; s <= v+40; s++ {
				sizes = append(sizes, s)
			}
		}
	}
	for _, sz := range sizes {
		near := sz%common.NBITBLOCK <= 40 || sz%common.NBITBLOCK >= common.NBITBLOCK-40
		line, oracle := mkfsOne(sz, *fill, *fill && (near || sz%*useFreeEvery == 0))
		emit("%s", line)
		if oracle != "" {
			emit("# ORACLE %s", oracle)
		}
	}
}

func diskBitmap(st *fstxn.FsState, s *super.FsSuper) []byte {
	var bm []byte
	for k := uint64(0); k < s.NBlockBitmap; k++ {
		bm = append(bm, st.Txn.Load(addr.MkAddr(uint64(s.BitmapBlockStart())+k, 0), common.NBITBLOCK).Data...)
	}
	return bm
}

func bitDiff(a, b []byte) (only []uint64) {
	for i := range a {
		if a[i] != b[i] {
			for k := uint64(0); k < 8; k++ {
				if (a[i]^b[i])&(1<<k) != 0 {
					only = append(only, uint64(i)*8+k)
				}
			}
		}
	}
	return
}

func useAndFree(srv *nfs.Nfs, st *fstxn.FsState, s *super.FsSuper, sz uint64) string {
	ds := uint64(s.DataStart())
	points := []uint64{ds, ds + 1, sz - 3, sz - 2, sz - 1}
	for b := uint64(common.NBITBLOCK); b < sz; b += common.NBITBLOCK {
		if b > ds+2 {
			points = append(points, b-2, b-1, b)
		}
	}
	root := fh.MkRootFh3()
	nextp := reflect.ValueOf(st.Balloc).Elem().FieldByName("next")
	for _, p := range points {
		if p <= ds || p >= sz {
			continue
		}
		b0 := diskBitmap(st, s)
		free0 := st.Balloc.NumFree()
		if free0 < 3 {
			continue // a disk this small cannot hold the file: a short WRITE is the right answer
		}
		*(*uint64)(unsafe.Pointer(nextp.UnsafeAddr())) = p - 1
		var msg string
		ok := guardedCall(func() {
			where := nfstypes.Diropargs3{Dir: root, Name: "u"}
			c := srv.NFSPROC3_CREATE(nfstypes.CREATE3args{Where: where})
			if c.Status != nfstypes.NFS3_OK {
				msg = fmt.Sprintf("CREATE on the fresh file system answers %d", c.Status)
				return
			}
			f := c.Resok.Obj.Handle
			w := srv.NFSPROC3_WRITE(nfstypes.WRITE3args{File: f, Offset: 0, Count: 3 * 4096, Stable: nfstypes.FILE_SYNC, Data: make([]byte, 3*4096)})
			if w.Status != nfstypes.NFS3_OK || w.Resok.Count != 3*4096 {
				msg = fmt.Sprintf("a 3-block WRITE with the allocator standing at block %d answers %d (count %d)", p, w.Status, w.Resok.Count)
				return
			}
			b1 := diskBitmap(st, s)
			got := bitDiff(b0, b1)
			if len(got) != 3 {
				msg = fmt.Sprintf("a 3-block WRITE with the allocator standing at block %d changed bits %v of the block bitmap", p, got)
				return
			}
			for _, g := range got {
				if g < ds || g >= sz || b0[g/8]&(1<<(g%8)) != 0 {
					msg = fmt.Sprintf("a 3-block WRITE with the allocator standing at block %d took block %d (data region [%d,%d))", p, g, ds, sz)
					return
				}
			}
			r := srv.NFSPROC3_REMOVE(nfstypes.REMOVE3args{Object: where})
			if r.Status != nfstypes.NFS3_OK {
				msg = fmt.Sprintf("REMOVE of a file holding blocks %v answers %d", got, r.Status)
				return
			}
			b2 := diskBitmap(st, s)
			if left := bitDiff(b0, b2); len(left) != 0 {
				msg = fmt.Sprintf("after REMOVE of a file holding blocks %v the block bitmap still differs at %v", got, left)
				return
			}
			if f1 := st.Balloc.NumFree(); f1 != free0 {
				msg = fmt.Sprintf("after REMOVE of a file holding blocks %v the allocator counts %d free blocks, before the file existed %d", got, f1, free0)
			}
		})
		if !ok {
			return fmt.Sprintf("size %d: writing and removing a 3-block file with the allocator standing at block %d panics or hangs", sz, p)
		}
		if msg != "" {
			return fmt.Sprintf("size %d: %s", sz, msg)
		}
	}
	return ""
}

// fillAndFree: see mkfsOne.
func fillAndFree(srv *nfs.Nfs, st *fstxn.FsState, s *super.FsSuper, sz uint64) (msg string) {
	ok := guardedCall(func() {
		free0 := st.Balloc.NumFree()
		bm0 := diskBitmap(st, s)
		root := fh.MkRootFh3()
		data := make([]byte, 3*4096)
		for i := range data {
			data[i] = 0x3c
		}
		var names []string
		full := false
		for f := 0; f < 4 && !full; f++ {
			name := fmt.Sprintf("fill%d", f)
			cr := srv.NFSPROC3_CREATE(nfstypes.CREATE3args{Where: nfstypes.Diropargs3{Dir: root, Name: nfstypes.Filename3(name)}})
			if cr.Status != nfstypes.NFS3_OK {
				break
			}
			names = append(names, name)
			for off := uint64(0); off < 700*4096; off += 3 * 4096 {
				w := srv.NFSPROC3_WRITE(nfstypes.WRITE3args{File: cr.Resok.Obj.Handle, Offset: nfstypes.Offset3(off), Count: 3 * 4096, Stable: nfstypes.FILE_SYNC, Data: data})
				if w.Status != nfstypes.NFS3_OK || w.Resok.Count != 3*4096 {
					full = true
					break
				}
			}
		}
		atFull := st.Balloc.NumFree()
		for _, name := range names {
			srv.NFSPROC3_REMOVE(nfstypes.REMOVE3args{Object: nfstypes.Diropargs3{Dir: root, Name: nfstypes.Filename3(name)}})
		}
		for i := 0; i < 5000 && srv.VerifShrinker().VerifNthread() != 0; i++ {
			time.Sleep(time.Millisecond)
		}
		st.Txn.Flush()
		if f1 := st.Balloc.NumFree(); f1 != free0 {
			msg = fmt.Sprintf("size %d: files written with 3-block WRITEs until the disk was full (%d blocks left free) and removed again: the allocator reports %d free blocks, before %d — %d block(s) of the data region [%d,%d) are lost", sz, atFull, f1, free0, int64(free0)-int64(f1), s.DataStart(), sz)
			return
		}
		if d := bitDiff(bm0, diskBitmap(st, s)); len(d) > 0 {
			msg = fmt.Sprintf("size %d: files written with 3-block WRITEs until the disk was full and removed again: the block bitmap on disk differs from the one before at %v", sz, d)
		}
	})
	if !ok {
		return fmt.Sprintf("size %d: filling the disk with 3-block WRITEs and removing the files panics or hangs", sz)
	}
	return msg
}

package main

// Block-map correspondence (model M7): the pointer structure of ONE real file — the inode's ten
// pointers, ShrinkSize, size and the contents of its index blocks, read through the journal —
// before and after WRITE of whole blocks, READ of a hole and truncation, together with the block
// numbers the real allocator handed out (read off the new structure, in the order indbmap
// allocates: root, second-level block, data block).  The Lean driver runs the transliterated
// bmap / indbmap / indshrink / Shrink on the `before` structure and must arrive at `after`.

import (
	"encoding/binary"
	"flag"
	"fmt"
	"sort"
	"strings"

	"github.com/mit-pdos/go-journal/addr"
	"github.com/mit-pdos/go-journal/common"

	"github.com/mit-pdos/go-nfsd/fh"
	"github.com/mit-pdos/go-nfsd/inode"
	"github.com/mit-pdos/go-nfsd/nfstypes"
)

type bmSnap struct {
	size, shrink uint64
	blks         []uint64
	ind          map[uint64]map[uint64]uint64 // index block -> slot -> pointer (non-null)
	line         string
}

func (s *seqRun) bmSnapshot(h []byte) bmSnap {
	s.waitIdle()
	st := s.srv.VerifFsState()
	st.Txn.Flush()
	inum := inumOf(h)
	ip := inode.Decode(st.Txn.Load(st.Super.Inum2Addr(common.Inum(inum)), common.INODESZ*8), common.Inum(inum))
	sn := bmSnap{size: ip.Size, shrink: ip.ShrinkSize, ind: map[uint64]map[uint64]uint64{}}
	for _, b := range ip.VerifBlks() {
		sn.blks = append(sn.blks, uint64(b))
	}
	readInd := func(b uint64) map[uint64]uint64 {
		m := map[uint64]uint64{}
		if b == 0 || b >= st.Super.Size {
			return m
		}
		data := st.Txn.Load(addr.MkAddr(common.Bnum(b), 0), common.NBITBLOCK).Data
		for i := uint64(0); i < 512; i++ {
			if p := binary.LittleEndian.Uint64(data[8*i : 8*i+8]); p != 0 {
				m[i] = p
			}
		}
		return m
	}
	if sn.blks[8] != 0 {
		sn.ind[sn.blks[8]] = readInd(sn.blks[8])
	}
	if sn.blks[9] != 0 {
		root := readInd(sn.blks[9])
		sn.ind[sn.blks[9]] = root
		for _, q := range root {
			sn.ind[q] = readInd(q)
		}
	}
	var bs []string
	for _, b := range sn.blks {
		bs = append(bs, fmt.Sprintf("%d", b))
	}
	parts := []string{fmt.Sprintf("%d %d %s", sn.size, sn.shrink, strings.Join(bs, ","))}
	var ks []uint64
	for k := range sn.ind {
		ks = append(ks, k)
	}
	sort.Slice(ks, func(i, j int) bool { return ks[i] < ks[j] })
	for _, k := range ks {
		var es []string
		var is []uint64
		for i := range sn.ind[k] {
			is = append(is, i)
		}
		sort.Slice(is, func(a, b int) bool { return is[a] < is[b] })
		for _, i := range is {
			es = append(es, fmt.Sprintf("%d:%d", i, sn.ind[k][i]))
		}
		parts = append(parts, fmt.Sprintf("%d=%s", k, dashIfEmpty(strings.Join(es, ","))))
	}
	sn.line = strings.Join(parts, " | ")
	return sn
}

// lookup returns (root or index chain new blocks, leaf) for block bn in a snapshot
func (sn bmSnap) chain(bn uint64) []uint64 {
	switch {
	case bn < 8:
		return []uint64{sn.blks[bn]}
	case bn < 8+512:
		r := sn.blks[8]
		return []uint64{r, sn.ind[r][bn-8]}
	default:
		o := bn - 8 - 512
		r := sn.blks[9]
		q := sn.ind[r][o/512]
		return []uint64{r, q, sn.ind[q][o%512]}
	}
}

// allocsFor: the blocks that mapping [bn, bn+n) allocated, in allocation order, from before/after.
func allocsFor(before, after bmSnap, bn, n uint64) []string {
	var out []string
	seen := map[uint64]bool{}
	for b := bn; b < bn+n; b++ {
		cb, ca := before.chain(b), after.chain(b)
		for i := range ca {
			if ca[i] != 0 && cb[i] != ca[i] && !seen[ca[i]] {
				// (cb[i] may be non-zero only if the structure above it changed)
				seen[ca[i]] = true
				out = append(out, fmt.Sprintf("%d", ca[i]))
			}
		}
	}
	return out
}

func cmdBlockMap(fs *flag.FlagSet, args []string) {
	seed := fs.Uint64("seed", 1, "seed")
	ncase := fs.Int("cases", 40, "cases")
	nops := fs.Int("ops", 25, "operations per case")
	fs.Parse(args)
	root := NewRng(*seed)
	interesting := []uint64{0, 1, 6, 7, 8, 9, 100, 8 + 510, 8 + 511, 8 + 512, 8 + 513, 8 + 512 + 200, 8 + 512 + 511, 8 + 512 + 512, 8 + 512 + 513, 8 + 512 + 512*3 + 7}
	for c := 0; c < *ncase; c++ {
		small := c%3 == 2
		disksz := uint64(100000)
		if small {
			disksz = 1600 + uint64(root.Intn(3))*20 // 60..100 data blocks: running out of space is part of the case
		}
		s := newSeqRun(root.Fork(), disksz, true)
		s.sink = func(string) {}
		r := s.r
		f := s.mk("create", fh.MkRootFh3().Data, "f")
		if f == nil {
			s.close()
			continue
		}
		emit("bm case %d disk=%d", c, disksz)
		for i := 0; i < *nops && !s.dead; i++ {
			if small && i%6 == 2 {
				// leave exactly 0..3 free blocks: the next requests run out of space somewhere inside bmap
				s.fillTo(uint64(r.Intn(4)))
			}
			if small && i%6 == 5 {
				s.opRemove("remove", s.root(), "filler")
				s.opRemove("remove", s.root(), "filler2")
			}
			before := s.bmSnapshot(f)
			switch k := r.Intn(10); {
			case k < 5:
				bn := interesting[r.Intn(len(interesting))]
				n := uint64(1)
				if r.Chance(1, 3) {
					n = 2 + uint64(r.Intn(3))
				}
				if small && r.Chance(1, 2) {
					// near the direct/indirect and indirect/double-indirect boundaries, where index blocks are needed
					bn = []uint64{6, 7, 8 + 511}[r.Intn(3)]
					n = 2 + uint64(r.Intn(2))
				}
				var rep nfstypes.WRITE3res
				data := s.mkData(int(n * 4096))
				if !s.guarded("bm write", func() {
					rep = s.srv.NFSPROC3_WRITE(nfstypes.WRITE3args{File: mkfh3(f), Offset: nfstypes.Offset3(bn * 4096), Count: nfstypes.Count3(n * 4096), Stable: nfstypes.FILE_SYNC, Data: data})
				}) {
					break
				}
				after := s.bmSnapshot(f)
				cnt := uint64(0)
				if rep.Status == nfstypes.NFS3_OK {
					cnt = uint64(rep.Resok.Count) / 4096
				}
				al := allocsFor(before, after, bn, n)
				if cnt < n {
					al = append(al, "0")
				}
				emit("bm before %s", before.line)
				emit("bm op write %d %d %d %d %s", bn, n, rep.Status, cnt, dashIfEmpty(strings.Join(al, ",")))
				emit("bm after %s", after.line)
			case k < 7:
				// READ of one block inside the file (fills a hole)
				if before.size == 0 {
					continue
				}
				nb := (before.size + 4095) / 4096
				bn := interesting[r.Intn(len(interesting))]
				if bn >= nb {
					bn = uint64(r.Intn(int(nb)))
				}
				var rep nfstypes.READ3res
				if !s.guarded("bm read", func() {
					rep = s.srv.NFSPROC3_READ(nfstypes.READ3args{File: mkfh3(f), Offset: nfstypes.Offset3(bn * 4096), Count: 1})
				}) {
					break
				}
				after := s.bmSnapshot(f)
				al := allocsFor(before, after, bn, 1)
				if c := after.chain(bn); c[len(c)-1] == 0 {
					al = append(al, "0")
				}
				emit("bm before %s", before.line)
				emit("bm op read %d %d %s", bn, rep.Status, dashIfEmpty(strings.Join(al, ",")))
				emit("bm after %s", after.line)
			default:
				tb := interesting[r.Intn(len(interesting))]
				sz := tb * 4096
				if r.Chance(1, 3) {
					sz += uint64(1 + r.Intn(4095))
				}
				var st nfstypes.Nfsstat3
				var a nfstypes.SETATTR3args
				a.Object = mkfh3(f)
				a.New_attributes.Size = nfstypes.Set_size3{Set_it: true, Size: nfstypes.Size3(sz)}
				if !s.guarded("bm resize", func() { st = s.srv.NFSPROC3_SETATTR(a).Status }) {
					break
				}
				after := s.bmSnapshot(f)
				var al []string
				if sz < before.size && sz%4096 != 0 {
					al = allocsFor(before, after, sz/4096, 1)
					if c := after.chain(sz / 4096); c[len(c)-1] == 0 {
						al = append(al, "0")
					}
				}
				emit("bm before %s", before.line)
				emit("bm op resize %d %d %s", sz, st, dashIfEmpty(strings.Join(al, ",")))
				emit("bm after %s", after.line)
			}
		}
		s.close()
	}
}

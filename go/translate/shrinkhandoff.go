package main

// Tables for model M15 (the hand-over of unfinished truncations to shrinker threads):
//   shrinkerSpawn: for every function of package shrinker the kinds of its statements in source order (pre-order);
//   resizeUses:    for every call of (*Inode).Resize in package nfs what becomes of its result.

import (
	"go/ast"
	"go/parser"
	"go/token"
	"os"
	"path/filepath"
	"sort"
	"strings"
)

func parseDirFiles(dir string) []*ast.File {
	var out []*ast.File
	ents, err := os.ReadDir(filepath.Join(repo, dir))
	if err != nil {
		fail("shrink hand-over: %v", err)
	}
	var names []string
	for _, e := range ents {
		n := e.Name()
		if strings.HasSuffix(n, ".go") && !strings.HasSuffix(n, "_test.go") && !strings.HasPrefix(n, "verif_") {
			names = append(names, n)
		}
	}
	sort.Strings(names)
	for _, n := range names {
		f, err := parser.ParseFile(token.NewFileSet(), filepath.Join(repo, dir, n), nil, 0)
		if err != nil {
			fail("shrink hand-over: %v", err)
		}
		out = append(out, f)
	}
	return out
}

func shCallName(e ast.Expr) string {
	ce, ok := e.(*ast.CallExpr)
	if !ok {
		return ""
	}
	switch f := ce.Fun.(type) {
	case *ast.SelectorExpr:
		return f.Sel.Name
	case *ast.Ident:
		return f.Name
	}
	return ""
}

func stmtKinds(b *ast.BlockStmt, out *[]string) {
	for _, st := range b.List {
		switch s := st.(type) {
		case *ast.GoStmt:
			*out = append(*out, "go")
		case *ast.IfStmt:
			*out = append(*out, "if")
			stmtKinds(s.Body, out)
			if eb, ok := s.Else.(*ast.BlockStmt); ok {
				*out = append(*out, "else")
				stmtKinds(eb, out)
			} else if s.Else != nil {
				*out = append(*out, "else-if")
			}
			*out = append(*out, "fi")
		case *ast.ForStmt:
			*out = append(*out, "for")
			stmtKinds(s.Body, out)
			*out = append(*out, "rof")
		case *ast.RangeStmt:
			*out = append(*out, "for")
			stmtKinds(s.Body, out)
			*out = append(*out, "rof")
		case *ast.ReturnStmt:
			*out = append(*out, "return")
		case *ast.DeferStmt:
			*out = append(*out, "defer")
		case *ast.SwitchStmt, *ast.TypeSwitchStmt, *ast.SelectStmt:
			*out = append(*out, "switch")
		case *ast.BranchStmt:
			*out = append(*out, s.Tok.String())
		case *ast.ExprStmt:
			if n := shCallName(s.X); n != "" {
				*out = append(*out, "call:"+n)
			} else {
				*out = append(*out, "expr")
			}
		case *ast.AssignStmt:
			n := ""
			if len(s.Rhs) == 1 {
				n = shCallName(s.Rhs[0])
			}
			if n != "" {
				*out = append(*out, "set:"+n)
			} else {
				*out = append(*out, "set")
			}
		case *ast.DeclStmt:
			*out = append(*out, "decl")
		case *ast.BlockStmt:
			stmtKinds(s, out)
		default:
			*out = append(*out, "other")
		}
	}
}

func genShrinkerSpawn() []string {
	var rows []string
	for _, f := range parseDirFiles("shrinker") {
		for _, d := range f.Decls {
			fd, ok := d.(*ast.FuncDecl)
			if !ok || fd.Body == nil {
				continue
			}
			var ks []string
			stmtKinds(fd.Body, &ks)
			var qs []string
			for _, k := range ks {
				qs = append(qs, q(k))
			}
			rows = append(rows, "("+q(fd.Name.Name)+", ["+strings.Join(qs, ", ")+"])")
		}
	}
	return rows
}

// genResizeUses: every call of Resize in package nfs.  "starts-shrinker": the result is assigned to a variable v and a
// later statement of the same block is `if v { … StartShrinker(…) … }` (no else); anything else is reported as it is.
func genResizeUses() []string {
	var rows []string
	for _, f := range parseDirFiles("nfs") {
		for _, d := range f.Decls {
			fd, ok := d.(*ast.FuncDecl)
			if !ok || fd.Body == nil {
				continue
			}
			classified := map[*ast.CallExpr]bool{}
			var walk func(b *ast.BlockStmt)
			walk = func(b *ast.BlockStmt) {
				for i, st := range b.List {
					as, ok := st.(*ast.AssignStmt)
					if !ok || len(as.Rhs) != 1 || len(as.Lhs) != 1 || shCallName(as.Rhs[0]) != "Resize" {
						continue
					}
					v, ok := as.Lhs[0].(*ast.Ident)
					if !ok {
						continue
					}
					how := "result-not-followed-by-StartShrinker"
					for _, later := range b.List[i+1:] {
						is, ok := later.(*ast.IfStmt)
						if !ok || is.Else != nil || is.Init != nil {
							continue
						}
						c, ok := is.Cond.(*ast.Ident)
						if !ok || c.Name != v.Name {
							continue
						}
						for _, bs := range is.Body.List {
							if es, ok := bs.(*ast.ExprStmt); ok && shCallName(es.X) == "StartShrinker" {
								how = "starts-shrinker"
							}
						}
					}
					classified[as.Rhs[0].(*ast.CallExpr)] = true
					rows = append(rows, "("+q("nfs."+fd.Name.Name)+", "+q(how)+")")
				}
			}
			ast.Inspect(fd.Body, func(x ast.Node) bool {
				if b, ok := x.(*ast.BlockStmt); ok {
					walk(b)
				}
				return true
			})
			ast.Inspect(fd.Body, func(x ast.Node) bool {
				if ce, ok := x.(*ast.CallExpr); ok && shCallName(ce) == "Resize" && !classified[ce] {
					rows = append(rows, "("+q("nfs."+fd.Name.Name)+", "+q("result-dropped")+")")
				}
				return true
			})
		}
	}
	return rows
}

// genAbortPaths: the statement kinds of every function of fstxn/commit.go (same rendering as shrinkerSpawn): what an
// aborted transaction does to the cached inodes it may have modified in place.
func genAbortPaths() []string {
	var rows []string
	f, err := parser.ParseFile(token.NewFileSet(), filepath.Join(repo, "fstxn", "commit.go"), nil, 0)
	if err != nil {
		fail("abort paths: %v", err)
	}
	for _, d := range f.Decls {
		fd, ok := d.(*ast.FuncDecl)
		if !ok || fd.Body == nil {
			continue
		}
		var ks []string
		stmtKinds(fd.Body, &ks)
		var qs []string
		for _, k := range ks {
			qs = append(qs, q(k))
		}
		rows = append(rows, "("+q(fd.Name.Name)+", ["+strings.Join(qs, ", ")+"])")
	}
	return rows
}

// genRelockUses: "Caller must revalidate inodes" (nfs/lorder.go): every function of package nfs that locks inodes BY NUMBER
// (`lockInodes`) — which it does after having given the locks of a resolved handle back — with the number of such calls and
// the number of re-validations that follow the first of them in the source: comparisons of a `.Gen` field with `!=` / `==`
// and calls of `validateRename`; and `validateRename` itself with the number of `.Gen` comparisons it makes.
func genRelockUses() []string {
	var rows []string
	isGenCmp := func(x ast.Node) bool {
		be, ok := x.(*ast.BinaryExpr)
		if !ok || (be.Op != token.NEQ && be.Op != token.EQL) {
			return false
		}
		for _, side := range []ast.Expr{be.X, be.Y} {
			if se, ok := side.(*ast.SelectorExpr); ok && se.Sel.Name == "Gen" {
				return true
			}
		}
		return false
	}
	for _, f := range parseDirFiles("nfs") {
		for _, d := range f.Decls {
			fd, ok := d.(*ast.FuncDecl)
			if !ok || fd.Body == nil {
				continue
			}
			first := token.NoPos
			calls := 0
			ast.Inspect(fd.Body, func(x ast.Node) bool {
				if ce, ok := x.(*ast.CallExpr); ok && shCallName(ce) == "lockInodes" {
					calls++
					if first == token.NoPos || ce.Pos() < first {
						first = ce.Pos()
					}
				}
				return true
			})
			reval := 0
			ast.Inspect(fd.Body, func(x ast.Node) bool {
				if x == nil {
					return true
				}
				if fd.Name.Name == "validateRename" {
					if isGenCmp(x) {
						reval++
					}
					return true
				}
				if calls > 0 && x.Pos() > first {
					if isGenCmp(x) {
						reval++
					}
					if ce, ok := x.(*ast.CallExpr); ok && shCallName(ce) == "validateRename" {
						reval++
					}
				}
				return true
			})
			if calls > 0 || fd.Name.Name == "validateRename" {
				rows = append(rows, "("+q("nfs."+fd.Name.Name)+", "+itoaT(calls)+", "+itoaT(reval)+")")
			}
		}
	}
	return rows
}

func itoaT(n int) string {
	if n == 0 {
		return "0"
	}
	s := ""
	for n > 0 {
		s = string(rune('0'+n%10)) + s
		n /= 10
	}
	return s
}

package main

import (
	"os"
	"fmt"
	"go/ast"
	"go/parser"
	"go/token"
	"go/types"
	"path/filepath"
	"sort"
	"strings"
)

// genSkeleton extracts, for every function of nfs/nfs_ops.go, nfs/nfs_ls.go,
// nfs/lorder.go, dir/dir.go, dir/dcache.go and shrinker/shrinker.go, a control
// skeleton over the events that matter for the lock discipline:
//   acq v   an inode-typed variable receives a locked inode
//   use v   the inode a variable points to is read or written (or passed on)
//   fin     the transaction ends (commit or abort: every lock is released)
//   ret / brk / cont, sequences, branches and loops
// Lean (Model/Skeleton.lean) abstractly executes the skeleton and Props/C14
// decides that no path uses an inode after its lock was released.

// calls whose result is a locked inode (or a slice of them)
var acquiring = map[string]bool{
	"GetInodeFh": true, "GetInodeLocked": true, "GetInodeInum": true, "GetInodeInumFree": true,
	"GetInodeUnlocked": true, "AllocInode": true, "lockInodes": true, "lookupOrdered": true,
	"getShrink": true, "getInodesLocked": true, "getAlloc": true,
}

// calls that end the transaction of their receiver / first argument
var ending = map[string]bool{
	"errRet": true, "commitReply": true, "Commit": true, "CommitData": true, "CommitUnstable": true,
	"CommitFh": true, "Abort": true,
}

type skel struct {
	fset   *token.FileSet
	inodes map[string]bool // inode-typed variables of the current function
	stats  struct{ stmts, classified int }
	// mutex mode (genMutexSkeleton): the "variable" is the struct's own mutex "mu"; an access to a
	// guarded field of the receiver, or a call of a method that assumes the mutex, is a use of it
	mutex    bool
	recv     string
	guarded  map[string]bool
	assuming map[string]bool
}

// muCall recognises recv.mu.Lock() / recv.mu.Unlock()
func (k *skel) muCall(e ast.Expr, what string) bool {
	ce, ok := e.(*ast.CallExpr)
	if !ok {
		return false
	}
	se, ok := ce.Fun.(*ast.SelectorExpr)
	if !ok || se.Sel.Name != what {
		return false
	}
	in, ok := se.X.(*ast.SelectorExpr)
	if !ok || in.Sel.Name != "mu" {
		return false
	}
	id, ok := in.X.(*ast.Ident)
	return ok && id.Name == k.recv
}

// mutexUses: does the node touch a guarded field of the receiver (or call a method that assumes the mutex)?
func (k *skel) mutexUses(n ast.Node) []string {
	found := false
	ast.Inspect(n, func(m ast.Node) bool {
		if se, ok := m.(*ast.SelectorExpr); ok {
			if id, ok := se.X.(*ast.Ident); ok && id.Name == k.recv && (k.guarded[se.Sel.Name] || k.assuming[se.Sel.Name]) {
				found = true
			}
		}
		return true
	})
	if found {
		return []string{"mu"}
	}
	return nil
}

func (k *skel) ends(n ast.Node) bool {
	if k.mutex {
		return false
	}
	return endsTxn(n)
}

func isInodeType(e ast.Expr) bool {
	switch t := e.(type) {
	case *ast.StarExpr:
		if se, ok := t.X.(*ast.SelectorExpr); ok {
			return se.Sel.Name == "Inode"
		}
	case *ast.ArrayType:
		return isInodeType(t.Elt)
	}
	return false
}

func callName(ce *ast.CallExpr) string {
	switch f := ce.Fun.(type) {
	case *ast.Ident:
		return f.Name
	case *ast.SelectorExpr:
		return f.Sel.Name
	}
	return ""
}

// uses returns the inode variables whose object an expression touches
// (comparisons with nil and plain pointer copies into other inode variables excepted).
func (k *skel) uses(n ast.Node) []string {
	if k.mutex {
		if n == nil {
			return nil
		}
		return k.mutexUses(n)
	}
	seen := map[string]bool{}
	var walk func(n ast.Node)
	walk = func(n ast.Node) {
		if n == nil {
			return
		}
		switch x := n.(type) {
		case *ast.BinaryExpr:
			if x.Op == token.EQL || x.Op == token.NEQ {
				// pointer comparison (with nil or with another pointer): no access
				if isNilOrInodeIdent(k, x.X) && isNilOrInodeIdent(k, x.Y) {
					return
				}
			}
			walk(x.X)
			walk(x.Y)
			return
		case *ast.Ident:
			if k.inodes[x.Name] {
				seen[x.Name] = true
			}
			return
		case *ast.FuncLit:
			// closures are executed by the callee while the caller's locks are held: their
			// body counts as used at the call
			ast.Inspect(x.Body, func(m ast.Node) bool {
				if id, ok := m.(*ast.Ident); ok && k.inodes[id.Name] {
					seen[id.Name] = true
				}
				return true
			})
			return
		}
		ast.Inspect(n, func(m ast.Node) bool {
			if m == n {
				return true
			}
			switch m.(type) {
			case *ast.BinaryExpr, *ast.Ident, *ast.FuncLit:
				walk(m)
				return false
			}
			return true
		})
	}
	walk(n)
	var out []string
	for v := range seen {
		out = append(out, v)
	}
	sort.Strings(out)
	return out
}

func isNilOrInodeIdent(k *skel, e ast.Expr) bool {
	if id, ok := e.(*ast.Ident); ok {
		return id.Name == "nil" || k.inodes[id.Name]
	}
	return false
}

// isPointerCopy: the expression only copies inode pointers (no access to an inode)
func isPointerCopy(k *skel, e ast.Expr) bool {
	switch x := e.(type) {
	case *ast.Ident:
		return k.inodes[x.Name] || x.Name == "nil"
	case *ast.IndexExpr:
		if b, ok := x.X.(*ast.Ident); ok {
			return k.inodes[b.Name]
		}
	case *ast.CompositeLit:
		return isInodeType(x.Type)
	case *ast.CallExpr:
		return callName(x) == "twoInodes"
	}
	return false
}

func q(s string) string { return fmt.Sprintf("%q", s) }

// flagCond recognises `f` and `!f` for a plain (non-inode) identifier f.
func flagCond(k *skel, e ast.Expr) (name string, positive bool, ok bool) {
	switch x := e.(type) {
	case *ast.Ident:
		if !k.inodes[x.Name] && x.Name != "true" && x.Name != "false" {
			return x.Name, true, true
		}
	case *ast.UnaryExpr:
		if x.Op == token.NOT {
			if id, ok := x.X.(*ast.Ident); ok && !k.inodes[id.Name] {
				return id.Name, false, true
			}
		}
	case *ast.ParenExpr:
		return flagCond(k, x.X)
	}
	return "", false, false
}

func boolLit(e ast.Expr) (bool, bool) {
	if id, ok := e.(*ast.Ident); ok {
		if id.Name == "true" {
			return true, true
		}
		if id.Name == "false" {
			return false, true
		}
	}
	return false, false
}

func seqOf(parts []string) string {
	if len(parts) == 1 {
		return parts[0]
	}
	return ".seq [" + strings.Join(parts, ", ") + "]"
}

func (k *skel) useEvents(n ast.Node) []string {
	var out []string
	for _, v := range k.uses(n) {
		out = append(out, ".use "+q(v))
	}
	return out
}

// endsTxn reports whether an expression contains a call that ends the transaction.
func endsTxn(n ast.Node) bool {
	found := false
	ast.Inspect(n, func(m ast.Node) bool {
		if ce, ok := m.(*ast.CallExpr); ok && ending[callName(ce)] {
			found = true
		}
		return true
	})
	return found
}

func (k *skel) stmt(s ast.Stmt) string {
	k.stats.stmts++
	k.stats.classified++
	if k.mutex {
		if es, ok := s.(*ast.ExprStmt); ok {
			if k.muCall(es.X, "Lock") {
				return ".acq " + q("mu")
			}
			if k.muCall(es.X, "Unlock") {
				return ".fin"
			}
		}
	}
	switch x := s.(type) {
	case *ast.BlockStmt:
		return k.block(x.List)
	case *ast.DeclStmt:
		// a declared inode variable starts as nil
		var parts []string
		if gd, ok := x.Decl.(*ast.GenDecl); ok {
			for _, sp := range gd.Specs {
				if vs, ok := sp.(*ast.ValueSpec); ok {
					for i, n := range vs.Names {
						if k.inodes[n.Name] {
							if i < len(vs.Values) {
								if u := k.uses(vs.Values[i]); len(u) > 0 && isPointerCopy(k, vs.Values[i]) {
									parts = append(parts, ".copy "+q(n.Name)+" "+q(u[0]))
									continue
								}
							}
							parts = append(parts, ".kill "+q(n.Name))
						} else if i < len(vs.Values) {
							if b, ok := boolLit(vs.Values[i]); ok {
								parts = append(parts, fmt.Sprintf(".setFlag %s %v", q(n.Name), b))
							} else {
								parts = append(parts, k.useEvents(vs.Values[i])...)
							}
						}
					}
				}
			}
		}
		if len(parts) == 0 {
			return ".seq []"
		}
		return seqOf(parts)
	case *ast.AssignStmt:
		if len(x.Lhs) == 1 && len(x.Rhs) == 1 {
			if id, ok := x.Lhs[0].(*ast.Ident); ok && !k.inodes[id.Name] {
				if b, ok := boolLit(x.Rhs[0]); ok {
					return fmt.Sprintf(".setFlag %s %v", q(id.Name), b)
				}
			}
		}
		var parts []string
		// right-hand sides are evaluated first
		acq := false
		for _, r := range x.Rhs {
			if !isPointerCopy(k, r) {
				parts = append(parts, k.useEvents(r)...)
			}
			if ce, ok := r.(*ast.CallExpr); ok && acquiring[callName(ce)] {
				acq = true
			}
			if k.ends(r) {
				parts = append(parts, ".fin")
			}
		}
		for i, l := range x.Lhs {
			if id, ok := l.(*ast.Ident); ok && k.inodes[id.Name] {
				// the variable now denotes a freshly locked inode, or is a copy of another
				// variable / slice element (live exactly if that one is live)
				src := ""
				if !acq {
					var r ast.Expr
					if len(x.Rhs) == len(x.Lhs) {
						r = x.Rhs[i]
					} else if len(x.Rhs) == 1 {
						r = x.Rhs[0]
					}
					if u := k.uses(r); r != nil && len(u) > 0 {
						src = u[0]
					} else if rid, ok := r.(*ast.Ident); ok && rid.Name == "nil" {
						src = "nil"
					}
				}
				switch {
				case acq:
					parts = append(parts, ".acq "+q(id.Name))
				case src == "nil":
					parts = append(parts, ".kill "+q(id.Name))
				case src != "":
					parts = append(parts, ".copy "+q(id.Name)+" "+q(src))
				default:
					parts = append(parts, ".acq "+q(id.Name))
				}
				continue
			}
			// assignment through an inode variable (ip.Size = ...): an access
			parts = append(parts, k.useEvents(l)...)
		}
		if len(parts) == 0 {
			return ".seq []"
		}
		return seqOf(parts)
	case *ast.ExprStmt:
		parts := k.useEvents(x.X)
		if k.ends(x.X) {
			parts = append(parts, ".fin")
		}
		if ce, ok := x.X.(*ast.CallExpr); ok && callName(ce) == "panic" {
			parts = append(parts, ".ret")
		}
		if len(parts) == 0 {
			return ".seq []"
		}
		return seqOf(parts)
	case *ast.IncDecStmt:
		return seqOf(append(k.useEvents(x.X), ".seq []"))
	case *ast.ReturnStmt:
		var parts []string
		for _, r := range x.Results {
			if !isPointerCopy(k, r) { // handing a pointer back is not an access
				parts = append(parts, k.useEvents(r)...)
			}
		}
		return seqOf(append(parts, ".ret"))
	case *ast.BranchStmt:
		switch x.Tok {
		case token.BREAK:
			return ".brk"
		case token.CONTINUE:
			return ".cont"
		}
		fail("skeleton: %s: unsupported branch statement", k.fset.Position(s.Pos()))
	case *ast.IfStmt:
		var parts []string
		if x.Init != nil {
			parts = append(parts, k.stmt(x.Init))
		}
		parts = append(parts, k.useEvents(x.Cond)...)
		if k.ends(x.Cond) {
			parts = append(parts, ".fin")
		}
		thenS := k.block(x.Body.List)
		elseS := ".seq []"
		if x.Else != nil {
			elseS = k.stmt(x.Else)
		}
		if f, pos, ok := flagCond(k, x.Cond); ok {
			thenS = fmt.Sprintf(".seq [.assume %s %v, %s]", q(f), pos, thenS)
			elseS = fmt.Sprintf(".seq [.assume %s %v, %s]", q(f), !pos, elseS)
		}
		parts = append(parts, ".branch ["+thenS+", "+elseS+"]")
		return seqOf(parts)
	case *ast.ForStmt:
		var parts []string
		if x.Init != nil {
			parts = append(parts, k.stmt(x.Init))
		}
		var body []string
		if x.Cond != nil {
			if f, pos, ok := flagCond(k, x.Cond); ok {
				// the loop is left when the condition is false
				body = append(body, fmt.Sprintf(".branch [.seq [.assume %s %v, .brk], .seq [.assume %s %v]]", q(f), !pos, q(f), pos))
			} else {
				body = append(body, k.useEvents(x.Cond)...)
				body = append(body, ".branch [.brk, .seq []]")
			}
		}
		inner := k.block(x.Body.List)
		if x.Post != nil {
			// `continue` also runs the post statement
			body = append(body, inner, k.stmt(x.Post))
		} else {
			body = append(body, inner)
		}
		parts = append(parts, ".loop ("+seqOf(body)+")")
		return seqOf(parts)
	case *ast.RangeStmt:
		var parts []string
		parts = append(parts, k.useEvents(x.X)...)
		var body []string
		body = append(body, ".branch [.brk, .seq []]") // the range may be exhausted
		// the range variable of a slice of inodes denotes an element of it
		if id, ok := x.Value.(*ast.Ident); ok && k.inodes[id.Name] {
			if base, ok := x.X.(*ast.Ident); ok && k.inodes[base.Name] {
				body = append(body, ".copy "+q(id.Name)+" "+q(base.Name))
			} else {
				body = append(body, ".acq "+q(id.Name))
			}
		}
		body = append(body, k.block(x.Body.List))
		parts = append(parts, ".loop ("+seqOf(body)+")")
		return seqOf(parts)
	case *ast.SwitchStmt:
		var parts []string
		if x.Tag != nil {
			parts = append(parts, k.useEvents(x.Tag)...)
		}
		var alts []string
		hasDefault := false
		for _, c := range x.Body.List {
			cc := c.(*ast.CaseClause)
			if cc.List == nil {
				hasDefault = true
			}
			alts = append(alts, k.block(cc.Body))
		}
		if !hasDefault {
			alts = append(alts, ".seq []")
		}
		parts = append(parts, ".branch ["+strings.Join(alts, ", ")+"]")
		return seqOf(parts)
	case *ast.GoStmt, *ast.DeferStmt:
		return ".seq []"
	case *ast.EmptyStmt:
		return ".seq []"
	}
	k.stats.classified--
	fail("skeleton: %s: unsupported statement %T", k.fset.Position(s.Pos()), s)
	return ""
}

func (k *skel) block(list []ast.Stmt) string {
	var parts []string
	for _, s := range list {
		parts = append(parts, k.stmt(s))
	}
	if len(parts) == 0 {
		return ".seq []"
	}
	return ".seq [" + strings.Join(parts, ", ") + "]"
}

func genSkeleton() string {
	files := []string{"nfs/nfs_ops.go", "nfs/nfs_ls.go", "nfs/lorder.go", "dir/dir.go", "dir/dcache.go", "shrinker/shrinker.go"}
	var b strings.Builder
	b.WriteString("-- GENERATED by /verif/go/translate from /repo/nfs, /repo/dir, /repo/shrinker; do not edit.\n")
	b.WriteString("import GoNfsd.Model.Skeleton\nnamespace GoNfsd.Gen.Skeleton\nopen GoNfsd.Model.Skeleton\n\n")
	var names []string
	total := &skel{}
	for _, fn := range files {
		fset := token.NewFileSet()
		f, err := parser.ParseFile(fset, filepath.Join(repo, fn), nil, 0)
		if err != nil {
			fail("skeleton: %v", err)
		}
		for _, d := range f.Decls {
			fd, ok := d.(*ast.FuncDecl)
			if !ok || fd.Body == nil {
				continue
			}
			k := &skel{fset: fset, inodes: map[string]bool{}}
			var live []string
			// inode-typed parameters (and the receiver) are live at entry: the caller holds their locks
			addParams := func(fl *ast.FieldList) {
				if fl == nil {
					return
				}
				for _, p := range fl.List {
					if isInodeType(p.Type) {
						for _, n := range p.Names {
							k.inodes[n.Name] = true
							live = append(live, n.Name)
						}
					}
				}
			}
			addParams(fd.Recv)
			addParams(fd.Type.Params)
			// named results of inode type
			if fd.Type.Results != nil {
				for _, p := range fd.Type.Results.List {
					if isInodeType(p.Type) {
						for _, n := range p.Names {
							k.inodes[n.Name] = true
						}
					}
				}
			}
			// local inode variables: declared with the type, or defined from an acquiring call /
			// from another inode variable or an element of a slice of inodes
			changed := true
			for changed {
				changed = false
				ast.Inspect(fd.Body, func(n ast.Node) bool {
					switch x := n.(type) {
					case *ast.ValueSpec:
						if x.Type != nil && isInodeType(x.Type) {
							for _, nm := range x.Names {
								if !k.inodes[nm.Name] {
									k.inodes[nm.Name] = true
									changed = true
								}
							}
						}
					case *ast.AssignStmt:
						if x.Tok != token.DEFINE {
							return true
						}
						mark := func(id *ast.Ident) {
							if id.Name != "_" && !k.inodes[id.Name] {
								k.inodes[id.Name] = true
								changed = true
							}
						}
						if len(x.Rhs) == 1 {
							if ce, ok := x.Rhs[0].(*ast.CallExpr); ok && acquiring[callName(ce)] {
								pos := map[string][]int{"getShrink": {1}, "getInodesLocked": {1}, "getAlloc": {1, 2}}[callName(ce)]
								if pos == nil {
									pos = []int{0}
								}
								for _, p := range pos {
									if p < len(x.Lhs) {
										if id, ok := x.Lhs[p].(*ast.Ident); ok {
											mark(id)
										}
									}
								}
								return true
							}
						}
						for i, r := range x.Rhs {
							if i >= len(x.Lhs) {
								break
							}
							id, ok := x.Lhs[i].(*ast.Ident)
							if !ok {
								continue
							}
							switch rr := r.(type) {
							case *ast.Ident:
								if k.inodes[rr.Name] {
									mark(id)
								}
							case *ast.IndexExpr:
								if b, ok := rr.X.(*ast.Ident); ok && k.inodes[b.Name] {
									mark(id)
								}
							case *ast.CompositeLit:
								if isInodeType(rr.Type) {
									mark(id)
								}
							}
						}
					case *ast.RangeStmt:
						if b, ok := x.X.(*ast.Ident); ok && k.inodes[b.Name] {
							if id, ok := x.Value.(*ast.Ident); ok && !k.inodes[id.Name] {
								k.inodes[id.Name] = true
								changed = true
							}
						}
					}
					return true
				})
			}
			body := k.block(fd.Body.List)
			name := fd.Name.Name
			if fd.Recv != nil {
				name = "m_" + name
			}
			name = strings.ReplaceAll(filepath.Base(filepath.Dir(fn)), "-", "_") + "_" + name
			var lv []string
			for _, v := range live {
				lv = append(lv, q(v))
			}
			fmt.Fprintf(&b, "def %s : List String × Sk := ([%s], %s)\n\n", name, strings.Join(lv, ", "), body)
			names = append(names, fmt.Sprintf("(%s, %s)", q(name), name))
			total.stats.stmts += k.stats.stmts
			total.stats.classified += k.stats.classified
		}
	}
	mnames, mfields := genMutexSkeleton(&b, total)
	b.WriteString("/-- every method of a struct with its own mutex `mu` (its name, (held at entry, its skeleton)): `mu` is\n    acquired by `mu.Lock()`, released by `mu.Unlock()`, used by every access to a guarded field -/\n")
	b.WriteString("def mutexHandlers : List (String × (List String × Sk)) := [\n  ")
	b.WriteString(strings.Join(mnames, ",\n  "))
	b.WriteString("\n]\n\n")
	b.WriteString("/-- the methods that are ASSUMED to be called with `mu` held (they touch guarded fields and never lock): (name, is exported,\n    number of calls from outside the struct's own methods) -/\n")
	b.WriteString("def mutexAssumed : List (String × Bool × Nat) := [" + strings.Join(assumedOut, ", ") + "]\n\n")
	b.WriteString("/-- the structs with a mutex and the fields counted as guarded by it -/\n")
	b.WriteString("def mutexGuardedFields : List (String × List String) := [" + strings.Join(mfields, ", ") + "]\n\n")
	b.WriteString("/-- every function with (its name, (inode variables live at entry, its skeleton)) -/\n")
	b.WriteString("def handlers : List (String × (List String × Sk)) := [\n  ")
	b.WriteString(strings.Join(names, ",\n  "))
	b.WriteString("\n]\n\n")
	fmt.Fprintf(&b, "def statementsSeen : Nat := %d\ndef statementsClassified : Nat := %d\n", total.stats.stmts, total.stats.classified)
	b.WriteString("\n/-- every function of package fstxn that touches the inode lock table or the inode cache: the calls\n    `Lockmap.Acquire`, `Lockmap.Release`, `Icache.LookupSlot` (kind 0), the calls of other functions of this\n    list (kind 1) and anything else done to the two tables (kind 2), in source order -/\n")
	b.WriteString("def slotUses : List (String × List (Nat × String)) := [\n  " + strings.Join(genSlotUses(), ",\n  ") + "\n]\n")
	b.WriteString("\n/-- every function of /repo (tests aside) that calls `Flush()` — `obj.Log.Flush`, which flushes up to the\n    log position the journal REMEMBERS (reset by a refused transaction) -/\n")
	b.WriteString("def flushCallers : List String := [" + strings.Join(genFlushCallers(), ", ") + "]\n")
	b.WriteString("\n/-- every journal object the file-system layer reads or overwrites: (package.function, `ReadBuf` / `OverWrite`,\n    the size argument in bits as written in the source), in source order -/\n")
	b.WriteString("def journalObjects : List (String × String × String) := [\n  " + strings.Join(genJournalObjects(), ",\n  ") + "\n]\n")
	b.WriteString("\n/-- every access to a struct field that some sync/atomic call of the module synchronises, and every plain copy\n    of a struct holding one: (pkg.Func, 0 = through sync/atomic | 1 = in a variable private to the function | 2 = in shared memory, what) -/\n")
	b.WriteString("def atomicUses : List (String × Nat × String) := [\n  " + strings.Join(genAtomicUses(), ",\n  ") + "\n]\n")
	b.WriteString("\n/-- every function of simple/ops.go that takes the per-inode lock, calls an `_internal` body or commits, with\n    those calls in source order: (name, is a body run under the caller's lock, [(0, _) Acquire | (1, _) Release |\n    (2, the `_internal` body called) | (3, the wait argument of CommitWait as written)]) -/\n")
	b.WriteString("def simpleLockUses : List (String × Bool × List (Nat × String)) := [\n  " + strings.Join(genSimpleLocks(), ",\n  ") + "\n]\n")
	b.WriteString("\n/-- the same table for kvs/kvs.go (methods of *KVS; there are no bodies) -/\n")
	b.WriteString("def kvsLockUses : List (String × Bool × List (Nat × String)) := [\n  " + strings.Join(genLockUses("kvs", "kvs.go"), ",\n  ") + "\n]\n")
	b.WriteString("\n/-- the commit paths of package fstxn (fstxn/commit.go), calls in source order: (function, [(0, wait argument of the\n    journal's CommitWait) | (1, a call that gives the inode locks back: postCommit, releaseInodes, Abort) |\n    (2, wait argument of the package's own commitWait) | (3, delegation to Commit / CommitData) | (4, Flush)]) -/\n")
	b.WriteString("def commitPaths : List (String × List (Nat × String)) := [\n  " + strings.Join(genCommitPaths(), ",\n  ") + "\n]\n")
	b.WriteString("\n/-- every function outside fstxn/commit.go that commits without waiting (calls `CommitUnstable`) -/\n")
	b.WriteString("def unstableCommitters : List String := [" + strings.Join(genUnstableCommitters(), ", ") + "]\n")
	b.WriteString("\n/-- every function of package shrinker with the kinds of its statements in source order (pre-order; `go`, `if` … `fi`,\n    `for` … `rof`, `return`, `call:<callee>`, `set:<callee>`, …) -/\n")
	b.WriteString("def shrinkerSpawn : List (String × List String) := [\n  " + strings.Join(genShrinkerSpawn(), ",\n  ") + "\n]\n")
	b.WriteString("\n/-- every call of `Resize` in package nfs and what becomes of its result (`starts-shrinker`: assigned to a variable\n    that guards a later `StartShrinker` call in the same block) -/\n")
	b.WriteString("def resizeUses : List (String × String) := [\n  " + strings.Join(genResizeUses(), ",\n  ") + "\n]\n")
	b.WriteString("\n/-- every assignment to a field of a struct declared in the module: (pkg.Func, pkg.Type, field, `local`: the struct is a\n    variable built in this function | `shared`: anything else) -/\n")
	b.WriteString("def fieldWrites : List (String × String × String × String) := [\n  " + strings.Join(genFieldWrites(), ",\n  ") + "\n]\n")
	b.WriteString("\n/-- every function of fstxn/commit.go with the kinds of its statements in source order (as `shrinkerSpawn`) -/\n")
	b.WriteString("def abortPaths : List (String × List String) := [\n  " + strings.Join(genAbortPaths(), ",\n  ") + "\n]\n")
	b.WriteString("\n/-- every function of package nfs that locks inodes by number (`lockInodes`): (function, number of such calls, number of\n    re-validations after the first of them: `.Gen` comparisons and calls of `validateRename`); `validateRename` itself with\n    the number of `.Gen` comparisons it makes -/\n")
	b.WriteString("def relockUses : List (String × Nat × Nat) := [\n  " + strings.Join(genRelockUses(), ",\n  ") + "\n]\n")
	b.WriteString("\nend GoNfsd.Gen.Skeleton\n")
	return b.String()
}

// genJournalObjects: the journal merges sub-block objects of concurrent transactions at commit
// time and relies on each object being owned exclusively by the transaction that writes it; the
// owner is the holder of a lock (inode slot, data block of a locked inode) or of an allocator
// number (ONE bit of a bitmap).  The size of every object accessed is therefore part of the
// locking discipline.
func genJournalObjects() []string {
	var out []string
	for _, dir := range []string{"alloctxn", "inode", "fstxn", "dir", "nfs", "shrinker"} {
		ents, err := os.ReadDir(filepath.Join(repo, dir))
		if err != nil {
			continue
		}
		var names []string
		for _, e := range ents {
			n := e.Name()
			if strings.HasSuffix(n, ".go") && !strings.HasSuffix(n, "_test.go") {
				names = append(names, n)
			}
		}
		sort.Strings(names)
		for _, n := range names {
			fset := token.NewFileSet()
			f, err := parser.ParseFile(fset, filepath.Join(repo, dir, n), nil, 0)
			if err != nil {
				fail("journal objects: %v", err)
			}
			for _, d := range f.Decls {
				fd, ok := d.(*ast.FuncDecl)
				if !ok || fd.Body == nil {
					continue
				}
				ast.Inspect(fd.Body, func(x ast.Node) bool {
					ce, ok := x.(*ast.CallExpr)
					if !ok {
						return true
					}
					se, ok := ce.Fun.(*ast.SelectorExpr)
					if !ok || (se.Sel.Name != "OverWrite" && se.Sel.Name != "ReadBuf") || len(ce.Args) < 2 {
						return true
					}
					out = append(out, fmt.Sprintf("(%s, %s, %s)", q(dir+"."+fd.Name.Name), q(se.Sel.Name), q(types.ExprString(ce.Args[1]))))
					return true
				})
			}
		}
	}
	return out
}

// genFlushCallers: "pkg.Func" for every function of the module that calls a method `Flush` without arguments.
func genFlushCallers() []string {
	var out []string
	for _, dir := range []string{"fstxn", "nfs", "kvs", "simple", "shrinker", "alloctxn", "inode", "dir", "cache", "super", "fh"} {
		ents, err := os.ReadDir(filepath.Join(repo, dir))
		if err != nil {
			continue
		}
		for _, e := range ents {
			n := e.Name()
			if !strings.HasSuffix(n, ".go") || strings.HasSuffix(n, "_test.go") {
				continue
			}
			fset := token.NewFileSet()
			f, err := parser.ParseFile(fset, filepath.Join(repo, dir, n), nil, 0)
			if err != nil {
				fail("flush callers: %v", err)
			}
			for _, d := range f.Decls {
				fd, ok := d.(*ast.FuncDecl)
				if !ok || fd.Body == nil {
					continue
				}
				calls := false
				ast.Inspect(fd.Body, func(x ast.Node) bool {
					if ce, ok := x.(*ast.CallExpr); ok && len(ce.Args) == 0 {
						if se, ok := ce.Fun.(*ast.SelectorExpr); ok && se.Sel.Name == "Flush" {
							calls = true
						}
					}
					return true
				})
				if calls {
					out = append(out, q(dir+"."+fd.Name.Name))
				}
			}
		}
	}
	sort.Strings(out)
	return out
}

// genSlotUses: the order in which the functions of fstxn take the inode lock and fetch the
// inode's cache slot.  A slot pointer fetched BEFORE the lock is held can be an evicted entry's
// by the time the lock is granted (the LRU evicts regardless of waiters): the holder before us
// and we would then work on two different objects for one inode.
func genSlotUses() []string {
	type fn struct {
		name  string
		calls []string
	}
	var fns []fn
	own := map[string]bool{}
	var decls []*ast.FuncDecl
	for _, file := range []string{"fstxn/fstxn.go", "fstxn/commit.go"} {
		fset := token.NewFileSet()
		f, err := parser.ParseFile(fset, filepath.Join(repo, file), nil, 0)
		if err != nil {
			fail("slot uses: %v", err)
		}
		for _, d := range f.Decls {
			if fd, ok := d.(*ast.FuncDecl); ok && fd.Body != nil {
				decls = append(decls, fd)
				own[fd.Name.Name] = true
			}
		}
	}
	selChain := func(e ast.Expr) []string {
		var parts []string
		for {
			se, ok := e.(*ast.SelectorExpr)
			if !ok {
				break
			}
			parts = append([]string{se.Sel.Name}, parts...)
			e = se.X
		}
		return parts
	}
	for _, fd := range decls {
		var calls []string
		ast.Inspect(fd.Body, func(n ast.Node) bool {
			ce, ok := n.(*ast.CallExpr)
			if !ok {
				return true
			}
			ch := selChain(ce.Fun)
			if len(ch) >= 2 {
				m, owner := ch[len(ch)-1], ch[len(ch)-2]
				switch {
				case owner == "Lockmap" && (m == "Acquire" || m == "Release"):
					calls = append(calls, m)
				case owner == "Icache" && m == "LookupSlot":
					calls = append(calls, m)
				case owner == "Icache" || owner == "Lockmap":
					calls = append(calls, owner+"."+m) // anything else on these two is unknown to the rule
				}
			}
			if len(ch) >= 1 && own[ch[len(ch)-1]] && ch[len(ch)-1] != fd.Name.Name {
				calls = append(calls, "call:"+ch[len(ch)-1])
			}
			return true
		})
		fns = append(fns, fn{fd.Name.Name, calls})
	}
	// keep the functions that touch the two tables, directly or through a function that does
	rel := map[string]bool{}
	for changed := true; changed; {
		changed = false
		for _, f := range fns {
			if rel[f.name] {
				continue
			}
			for _, c := range f.calls {
				if !strings.HasPrefix(c, "call:") || rel[strings.TrimPrefix(c, "call:")] {
					rel[f.name] = true
					changed = true
					break
				}
			}
		}
	}
	var out []string
	for _, f := range fns {
		if !rel[f.name] {
			continue
		}
		var qs []string
		for _, c := range f.calls {
			if strings.HasPrefix(c, "call:") && !rel[strings.TrimPrefix(c, "call:")] {
				continue
			}
			switch {
			case strings.HasPrefix(c, "call:"):
				qs = append(qs, fmt.Sprintf("(1, %s)", q(strings.TrimPrefix(c, "call:"))))
			case c == "Acquire" || c == "Release" || c == "LookupSlot":
				qs = append(qs, fmt.Sprintf("(0, %s)", q(c)))
			default:
				qs = append(qs, fmt.Sprintf("(2, %s)", q(c)))
			}
		}
		out = append(out, fmt.Sprintf("(%s, [%s])", q(f.name), strings.Join(qs, ", ")))
	}
	return out
}

// genMutexSkeleton: for every struct of the module that carries its own mutex (a field `mu`),
// the skeleton of each of its methods over the events
//   acq "mu"  = recv.mu.Lock()      fin = recv.mu.Unlock()
//   use "mu"  = an access to a guarded field of the receiver, or a call of a method of the
//               struct that touches guarded fields without locking (it assumes the mutex)
// A method that locks starts with the mutex released; a method that assumes the mutex starts with
// it held.  Guarded fields: maps, *list.List, and every field assigned in some method.
var assumedOut []string

func genMutexSkeleton(b *strings.Builder, total *skel) (names []string, fieldsOut []string) {
	assumedOut = nil
	dirs, err := filepath.Glob(filepath.Join(repo, "*"))
	if err != nil {
		fail("mutex skeleton: %v", err)
	}
	sort.Strings(dirs)
	for _, dir := range dirs {
		base := filepath.Base(dir)
		if base == "cmd" || base == "bench" || base == "eval" || base == "artifact" || strings.HasPrefix(base, ".") {
			continue
		}
		gofiles, _ := filepath.Glob(filepath.Join(dir, "*.go"))
		sort.Strings(gofiles)
		fset := token.NewFileSet()
		var files []*ast.File
		for _, gf := range gofiles {
			if strings.HasSuffix(gf, "_test.go") || strings.HasPrefix(filepath.Base(gf), "verif_") {
				continue
			}
			f, err := parser.ParseFile(fset, gf, nil, 0)
			if err != nil {
				fail("mutex skeleton: %v", err)
			}
			files = append(files, f)
		}
		// structs with a field `mu`
		type st struct {
			fields  []string
			guarded map[string]bool
		}
		structs := map[string]*st{}
		var order []string
		for _, f := range files {
			ast.Inspect(f, func(n ast.Node) bool {
				ts, ok := n.(*ast.TypeSpec)
				if !ok {
					return true
				}
				stt, ok := ts.Type.(*ast.StructType)
				if !ok {
					return true
				}
				hasMu := false
				x := &st{guarded: map[string]bool{}}
				for _, fl := range stt.Fields.List {
					for _, nm := range fl.Names {
						if nm.Name == "mu" {
							hasMu = true
							continue
						}
						x.fields = append(x.fields, nm.Name)
						switch t := fl.Type.(type) {
						case *ast.MapType:
							x.guarded[nm.Name] = true
						case *ast.StarExpr:
							if se, ok := t.X.(*ast.SelectorExpr); ok {
								if pk, ok := se.X.(*ast.Ident); ok && pk.Name == "list" {
									x.guarded[nm.Name] = true
								}
							}
						}
					}
				}
				if hasMu {
					structs[ts.Name.Name] = x
					order = append(order, ts.Name.Name)
				}
				return true
			})
		}
		if len(structs) == 0 {
			continue
		}
		recvOf := func(fd *ast.FuncDecl) (typ, name string) {
			if fd.Recv == nil || len(fd.Recv.List) != 1 || len(fd.Recv.List[0].Names) != 1 {
				return "", ""
			}
			t := fd.Recv.List[0].Type
			if se, ok := t.(*ast.StarExpr); ok {
				t = se.X
			}
			if id, ok := t.(*ast.Ident); ok {
				return id.Name, fd.Recv.List[0].Names[0].Name
			}
			return "", ""
		}
		var methods []*ast.FuncDecl
		for _, f := range files {
			for _, d := range f.Decls {
				if fd, ok := d.(*ast.FuncDecl); ok && fd.Body != nil {
					if t, _ := recvOf(fd); structs[t] != nil {
						methods = append(methods, fd)
					}
				}
			}
		}
		// fields assigned in some method are guarded
		for _, fd := range methods {
			t, rv := recvOf(fd)
			x := structs[t]
			fieldOf := func(e ast.Expr) string {
				if ie, ok := e.(*ast.IndexExpr); ok {
					e = ie.X
				}
				if se, ok := e.(*ast.SelectorExpr); ok {
					if id, ok := se.X.(*ast.Ident); ok && id.Name == rv {
						return se.Sel.Name
					}
				}
				return ""
			}
			ast.Inspect(fd.Body, func(n ast.Node) bool {
				switch a := n.(type) {
				case *ast.AssignStmt:
					for _, l := range a.Lhs {
						if f := fieldOf(l); f != "" && f != "mu" {
							x.guarded[f] = true
						}
					}
				case *ast.IncDecStmt:
					if f := fieldOf(a.X); f != "" && f != "mu" {
						x.guarded[f] = true
					}
				}
				return true
			})
		}
		// methods that touch guarded fields without locking assume the mutex (closed under calls)
		assuming := map[string]map[string]bool{}
		locking := map[*ast.FuncDecl]bool{}
		for _, t := range order {
			assuming[t] = map[string]bool{}
		}
		for _, fd := range methods {
			_, rv := recvOf(fd)
			k := &skel{mutex: true, recv: rv}
			ast.Inspect(fd.Body, func(n ast.Node) bool {
				if e, ok := n.(ast.Expr); ok && k.muCall(e, "Lock") {
					locking[fd] = true
				}
				return true
			})
		}
		for changed := true; changed; {
			changed = false
			for _, fd := range methods {
				t, rv := recvOf(fd)
				if locking[fd] || assuming[t][fd.Name.Name] {
					continue
				}
				k := &skel{mutex: true, recv: rv, guarded: structs[t].guarded, assuming: assuming[t]}
				if len(k.mutexUses(fd.Body)) > 0 {
					assuming[t][fd.Name.Name] = true
					changed = true
				}
			}
		}
		for _, fd := range methods {
			t, rv := recvOf(fd)
			k := &skel{fset: fset, inodes: map[string]bool{}, mutex: true, recv: rv, guarded: structs[t].guarded, assuming: assuming[t]}
			body := k.block(fd.Body.List)
			held := "[]"
			if assuming[t][fd.Name.Name] {
				held = "[" + q("mu") + "]"
				// the assumption "the caller holds mu" is the caller's to keep: such a method must not be reachable from outside
				// the struct's own methods (an exported one is; so is one that a plain function of the package calls)
				outside := 0
				for _, f2 := range files {
					for _, d2 := range f2.Decls {
						fd2, ok := d2.(*ast.FuncDecl)
						if !ok || fd2.Body == nil {
							continue
						}
						if t2, _ := recvOf(fd2); fd2.Recv != nil && t2 == t {
							continue
						}
						ast.Inspect(fd2.Body, func(n ast.Node) bool {
							if ce, ok := n.(*ast.CallExpr); ok {
								if se, ok := ce.Fun.(*ast.SelectorExpr); ok && se.Sel.Name == fd.Name.Name {
									outside++
								}
							}
							return true
						})
					}
				}
				exported := "false"
				if ast.IsExported(fd.Name.Name) {
					exported = "true"
				}
				assumedOut = append(assumedOut, fmt.Sprintf("(%s, %s, %d)", q("mu_"+base+"_"+t+"_"+fd.Name.Name), exported, outside))
			} else {
				// released at entry: acquired and released once before the body
				body = ".seq [.acq " + q("mu") + ", .fin, " + body + "]"
			}
			name := "mu_" + base + "_" + t + "_" + fd.Name.Name
			fmt.Fprintf(b, "def %s : List String × Sk := (%s, %s)\n\n", name, held, body)
			names = append(names, fmt.Sprintf("(%s, %s)", q(name), name))
			total.stats.stmts += k.stats.stmts
			total.stats.classified += k.stats.classified
		}
		for _, t := range order {
			var g []string
			for _, f := range structs[t].fields {
				if structs[t].guarded[f] {
					g = append(g, q(f))
				}
			}
			fieldsOut = append(fieldsOut, fmt.Sprintf("(%s, [%s])", q(base+"."+t), strings.Join(g, ", ")))
		}
	}
	return names, fieldsOut
}

// genSimpleLocks: the simple server's version of "locks are given back only after the flush"
// (Model/Reveal): a handler takes the inode's lock, runs its body — which reads, writes and
// commits WAITING for the disk — and only then gives the lock back.
func genSimpleLocks() []string { return genLockUses("simple", "ops.go") }

func genLockUses(dir, file string) []string {
	fset := token.NewFileSet()
	f, err := parser.ParseFile(fset, filepath.Join(repo, dir, file), nil, 0)
	if err != nil {
		fail("simple locks: %v", err)
	}
	var out []string
	for _, d := range f.Decls {
		fd, ok := d.(*ast.FuncDecl)
		if !ok || fd.Body == nil {
			continue
		}
		var toks []string
		ast.Inspect(fd.Body, func(x ast.Node) bool {
			ce, ok := x.(*ast.CallExpr)
			if !ok {
				return true
			}
			name := ""
			switch fn := ce.Fun.(type) {
			case *ast.SelectorExpr:
				name = fn.Sel.Name
			case *ast.Ident:
				name = fn.Name
			}
			switch {
			case name == "Acquire":
				toks = append(toks, "(0, \"\")")
			case name == "Release":
				toks = append(toks, "(1, \"\")")
			case name == "CommitWait" && len(ce.Args) == 1:
				toks = append(toks, "(3, "+q(types.ExprString(ce.Args[0]))+")")
			case strings.HasSuffix(name, "_internal"):
				toks = append(toks, "(2, "+q(name)+")")
			}
			return true
		})
		if len(toks) > 0 {
			body := "false" // a body runs under its caller's lock
			if fd.Recv == nil {
				body = "true"
			}
			out = append(out, fmt.Sprintf("(%s, %s, [%s])", q(fd.Name.Name), body, strings.Join(toks, ", ")))
		}
	}
	return out
}

// genCommitPaths: model M14 (Model/Reveal) needs the inode locks to be given back only after the
// journal's waiting commit has returned; only an unstable WRITE may commit without waiting.
func genCommitPaths() []string {
	fset := token.NewFileSet()
	f, err := parser.ParseFile(fset, filepath.Join(repo, "fstxn", "commit.go"), nil, 0)
	if err != nil {
		fail("commit paths: %v", err)
	}
	var out []string
	for _, d := range f.Decls {
		fd, ok := d.(*ast.FuncDecl)
		if !ok || fd.Body == nil {
			continue
		}
		var toks []string
		ast.Inspect(fd.Body, func(x ast.Node) bool {
			ce, ok := x.(*ast.CallExpr)
			if !ok {
				return true
			}
			se, ok := ce.Fun.(*ast.SelectorExpr)
			if !ok {
				return true
			}
			arg := ""
			if len(ce.Args) == 1 {
				arg = types.ExprString(ce.Args[0])
			}
			switch se.Sel.Name {
			case "CommitWait":
				toks = append(toks, "(0, "+q(arg)+")")
			case "postCommit", "releaseInodes", "Abort":
				toks = append(toks, "(1, "+q(se.Sel.Name)+")")
			case "commitWait":
				toks = append(toks, "(2, "+q(arg)+")")
			case "Commit", "CommitData":
				toks = append(toks, "(3, "+q(se.Sel.Name)+")")
			case "Flush":
				toks = append(toks, "(4, \"\")")
			}
			return true
		})
		if len(toks) > 0 {
			out = append(out, fmt.Sprintf("(%s, [%s])", q(fd.Name.Name), strings.Join(toks, ", ")))
		}
	}
	return out
}

func genUnstableCommitters() []string {
	var out []string
	for _, dir := range []string{"nfs", "shrinker", "dir", "inode", "alloctxn", "fstxn"} {
		ents, err := os.ReadDir(filepath.Join(repo, dir))
		if err != nil {
			continue
		}
		for _, e := range ents {
			n := e.Name()
			if !strings.HasSuffix(n, ".go") || strings.HasSuffix(n, "_test.go") || (dir == "fstxn" && n == "commit.go") {
				continue
			}
			fset := token.NewFileSet()
			f, err := parser.ParseFile(fset, filepath.Join(repo, dir, n), nil, 0)
			if err != nil {
				fail("unstable committers: %v", err)
			}
			for _, d := range f.Decls {
				fd, ok := d.(*ast.FuncDecl)
				if !ok || fd.Body == nil {
					continue
				}
				calls := false
				ast.Inspect(fd.Body, func(x ast.Node) bool {
					if ce, ok := x.(*ast.CallExpr); ok {
						if se, ok := ce.Fun.(*ast.SelectorExpr); ok && (se.Sel.Name == "CommitUnstable" || se.Sel.Name == "commitWait") {
							calls = true
						}
					}
					return true
				})
				if calls {
					out = append(out, q(dir+"."+fd.Name.Name))
				}
			}
		}
	}
	sort.Strings(out)
	return out
}

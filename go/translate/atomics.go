package main

// genAtomicUses: memory that is synchronised by sync/atomic alone.
//
// A struct field that is passed to a sync/atomic function anywhere in the module ("atomic field")
// is shared memory ordered by those calls only: there is no lock around it.  Every other way of
// reading or writing it races with the atomic writers, unless the variable it lives in is private
// to the function (a local built from a composite literal, make, new or a zero `var`).  A plain
// COPY of a struct holding such fields (assignment, range value, argument, value receiver,
// return) reads the fields non-atomically, so it is an access too.
//
// For every function of the module the translator lists, in source order,
//   (pkg.Func, code, kind text)   kind = "atomic" (code 0) | "plain-local", "copy-local", "store-local" (code 1) | "plain-shared", "copy-shared", "store-shared" (code 2)
// and Lean (Props/C14) decides that no entry has code 2.  Types come from go/types run over
// the module's own packages (imports from outside the module are left unresolved: an atomic field
// is always a field of a struct declared in the module).

import (
	"fmt"
	"go/ast"
	"go/parser"
	"go/token"
	"go/types"
	"os"
	"path/filepath"
	"sort"
	"strings"
)

const modPath = "github.com/mit-pdos/go-nfsd"

type modPkg struct {
	pkg   *types.Package
	info  *types.Info
	files []*ast.File
	dir   string
}

type modLoader struct {
	fset *token.FileSet
	pkgs map[string]*modPkg
	busy map[string]bool
}

func (l *modLoader) Import(path string) (*types.Package, error) {
	if path == "unsafe" {
		return types.Unsafe, nil
	}
	if path == modPath || strings.HasPrefix(path, modPath+"/") {
		rel := strings.TrimPrefix(strings.TrimPrefix(path, modPath), "/")
		if p := l.load(rel); p != nil {
			return p.pkg, nil
		}
	}
	// outside the module: an empty package (selectors on it stay unresolved)
	name := path[strings.LastIndex(path, "/")+1:]
	p := types.NewPackage(path, name)
	p.MarkComplete()
	return p, nil
}

func (l *modLoader) load(rel string) *modPkg {
	if p, ok := l.pkgs[rel]; ok {
		return p
	}
	if l.busy[rel] {
		return nil
	}
	l.busy[rel] = true
	defer delete(l.busy, rel)
	dir := filepath.Join(repo, rel)
	ents, err := os.ReadDir(dir)
	if err != nil {
		return nil
	}
	var files []*ast.File
	var names []string
	for _, e := range ents {
		n := e.Name()
		if strings.HasSuffix(n, ".go") && !strings.HasSuffix(n, "_test.go") && !e.IsDir() {
			names = append(names, n)
		}
	}
	sort.Strings(names)
	pkgName := ""
	for _, n := range names {
		f, err := parser.ParseFile(l.fset, filepath.Join(dir, n), nil, parser.ParseComments)
		if err != nil {
			fail("atomic uses: %v", err)
		}
		// the build-tag guarded twin files declare the same names twice; the guarded-off half suffices
		if strings.HasPrefix(n, "verif_on") {
			continue
		}
		if pkgName == "" {
			pkgName = f.Name.Name
		}
		if f.Name.Name != pkgName {
			continue
		}
		files = append(files, f)
	}
	if len(files) == 0 {
		return nil
	}
	info := &types.Info{
		Types:      map[ast.Expr]types.TypeAndValue{},
		Defs:       map[*ast.Ident]types.Object{},
		Uses:       map[*ast.Ident]types.Object{},
		Selections: map[*ast.SelectorExpr]*types.Selection{},
	}
	conf := types.Config{Importer: l, Error: func(error) {}, DisableUnusedImportCheck: true}
	path := modPath
	if rel != "" {
		path += "/" + rel
	}
	pkg, _ := conf.Check(path, l.fset, files, info)
	p := &modPkg{pkg: pkg, info: info, files: files, dir: rel}
	l.pkgs[rel] = p
	return p
}

func modDirs() []string {
	var dirs []string
	filepath.Walk(repo, func(p string, fi os.FileInfo, err error) error {
		if err != nil {
			return nil
		}
		if fi.IsDir() {
			b := filepath.Base(p)
			if p != repo && (strings.HasPrefix(b, ".") || b == "vendor" || b == "testdata") {
				return filepath.SkipDir
			}
			rel, _ := filepath.Rel(repo, p)
			if rel == "." {
				rel = ""
			}
			dirs = append(dirs, rel)
		}
		return nil
	})
	sort.Strings(dirs)
	return dirs
}

func genAtomicUses() []string {
	l := &modLoader{fset: token.NewFileSet(), pkgs: map[string]*modPkg{}, busy: map[string]bool{}}
	var pkgs []*modPkg
	for _, d := range modDirs() {
		if p := l.load(d); p != nil {
			pkgs = append(pkgs, p)
		}
	}
	// pass 1: the atomic fields, and the selector expressions that are atomic accesses
	atomicField := map[*types.Var]bool{}
	atomicSel := map[*ast.SelectorExpr]bool{}
	for _, p := range pkgs {
		for _, f := range p.files {
			ast.Inspect(f, func(n ast.Node) bool {
				ce, ok := n.(*ast.CallExpr)
				if !ok || len(ce.Args) == 0 {
					return true
				}
				fs, ok := ce.Fun.(*ast.SelectorExpr)
				if !ok {
					return true
				}
				id, ok := fs.X.(*ast.Ident)
				if !ok {
					return true
				}
				pn, ok := p.info.Uses[id].(*types.PkgName)
				if !ok || pn.Imported().Path() != "sync/atomic" {
					return true
				}
				ue, ok := ce.Args[0].(*ast.UnaryExpr)
				if !ok || ue.Op != token.AND {
					return true
				}
				se, ok := ast.Unparen(ue.X).(*ast.SelectorExpr)
				if !ok {
					return true
				}
				if sel := p.info.Selections[se]; sel != nil {
					if v, ok := sel.Obj().(*types.Var); ok && v.IsField() {
						atomicField[v] = true
						atomicSel[se] = true
					}
				}
				return true
			})
		}
	}
	var holds func(t types.Type, depth int) bool
	holds = func(t types.Type, depth int) bool {
		if t == nil || depth > 4 {
			return false
		}
		switch u := t.Underlying().(type) {
		case *types.Struct:
			for i := 0; i < u.NumFields(); i++ {
				if atomicField[u.Field(i)] || holds(u.Field(i).Type(), depth+1) {
					return true
				}
			}
		case *types.Array:
			return holds(u.Elem(), depth+1)
		}
		return false
	}
	var out []string
	for _, p := range pkgs {
		for _, f := range p.files {
			for _, d := range f.Decls {
				fd, ok := d.(*ast.FuncDecl)
				if !ok || fd.Body == nil {
					continue
				}
				out = append(out, atomicUsesOf(l.fset, p, fd, atomicField, atomicSel, holds)...)
			}
		}
	}
	return out
}

func atomicUsesOf(fset *token.FileSet, p *modPkg, fd *ast.FuncDecl, atomicField map[*types.Var]bool,
	atomicSel map[*ast.SelectorExpr]bool, holds func(types.Type, int) bool) []string {
	fname := p.pkg.Name() + "." + fd.Name.Name
	if fd.Recv != nil && len(fd.Recv.List) > 0 {
		fname = p.pkg.Name() + "." + strings.TrimPrefix(types.ExprString(fd.Recv.List[0].Type), "*") + "." + fd.Name.Name
	}
	info := p.info
	isValue := func(t types.Type) bool {
		if t == nil {
			return false
		}
		switch t.Underlying().(type) {
		case *types.Pointer, *types.Slice, *types.Map, *types.Chan, *types.Interface, *types.Signature:
			return false
		}
		return true
	}
	// how every local variable came to be: "local" (private storage) or the class of what it aliases
	class := map[types.Object]string{}
	markParams := func(fl *ast.FieldList) {
		if fl == nil {
			return
		}
		for _, fld := range fl.List {
			for _, n := range fld.Names {
				if o := info.Defs[n]; o != nil {
					if isValue(o.Type()) {
						class[o] = "local" // a value parameter is the callee's own copy (the copy is charged to the caller)
					} else {
						class[o] = "shared"
					}
				}
			}
		}
	}
	markParams(fd.Recv)
	markParams(fd.Type.Params)
	markParams(fd.Type.Results)
	var rootClass func(e ast.Expr) string
	fresh := func(e ast.Expr) bool {
		switch x := ast.Unparen(e).(type) {
		case *ast.CompositeLit, *ast.BasicLit, *ast.FuncLit:
			return true
		case *ast.UnaryExpr:
			if x.Op == token.AND {
				if _, ok := ast.Unparen(x.X).(*ast.CompositeLit); ok {
					return true
				}
			}
		case *ast.CallExpr:
			if id, ok := x.Fun.(*ast.Ident); ok && (id.Name == "make" || id.Name == "new") {
				if _, isB := info.Uses[id].(*types.Builtin); isB {
					return true
				}
			}
		}
		return false
	}
	rootClass = func(e ast.Expr) string {
		switch x := ast.Unparen(e).(type) {
		case *ast.Ident:
			o := info.Uses[x]
			if o == nil {
				o = info.Defs[x]
			}
			if o == nil {
				return "shared"
			}
			if v, ok := o.(*types.Var); ok {
				if v.Parent() == p.pkg.Scope() {
					return "shared"
				}
				if c, ok := class[o]; ok {
					return c
				}
			}
			return "shared"
		case *ast.IndexExpr:
			return rootClass(x.X)
		case *ast.SliceExpr:
			return rootClass(x.X)
		case *ast.StarExpr:
			return rootClass(x.X)
		case *ast.SelectorExpr:
			if info.Selections[x] == nil {
				return "shared" // pkg.Var
			}
			return rootClass(x.X)
		case *ast.UnaryExpr:
			if x.Op == token.AND {
				return rootClass(x.X)
			}
		}
		if fresh(e) {
			return "local"
		}
		return "shared"
	}
	define := func(id *ast.Ident, rhs ast.Expr) {
		o := info.Defs[id]
		if o == nil {
			return
		}
		switch {
		case rhs == nil, isValue(o.Type()), fresh(rhs):
			class[o] = "local"
		default:
			class[o] = rootClass(rhs)
		}
	}
	// first walk: classify the locals in source order
	ast.Inspect(fd.Body, func(n ast.Node) bool {
		switch s := n.(type) {
		case *ast.AssignStmt:
			if s.Tok == token.DEFINE {
				for i, lhs := range s.Lhs {
					if id, ok := lhs.(*ast.Ident); ok {
						if len(s.Rhs) == len(s.Lhs) {
							define(id, s.Rhs[i])
						} else if o := info.Defs[id]; o != nil {
							if isValue(o.Type()) {
								class[o] = "local"
							} else {
								class[o] = "shared"
							}
						}
					}
				}
			}
		case *ast.DeclStmt:
			if gd, ok := s.Decl.(*ast.GenDecl); ok {
				for _, sp := range gd.Specs {
					if vs, ok := sp.(*ast.ValueSpec); ok {
						for i, id := range vs.Names {
							if i < len(vs.Values) {
								define(id, vs.Values[i])
							} else {
								define(id, nil)
							}
						}
					}
				}
			}
		case *ast.RangeStmt:
			if s.Tok == token.DEFINE {
				for _, kv := range []ast.Expr{s.Key, s.Value} {
					if id, ok := kv.(*ast.Ident); ok {
						if o := info.Defs[id]; o != nil {
							if isValue(o.Type()) {
								class[o] = "local"
							} else {
								class[o] = rootClass(s.X)
							}
						}
					}
				}
			}
		}
		return true
	})
	type ev struct {
		pos  token.Pos
		kind string
		text string
	}
	var evs []ev
	add := func(pos token.Pos, kind, text string) {
		evs = append(evs, ev{pos, kind, strings.Join(strings.Fields(text), " ")})
	}
	copyOf := func(e ast.Expr, how string) {
		if e == nil {
			return
		}
		tv, ok := info.Types[e]
		if !ok || !isValue(tv.Type) || !holds(tv.Type, 0) {
			return
		}
		if fresh(e) {
			return
		}
		if _, isCall := ast.Unparen(e).(*ast.CallExpr); isCall {
			return // the callee's return statement is where the copy is made
		}
		add(e.Pos(), "copy-"+rootClass(e), how+" "+types.ExprString(e))
	}
	ast.Inspect(fd.Body, func(n ast.Node) bool {
		switch s := n.(type) {
		case *ast.SelectorExpr:
			if sel := info.Selections[s]; sel != nil {
				if v, ok := sel.Obj().(*types.Var); ok && atomicField[v] {
					if atomicSel[s] {
						add(s.Pos(), "atomic", types.ExprString(s))
					} else {
						add(s.Pos(), "plain-"+rootClass(s.X), types.ExprString(s))
					}
				}
			}
		case *ast.AssignStmt:
			for _, r := range s.Rhs {
				copyOf(r, "assign")
			}
			// a plain STORE into a variable that holds atomic fields (x = T{}, arr[i] = v, *p = v)
			if s.Tok != token.DEFINE {
				for _, l := range s.Lhs {
					if id, ok := l.(*ast.Ident); ok && id.Name == "_" {
						continue
					}
					if tv, ok := info.Types[l]; ok && isValue(tv.Type) && holds(tv.Type, 0) {
						add(l.Pos(), "store-"+rootClass(l), "assign-to "+types.ExprString(l))
					}
				}
			}
		case *ast.ValueSpec:
			for _, r := range s.Values {
				copyOf(r, "var")
			}
		case *ast.RangeStmt:
			if id, ok := s.Value.(*ast.Ident); ok && id.Name != "_" {
				var t types.Type
				if o := info.Defs[id]; o != nil {
					t = o.Type()
				} else if o := info.Uses[id]; o != nil {
					t = o.Type()
				}
				if t != nil && isValue(t) && holds(t, 0) {
					add(s.Pos(), "copy-"+rootClass(s.X), "range-value "+types.ExprString(s.X))
				}
			}
		case *ast.CallExpr:
			builtin := false
			if id, ok := s.Fun.(*ast.Ident); ok {
				if _, isB := info.Uses[id].(*types.Builtin); isB && (id.Name == "len" || id.Name == "cap") {
					builtin = true // len / cap of an array do not read its elements
				}
			}
			if !builtin {
				for _, a := range s.Args {
					copyOf(a, "argument")
				}
			}
			if fs, ok := s.Fun.(*ast.SelectorExpr); ok {
				if sel := info.Selections[fs]; sel != nil && sel.Kind() == types.MethodVal {
					if sig, ok := sel.Obj().Type().(*types.Signature); ok && sig.Recv() != nil && isValue(sig.Recv().Type()) && holds(sig.Recv().Type(), 0) {
						if !fresh(fs.X) {
							add(fs.X.Pos(), "copy-"+rootClass(fs.X), "value-receiver "+types.ExprString(fs.X)+"."+fs.Sel.Name)
						}
					}
				}
			}
		case *ast.ReturnStmt:
			for _, r := range s.Results {
				copyOf(r, "return")
			}
		case *ast.CompositeLit:
			for _, el := range s.Elts {
				if kv, ok := el.(*ast.KeyValueExpr); ok {
					copyOf(kv.Value, "element")
				} else {
					copyOf(el, "element")
				}
			}
		case *ast.SendStmt:
			copyOf(s.Value, "send")
		}
		return true
	})
	sort.SliceStable(evs, func(i, j int) bool { return evs[i].pos < evs[j].pos })
	var out []string
	for _, e := range evs {
		code := 2 // touches shared memory without sync/atomic
		if e.kind == "atomic" {
			code = 0
		} else if strings.HasSuffix(e.kind, "-local") {
			code = 1
		}
		out = append(out, fmt.Sprintf("(%s, %d, %s)", q(fname), code, q(e.kind+" "+e.text)))
	}
	return out
}

package main

// genFieldWrites: every assignment (`=`, `op=`, `++`, `--`) to a field of a struct type declared in the module:
//   (pkg.Func, pkg.Type, field, "local" | "shared")
// "local": the struct the field lives in is a variable of this function that was built here (composite literal, new, zero
// `var`) — a constructor filling in what it is about to publish; "shared": anything else (receiver, parameter, global,
// something reached through a pointer).  Lean (Props/C14) decides that the server-wide singletons (nfs.Nfs, fstxn.FsState,
// super.FsSuper, simple.Nfs, kvs.KVS), which are shared by all requests and protected by no lock, are written by their
// constructors only: immutable after publication, hence race-free whatever the handlers do concurrently.

import (
	"go/ast"
	"go/token"
	"go/types"
	"strings"
)

func genFieldWrites() []string {
	l := &modLoader{fset: token.NewFileSet(), pkgs: map[string]*modPkg{}, busy: map[string]bool{}}
	var pkgs []*modPkg
	for _, d := range modDirs() {
		if p := l.load(d); p != nil {
			pkgs = append(pkgs, p)
		}
	}
	var out []string
	for _, p := range pkgs {
		for _, f := range p.files {
			for _, d := range f.Decls {
				fd, ok := d.(*ast.FuncDecl)
				if !ok || fd.Body == nil {
					continue
				}
				out = append(out, fieldWritesOf(p, fd)...)
			}
		}
	}
	return out
}

func fieldWritesOf(p *modPkg, fd *ast.FuncDecl) []string {
	info := p.info
	fname := p.pkg.Name() + "." + fd.Name.Name
	if fd.Recv != nil && len(fd.Recv.List) > 0 {
		fname = p.pkg.Name() + "." + strings.TrimPrefix(types.ExprString(fd.Recv.List[0].Type), "*") + "." + fd.Name.Name
	}
	fresh := func(e ast.Expr) bool {
		switch x := ast.Unparen(e).(type) {
		case *ast.CompositeLit:
			return true
		case *ast.UnaryExpr:
			if x.Op == token.AND {
				_, ok := ast.Unparen(x.X).(*ast.CompositeLit)
				return ok
			}
		case *ast.CallExpr:
			if id, ok := x.Fun.(*ast.Ident); ok && id.Name == "new" {
				_, isB := info.Uses[id].(*types.Builtin)
				return isB
			}
		}
		return false
	}
	local := map[types.Object]bool{}
	ast.Inspect(fd.Body, func(n ast.Node) bool {
		switch s := n.(type) {
		case *ast.AssignStmt:
			if s.Tok == token.DEFINE && len(s.Lhs) == len(s.Rhs) {
				for i, lh := range s.Lhs {
					if id, ok := lh.(*ast.Ident); ok && fresh(s.Rhs[i]) {
						if o := info.Defs[id]; o != nil {
							local[o] = true
						}
					}
				}
			}
		case *ast.ValueSpec:
			for i, id := range s.Names {
				if o := info.Defs[id]; o != nil {
					if len(s.Values) == 0 {
						if _, isPtr := o.Type().Underlying().(*types.Pointer); !isPtr {
							local[o] = true // zero value of a struct variable
						}
					} else if i < len(s.Values) && fresh(s.Values[i]) {
						local[o] = true
					}
				}
			}
		}
		return true
	})
	// a local that is re-assigned from something else is no longer known to be private
	ast.Inspect(fd.Body, func(n ast.Node) bool {
		if s, ok := n.(*ast.AssignStmt); ok && s.Tok == token.ASSIGN && len(s.Lhs) == len(s.Rhs) {
			for i, lh := range s.Lhs {
				if id, ok := lh.(*ast.Ident); ok && !fresh(s.Rhs[i]) {
					if o := info.Uses[id]; o != nil {
						delete(local, o)
					}
				}
			}
		}
		return true
	})
	var out []string
	record := func(lhs ast.Expr) {
		e := ast.Unparen(lhs)
		for {
			switch x := e.(type) {
			case *ast.IndexExpr:
				e = ast.Unparen(x.X)
				continue
			case *ast.StarExpr:
				e = ast.Unparen(x.X)
				continue
			}
			break
		}
		se, ok := e.(*ast.SelectorExpr)
		if !ok {
			return
		}
		sel := info.Selections[se]
		if sel == nil {
			return
		}
		v, ok := sel.Obj().(*types.Var)
		if !ok || !v.IsField() {
			return
		}
		t := sel.Recv()
		if pt, ok := t.Underlying().(*types.Pointer); ok {
			t = pt.Elem()
		}
		if pt, ok := t.(*types.Pointer); ok {
			t = pt.Elem()
		}
		nt, ok := t.(*types.Named)
		if !ok || nt.Obj().Pkg() == nil || !strings.HasPrefix(nt.Obj().Pkg().Path(), modPath) || nt.Obj().Pkg().Name() == "nfstypes" {
			return // (the generated argument and reply structs of nfstypes are per-request values)
		}
		cls := "shared"
		root := ast.Unparen(se.X)
		for {
			switch x := root.(type) {
			case *ast.SelectorExpr:
				root = ast.Unparen(x.X)
				continue
			case *ast.IndexExpr:
				root = ast.Unparen(x.X)
				continue
			case *ast.StarExpr:
				root = ast.Unparen(x.X)
				continue
			}
			break
		}
		if id, ok := root.(*ast.Ident); ok && se.X == ast.Expr(id) || func() bool { id2, ok2 := ast.Unparen(se.X).(*ast.Ident); _ = id2; return ok2 }() {
			if id, ok := ast.Unparen(se.X).(*ast.Ident); ok {
				if o := info.Uses[id]; o != nil && local[o] {
					cls = "local"
				}
			}
		}
		out = append(out, "("+q(fname)+", "+q(nt.Obj().Pkg().Name()+"."+nt.Obj().Name())+", "+q(v.Name())+", "+q(cls)+")")
	}
	ast.Inspect(fd.Body, func(n ast.Node) bool {
		switch s := n.(type) {
		case *ast.AssignStmt:
			if s.Tok != token.DEFINE {
				for _, lh := range s.Lhs {
					record(lh)
				}
			}
		case *ast.IncDecStmt:
			record(s.X)
		}
		return true
	})
	return out
}

package main

func genXdr() string      { return "-- placeholder\n" }
func genDispatch() string { return "-- placeholder\n" }
func genSkeleton() string { return "-- placeholder\n" }

package main

func genSkeleton() string { return "-- placeholder\n" }

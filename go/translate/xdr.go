package main

import (
	"fmt"
	"go/ast"
	"go/parser"
	"go/token"
	"path/filepath"
	"sort"
	"strconv"
	"strings"
)

// Translation of the rpcgen-generated Xdr methods (nfstypes/nfs_xdr.go) into
// the type descriptors of lean/GoNfsd/Model/Xdr.lean, and of the two
// registration tables into a procedure table.  Every statement shape the
// generator emits is recognised explicitly; anything else is a hard failure.

type xitem struct {
	kind  string // u32 u64 bool str opaqueVar opaqueFix arrU32 ref union chain
	field string // Go field the item reads/writes ("" = the value itself)
	max   string // Lean Option Nat for str/opaqueVar/arrU32
	n     int    // opaqueFix length
	ref   string // referenced Go type (ref, chain)
	// union
	discBool bool
	keys     []int
	arms     [][]xitem
	hasDflt  bool
	dflt     []xitem
	tArm     []xitem
	fArm     []xitem
	armOrder [][]xitem // arms in source order (for field names)
}

type xdrInfo struct {
	consts   map[string]int
	arrayLen map[string]int      // type name -> [N]byte
	ptrTypedef map[string]bool   // struct{ P *T }
	bodies   map[string][]xitem  // type name -> items
	onSelf   map[string]bool     // type whose single item targets v itself (typedef)
	order    []string
	fset     *token.FileSet
}

func (x *xdrInfo) failAt(n ast.Node, format string, a ...interface{}) {
	fail("xdr: %s: %s", x.fset.Position(n.Pos()), fmt.Sprintf(format, a...))
}

func (x *xdrInfo) intConst(e ast.Expr) (int, bool) {
	switch v := e.(type) {
	case *ast.BasicLit:
		i, err := strconv.ParseInt(v.Value, 0, 64)
		if err == nil {
			return int(i), true
		}
	case *ast.Ident:
		if c, ok := x.consts[v.Name]; ok {
			return c, true
		}
		if v.Name == "true" {
			return 1, true
		}
		if v.Name == "false" {
			return 0, true
		}
	case *ast.UnaryExpr:
		if v.Op == token.SUB {
			if i, ok := x.intConst(v.X); ok {
				return -i, true
			}
		}
	case *ast.ParenExpr:
		return x.intConst(v.X)
	case *ast.CallExpr: // int(-1), int(NFS3_FHSIZE)
		if id, ok := v.Fun.(*ast.Ident); ok && id.Name == "int" && len(v.Args) == 1 {
			return x.intConst(v.Args[0])
		}
	}
	return 0, false
}

func optNat(i int) string {
	if i < 0 {
		return "none"
	}
	return fmt.Sprintf("(some %d)", i)
}

// target returns the field name addressed by expressions such as
// (*T)(&((v).F)), (*T)(v), &((v).F), *(&((v).F)), *(&v.P), (v).F
func target(e ast.Expr) (field string, ok bool) {
	switch v := e.(type) {
	case *ast.ParenExpr:
		return target(v.X)
	case *ast.Ident:
		if v.Name == "v" {
			return "", true
		}
	case *ast.UnaryExpr:
		if v.Op == token.AND {
			return target(v.X)
		}
	case *ast.StarExpr:
		return target(v.X)
	case *ast.SelectorExpr:
		if f, ok := target(v.X); ok && f == "" {
			return v.Sel.Name, true
		}
	case *ast.CallExpr: // conversion (*T)(x)
		if len(v.Args) == 1 {
			return target(v.Args[0])
		}
	}
	return "", false
}

// convType returns T for a conversion expression (*T)(x).
func convType(e ast.Expr) (string, bool) {
	ce, ok := e.(*ast.CallExpr)
	if !ok || len(ce.Args) != 1 {
		return "", false
	}
	pe, ok := ce.Fun.(*ast.ParenExpr)
	if !ok {
		return "", false
	}
	se, ok := pe.X.(*ast.StarExpr)
	if !ok {
		return "", false
	}
	switch t := se.X.(type) {
	case *ast.Ident:
		return t.Name, true
	case *ast.ArrayType:
		if id, ok := t.Elt.(*ast.Ident); ok && t.Len == nil {
			return "[]" + id.Name, true
		}
	}
	return "", false
}

func isXsCall(ce *ast.CallExpr, recv, name string) bool {
	se, ok := ce.Fun.(*ast.SelectorExpr)
	if !ok || se.Sel.Name != name {
		return false
	}
	id, ok := se.X.(*ast.Ident)
	return ok && id.Name == recv
}

func (x *xdrInfo) stmts(list []ast.Stmt) []xitem {
	var items []xitem
	for i := 0; i < len(list); i++ {
		st := list[i]
		switch s := st.(type) {
		case *ast.ExprStmt:
			ce, ok := s.X.(*ast.CallExpr)
			if !ok {
				x.failAt(st, "unsupported expression statement")
			}
			items = append(items, x.callItem(ce))
		case *ast.SwitchStmt:
			if len(items) == 0 {
				x.failAt(st, "switch without a preceding discriminant")
			}
			disc := &items[len(items)-1]
			f, ok := target(s.Tag)
			if !ok || f != disc.field || f == "" {
				x.failAt(st, "switch tag is not the field just (de)serialised")
			}
			u := xitem{kind: "union", field: f}
			switch disc.kind {
			case "bool":
				u.discBool = true
			case "ref":
				u.ref = disc.ref // must resolve to u32; checked at inlining
			case "u32":
			default:
				x.failAt(st, "unsupported discriminant kind %s", disc.kind)
			}
			var pending []int
			for _, c := range s.Body.List {
				cc := c.(*ast.CaseClause)
				body := cc.Body
				ft := false
				if len(body) == 1 {
					if bs, ok := body[0].(*ast.BranchStmt); ok && bs.Tok == token.FALLTHROUGH {
						ft = true
					}
				}
				if cc.List == nil { // default
					if ft || len(pending) > 0 {
						x.failAt(cc, "unsupported default with fallthrough")
					}
					u.hasDflt = true
					u.dflt = x.stmts(body)
					u.armOrder = append(u.armOrder, u.dflt)
					continue
				}
				for _, l := range cc.List {
					k, ok := x.intConst(l)
					if !ok {
						x.failAt(l, "case label is not a known constant")
					}
					pending = append(pending, k)
				}
				if ft {
					continue
				}
				arm := x.stmts(body)
				u.armOrder = append(u.armOrder, arm)
				for _, k := range pending {
					if u.discBool {
						if k == 1 {
							u.tArm = arm
						} else {
							u.fArm = arm
						}
					} else {
						u.keys = append(u.keys, k)
						u.arms = append(u.arms, arm)
					}
				}
				pending = nil
			}
			if len(pending) > 0 {
				x.failAt(st, "dangling fallthrough")
			}
			if u.discBool && u.hasDflt {
				// the default of a bool union fills the arm(s) not listed explicitly
				seenT, seenF := false, false
				for _, c := range s.Body.List {
					for _, l := range c.(*ast.CaseClause).List {
						if k, _ := x.intConst(l); k == 1 {
							seenT = true
						} else {
							seenF = true
						}
					}
				}
				if !seenT {
					u.tArm = u.dflt
				}
				if !seenF {
					u.fArm = u.dflt
				}
			}
			items[len(items)-1] = u
		case *ast.IfStmt:
			// optional pointer: if xs.Encoding() {...} followed by if xs.Decoding() {...}
			ce, ok := s.Cond.(*ast.CallExpr)
			if !ok || !isXsCall(ce, "xs", "Encoding") || i+1 >= len(list) {
				x.failAt(st, "unsupported if statement")
			}
			d, ok := list[i+1].(*ast.IfStmt)
			if !ok {
				x.failAt(st, "Encoding block without Decoding block")
			}
			dc, ok := d.Cond.(*ast.CallExpr)
			if !ok || !isXsCall(dc, "xs", "Decoding") {
				x.failAt(st, "Encoding block without Decoding block")
			}
			fe, te := x.optBlock(s.Body.List, false)
			fd, td := x.optBlock(d.Body.List, true)
			if fe != fd || te != td {
				x.failAt(st, "Encoding and Decoding blocks disagree (%s/%s vs %s/%s)", fe, te, fd, td)
			}
			items = append(items, xitem{kind: "chain", field: fe, ref: te})
			i++
		case *ast.BlockStmt:
			items = append(items, x.arrayBlock(s))
		default:
			x.failAt(st, "unsupported statement %T", st)
		}
	}
	return items
}

// optBlock recognises
//   opted := *(&F) != nil ; xdr.XdrBool(xs, &opted) ; if opted { (*T)(*(&F)).Xdr(xs) }
// and, for decoding,
//   var opted bool ; xdr.XdrBool(xs, &opted) ; if opted { *(&F) = new(T) ; (*T)(*(&F)).Xdr(xs) }
func (x *xdrInfo) optBlock(list []ast.Stmt, decoding bool) (field, typ string) {
	if len(list) != 3 {
		x.failAt(list[0], "unsupported optional block")
	}
	if decoding {
		ds, ok := list[0].(*ast.DeclStmt)
		if !ok {
			x.failAt(list[0], "expected var opted bool")
		}
		_ = ds
	} else {
		as, ok := list[0].(*ast.AssignStmt)
		if !ok || len(as.Rhs) != 1 {
			x.failAt(list[0], "expected opted := ... != nil")
		}
		be, ok := as.Rhs[0].(*ast.BinaryExpr)
		if !ok || be.Op != token.NEQ {
			x.failAt(list[0], "expected opted := ... != nil")
		}
		f, ok := target(be.X)
		if !ok {
			x.failAt(list[0], "expected a field in opted := ... != nil")
		}
		field = f
	}
	es, ok := list[1].(*ast.ExprStmt)
	if !ok {
		x.failAt(list[1], "expected XdrBool(&opted)")
	}
	ce, ok := es.X.(*ast.CallExpr)
	if !ok || !isXsCall(ce, "xdr", "XdrBool") {
		x.failAt(list[1], "expected XdrBool(&opted)")
	}
	is, ok := list[2].(*ast.IfStmt)
	if !ok {
		x.failAt(list[2], "expected if opted")
	}
	if id, ok := is.Cond.(*ast.Ident); !ok || id.Name != "opted" {
		x.failAt(list[2], "expected if opted")
	}
	body := is.Body.List
	if decoding {
		if len(body) != 2 {
			x.failAt(is, "expected allocation and Xdr call")
		}
		as, ok := body[0].(*ast.AssignStmt)
		if !ok {
			x.failAt(body[0], "expected allocation")
		}
		f, ok := target(as.Lhs[0])
		if !ok {
			x.failAt(body[0], "expected allocation of a field")
		}
		nc, ok := as.Rhs[0].(*ast.CallExpr)
		if !ok {
			x.failAt(body[0], "expected new(T)")
		}
		if id, ok := nc.Fun.(*ast.Ident); !ok || id.Name != "new" {
			x.failAt(body[0], "expected new(T)")
		}
		typ = nc.Args[0].(*ast.Ident).Name
		field = f
		body = body[1:]
	}
	if len(body) != 1 {
		x.failAt(is, "expected one Xdr call")
	}
	xs, ok := body[0].(*ast.ExprStmt)
	if !ok {
		x.failAt(body[0], "expected Xdr call")
	}
	call, ok := xs.X.(*ast.CallExpr)
	if !ok {
		x.failAt(body[0], "expected Xdr call")
	}
	se, ok := call.Fun.(*ast.SelectorExpr)
	if !ok || se.Sel.Name != "Xdr" {
		x.failAt(body[0], "expected Xdr call")
	}
	t, ok := convType(se.X)
	if !ok {
		x.failAt(body[0], "expected (*T)(...).Xdr")
	}
	f, ok := target(se.X)
	if !ok || f != field {
		x.failAt(body[0], "optional block (de)serialises a different field")
	}
	if decoding && t != typ {
		x.failAt(body[0], "allocated type differs from serialised type")
	}
	return field, t
}

// arrayBlock recognises the variable-length uint32 array idiom.
func (x *xdrInfo) arrayBlock(b *ast.BlockStmt) xitem {
	if len(b.List) != 5 {
		x.failAt(b, "unsupported block")
	}
	es, ok := b.List[1].(*ast.ExprStmt)
	if !ok {
		x.failAt(b, "unsupported block")
	}
	ce, ok := es.X.(*ast.CallExpr)
	if !ok || !isXsCall(ce, "xs", "EncodingSetSize") {
		x.failAt(b, "unsupported block")
	}
	lenCall, ok := ce.Args[1].(*ast.CallExpr)
	if !ok {
		x.failAt(b, "unsupported block")
	}
	f, ok := target(lenCall.Args[0])
	if !ok {
		x.failAt(b, "unsupported block")
	}
	es2, ok := b.List[2].(*ast.ExprStmt)
	if !ok {
		x.failAt(b, "unsupported block")
	}
	c2, ok := es2.X.(*ast.CallExpr)
	if !ok || !isXsCall(c2, "xdr", "XdrU32") {
		x.failAt(b, "unsupported block")
	}
	fs, ok := b.List[4].(*ast.ForStmt)
	if !ok || len(fs.Body.List) != 1 {
		x.failAt(b, "unsupported block")
	}
	es3, ok := fs.Body.List[0].(*ast.ExprStmt)
	if !ok {
		x.failAt(b, "unsupported block")
	}
	c3, ok := es3.X.(*ast.CallExpr)
	if !ok || !isXsCall(c3, "xdr", "XdrU32") {
		x.failAt(b, "array element is not a uint32")
	}
	return xitem{kind: "arrU32", field: f, max: "none"}
}

func (x *xdrInfo) callItem(ce *ast.CallExpr) xitem {
	se, ok := ce.Fun.(*ast.SelectorExpr)
	if !ok {
		x.failAt(ce, "unsupported call")
	}
	// (*T)(target).Xdr(xs)
	if se.Sel.Name == "Xdr" {
		t, ok := convType(se.X)
		if !ok {
			x.failAt(ce, "unsupported Xdr receiver")
		}
		f, ok := target(se.X)
		if !ok {
			x.failAt(ce, "unsupported Xdr receiver")
		}
		return xitem{kind: "ref", field: f, ref: t}
	}
	id, ok := se.X.(*ast.Ident)
	if !ok || id.Name != "xdr" {
		x.failAt(ce, "unsupported call")
	}
	last := ce.Args[len(ce.Args)-1]
	f, ok := target(last)
	if !ok {
		// (*v)[:]
		if sl, ok2 := last.(*ast.SliceExpr); ok2 {
			f, ok = target(sl.X)
		}
		if !ok {
			x.failAt(ce, "unsupported argument")
		}
	}
	switch se.Sel.Name {
	case "XdrU32":
		return xitem{kind: "u32", field: f}
	case "XdrU64":
		return xitem{kind: "u64", field: f}
	case "XdrBool":
		return xitem{kind: "bool", field: f}
	case "XdrString", "XdrVarArray":
		m, ok := x.intConst(ce.Args[1])
		if !ok {
			x.failAt(ce, "bound is not a known constant")
		}
		k := "str"
		if se.Sel.Name == "XdrVarArray" {
			k = "opaqueVar"
		}
		return xitem{kind: k, field: f, max: optNat(m)}
	case "XdrArray":
		return xitem{kind: "opaqueFix", field: f, n: -1}
	}
	x.failAt(ce, "unsupported xdr primitive %s", se.Sel.Name)
	return xitem{}
}

func loadXdr() *xdrInfo {
	x := &xdrInfo{consts: map[string]int{}, arrayLen: map[string]int{}, ptrTypedef: map[string]bool{},
		bodies: map[string][]xitem{}, onSelf: map[string]bool{}, fset: token.NewFileSet()}
	tf, err := parser.ParseFile(x.fset, filepath.Join(repo, "nfstypes", "nfs_types.go"), nil, 0)
	if err != nil {
		fail("xdr: %v", err)
	}
	type arr struct {
		name string
		len  ast.Expr
	}
	var arrs []arr
	for _, d := range tf.Decls {
		gd, ok := d.(*ast.GenDecl)
		if !ok {
			continue
		}
		for _, s := range gd.Specs {
			switch sp := s.(type) {
			case *ast.ValueSpec:
				if gd.Tok == token.CONST && len(sp.Values) == 1 {
					if bl, ok := sp.Values[0].(*ast.BasicLit); ok && bl.Kind == token.INT {
						v, err := strconv.ParseInt(bl.Value, 0, 64)
						if err != nil {
							fail("xdr: constant %s: %v", sp.Names[0].Name, err)
						}
						x.consts[sp.Names[0].Name] = int(v)
					}
				}
			case *ast.TypeSpec:
				switch t := sp.Type.(type) {
				case *ast.ArrayType:
					if t.Len != nil {
						arrs = append(arrs, arr{sp.Name.Name, t.Len})
					}
				case *ast.StructType:
					if len(t.Fields.List) == 1 && len(t.Fields.List[0].Names) == 1 && t.Fields.List[0].Names[0].Name == "P" {
						if _, ok := t.Fields.List[0].Type.(*ast.StarExpr); ok {
							x.ptrTypedef[sp.Name.Name] = true
						}
					}
				}
			}
		}
	}
	for _, a := range arrs {
		n, ok := x.intConst(a.len)
		if !ok {
			fail("xdr: array length of %s is not a known constant", a.name)
		}
		x.arrayLen[a.name] = n
	}
	xf, err := parser.ParseFile(x.fset, filepath.Join(repo, "nfstypes", "nfs_xdr.go"), nil, 0)
	if err != nil {
		fail("xdr: %v", err)
	}
	for _, d := range xf.Decls {
		fd, ok := d.(*ast.FuncDecl)
		if !ok || fd.Recv == nil || fd.Name.Name != "Xdr" {
			continue
		}
		se, ok := fd.Recv.List[0].Type.(*ast.StarExpr)
		if !ok {
			continue
		}
		name := se.X.(*ast.Ident).Name
		if fd.Recv.List[0].Names[0].Name != "v" {
			fail("xdr: receiver of %s.Xdr is not named v", name)
		}
		items := x.stmts(fd.Body.List)
		x.bodies[name] = items
		x.order = append(x.order, name)
	}
	return x
}

func (x *xdrInfo) inlineItems(items []xitem, stack []string) []string {
	var out []string
	for _, it := range items {
		out = append(out, x.inlineItem(it, stack))
	}
	return out
}

func (x *xdrInfo) inlineItem(it xitem, stack []string) string {
	switch it.kind {
	case "u32":
		return ".u32"
	case "u64":
		return ".u64"
	case "bool":
		return ".bool"
	case "str":
		return "(.str " + it.max + ")"
	case "opaqueVar":
		return "(.opaqueVar " + it.max + ")"
	case "arrU32":
		return "(.arrU32 " + it.max + ")"
	case "opaqueFix":
		fail("xdr: opaqueFix outside a typedef")
	case "ref":
		return x.named(it.ref, stack)
	case "union":
		if it.discBool {
			return "(.unionBool " + x.structOf(it.tArm, stack) + " " + x.structOf(it.fArm, stack) + ")"
		}
		if it.ref != "" && x.named(it.ref, stack) != ".u32" {
			fail("xdr: discriminant type %s is not a 32-bit enum", it.ref)
		}
		type ka struct {
			k int
			a string
		}
		var kas []ka
		for i, k := range it.keys {
			kas = append(kas, ka{k, x.structOf(it.arms[i], stack)})
		}
		sort.SliceStable(kas, func(i, j int) bool { return kas[i].k < kas[j].k })
		var ks, as []string
		for _, e := range kas {
			ks = append(ks, strconv.Itoa(e.k))
			as = append(as, e.a)
		}
		d := "(.struct [])"
		if it.hasDflt {
			d = x.structOf(it.dflt, stack)
		}
		return fmt.Sprintf("(.unionU32 [%s] [%s] %v %s)", strings.Join(ks, ", "), strings.Join(as, ", "), it.hasDflt, d)
	case "chain":
		// it.ref's body must end with a chain to itself
		body, ok := x.bodies[it.ref]
		if !ok {
			fail("xdr: unknown type %s", it.ref)
		}
		if len(body) == 0 || body[len(body)-1].kind != "chain" || body[len(body)-1].ref != it.ref {
			fail("xdr: optional pointer to %s, which is not a self-chained struct", it.ref)
		}
		return "(.chain [" + strings.Join(x.inlineItems(body[:len(body)-1], append(stack, it.ref)), ", ") + "])"
	}
	fail("xdr: unknown item kind %s", it.kind)
	return ""
}

// an arm with exactly one item is that item; an empty arm is void
func (x *xdrInfo) structOf(items []xitem, stack []string) string {
	if len(items) == 0 {
		return "(.struct [])"
	}
	if len(items) == 1 {
		return x.inlineItem(items[0], stack)
	}
	return "(.struct [" + strings.Join(x.inlineItems(items, stack), ", ") + "])"
}

func (x *xdrInfo) named(name string, stack []string) string {
	for _, s := range stack {
		if s == name {
			fail("xdr: unsupported recursion through %s", name)
		}
	}
	body, ok := x.bodies[name]
	if !ok {
		fail("xdr: type %s has no Xdr method", name)
	}
	stack = append(stack, name)
	// typedef: a single item on the value itself
	if len(body) == 1 && body[0].field == "" {
		it := body[0]
		if it.kind == "opaqueFix" {
			n, ok := x.arrayLen[name]
			if !ok {
				fail("xdr: XdrArray on %s, which is not a fixed array type", name)
			}
			return fmt.Sprintf("(.opaqueFix %d)", n)
		}
		return x.inlineItem(it, stack)
	}
	for _, it := range body {
		if it.field == "" {
			fail("xdr: %s mixes the value itself with fields", name)
		}
	}
	if x.ptrTypedef[name] {
		if len(body) != 1 || body[0].kind != "chain" {
			fail("xdr: pointer typedef %s has an unexpected body", name)
		}
		return x.inlineItem(body[0], stack)
	}
	// a union type: discriminant + switch only
	if len(body) == 1 && body[0].kind == "union" {
		return x.inlineItem(body[0], stack)
	}
	return "(.struct [" + strings.Join(x.inlineItems(body, stack), ", ") + "])"
}

func genXdr() string {
	x := loadXdr()
	var b strings.Builder
	b.WriteString("-- GENERATED by /verif/go/translate from /repo/nfstypes/nfs_xdr.go and nfs_types.go; do not edit.\n")
	b.WriteString("import GoNfsd.Model.Xdr\nnamespace GoNfsd.Gen.Xdr\nopen GoNfsd.Model.Xdr\n\n")
	b.WriteString("/-- every Go type with an `Xdr` method, lower-cased name, fully inlined descriptor -/\n")
	b.WriteString("def types : List (String × Ty) := [\n")
	var rows []string
	sort.Slice(x.order, func(i, j int) bool { return strings.ToLower(x.order[i]) < strings.ToLower(x.order[j]) })
	for _, n := range x.order {
		rows = append(rows, fmt.Sprintf("  (%q, %s)", strings.ToLower(n), x.named(n, nil)))
	}
	b.WriteString(strings.Join(rows, ",\n"))
	b.WriteString("\n]\n\n")
	b.WriteString("/-- field names of every struct / union type in the order the Xdr method (de)serialises them -/\n")
	b.WriteString("def fields : List (String × List String) := [\n")
	rows = nil
	for _, n := range x.order {
		var fs []string
		seen := map[string]bool{}
		add := func(f string) {
			if f != "" && !seen[f] {
				seen[f] = true
				fs = append(fs, fmt.Sprintf("%q", strings.ToLower(f)))
			}
		}
		if x.ptrTypedef[n] {
			continue
		}
		for _, it := range x.bodies[n] {
			add(it.field)
			if it.kind == "union" {
				for _, a := range it.armOrder {
					for _, ai := range a {
						add(ai.field)
					}
				}
			}
		}
		if len(fs) > 0 {
			rows = append(rows, fmt.Sprintf("  (%q, [%s])", strings.ToLower(n), strings.Join(fs, ", ")))
		}
	}
	b.WriteString(strings.Join(rows, ",\n"))
	b.WriteString("\n]\n\n")
	b.WriteString("/-- every constant declared in nfstypes/nfs_types.go: (type, name, value), in file order -/\n")
	b.WriteString("def consts : List (String × String × Nat) := [\n")
	b.WriteString(strings.Join(genConstTable(), ",\n"))
	b.WriteString("\n]\n\nend GoNfsd.Gen.Xdr\n")
	return b.String()
}

// genConstTable lists the constants of nfstypes/nfs_types.go (enum values, sizes, program,
// version and procedure numbers, access bits) as written in the source.
func genConstTable() []string {
	fset := token.NewFileSet()
	f, err := parser.ParseFile(fset, filepath.Join(repo, "nfstypes", "nfs_types.go"), nil, 0)
	if err != nil {
		fail("consts: %v", err)
	}
	var rows []string
	for _, d := range f.Decls {
		gd, ok := d.(*ast.GenDecl)
		if !ok || gd.Tok != token.CONST {
			continue
		}
		for _, sp := range gd.Specs {
			vs := sp.(*ast.ValueSpec)
			typ := ""
			if id, ok := vs.Type.(*ast.Ident); ok {
				typ = id.Name
			}
			for i, n := range vs.Names {
				if i >= len(vs.Values) {
					fail("consts: %s: constant %s without a value", fset.Position(n.Pos()), n.Name)
				}
				bl, ok := vs.Values[i].(*ast.BasicLit)
				if !ok || bl.Kind != token.INT {
					fail("consts: %s: constant %s is not an integer literal", fset.Position(n.Pos()), n.Name)
				}
				v, err := strconv.ParseUint(bl.Value, 0, 64)
				if err != nil {
					fail("consts: %s: %v", fset.Position(n.Pos()), err)
				}
				rows = append(rows, fmt.Sprintf("  (%q, %q, %d)", typ, n.Name, v))
			}
		}
	}
	return rows
}

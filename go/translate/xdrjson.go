package main

import (
	"encoding/json"
)

// JSON form of the per-type Xdr bodies, with Go field names, for the
// correspondence harness (which walks real Go values with reflection).

type jitem struct {
	Kind    string    `json:"k"`
	Field   string    `json:"f"`
	Max     int       `json:"max"`
	N       int       `json:"n"`
	Ref     string    `json:"ref,omitempty"`
	Bool    bool      `json:"bool,omitempty"`
	Keys    []int     `json:"keys,omitempty"`
	Arms    [][]jitem `json:"arms,omitempty"`
	HasDflt bool      `json:"hasDflt,omitempty"`
	Dflt    []jitem   `json:"dflt,omitempty"`
	TArm    []jitem   `json:"t,omitempty"`
	FArm    []jitem   `json:"fa,omitempty"`
}

func toJ(items []xitem) []jitem {
	out := []jitem{}
	for _, it := range items {
		j := jitem{Kind: it.kind, Field: it.field, N: it.n, Ref: it.ref, Bool: it.discBool, Keys: it.keys,
			HasDflt: it.hasDflt, Max: -1}
		if it.max != "" && it.max != "none" {
			var m int
			for _, c := range it.max {
				if c >= '0' && c <= '9' {
					m = m*10 + int(c-'0')
				}
			}
			j.Max = m
		}
		for _, a := range it.arms {
			j.Arms = append(j.Arms, toJ(a))
		}
		if it.kind == "union" {
			j.Dflt = toJ(it.dflt)
			j.TArm = toJ(it.tArm)
			j.FArm = toJ(it.fArm)
		}
		out = append(out, j)
	}
	return out
}

func genXdrJSON() string {
	x := loadXdr()
	m := map[string]interface{}{}
	bodies := map[string][]jitem{}
	for n, b := range x.bodies {
		bodies[n] = toJ(b)
	}
	m["bodies"] = bodies
	m["arrayLen"] = x.arrayLen
	m["ptrTypedef"] = x.ptrTypedef
	bs, err := json.MarshalIndent(m, "", " ")
	if err != nil {
		fail("%v", err)
	}
	return string(bs)
}

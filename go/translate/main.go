// translate regenerates /verif/lean/GoNfsd/Gen/*.lean from /repo's current
// working tree.  It is deliberately small: constants are obtained by running
// the real code, straight-line uint64 arithmetic is translated expression by
// expression, tables are extracted from the generated XDR code.  Anything the
// translator does not understand is a hard failure (exit 2), never a silent
// skip.
package main

import (
	"fmt"
	"os"
	"path/filepath"
)

var repo = "/repo"

func fail(format string, a ...interface{}) {
	fmt.Fprintf(os.Stderr, "translate: "+format+"\n", a...)
	os.Exit(2)
}

// writeIfChanged keeps mtimes stable so that lake's incremental build only
// re-elaborates what depends on a file whose content really changed.
func writeIfChanged(path string, content string) {
	old, err := os.ReadFile(path)
	if err == nil && string(old) == content {
		return
	}
	if err := os.MkdirAll(filepath.Dir(path), 0o755); err != nil {
		fail("%v", err)
	}
	if err := os.WriteFile(path, []byte(content), 0o644); err != nil {
		fail("%v", err)
	}
}

func main() {
	if len(os.Args) < 3 {
		fail("usage: translate <repo> <outdir> [parts...]")
	}
	repo = os.Args[1]
	out := os.Args[2]
	parts := os.Args[3:]
	if len(parts) == 0 {
		parts = []string{"consts", "super", "announce", "xdr", "dispatch", "xdrjson", "skeleton"}
	}
	for _, p := range parts {
		switch p {
		case "consts":
			writeIfChanged(filepath.Join(out, "Consts.lean"), genConsts())
		case "super":
			writeIfChanged(filepath.Join(out, "Super.lean"), genSuper())
		case "announce":
			writeIfChanged(filepath.Join(out, "Announce.lean"), genAnnounce())
		case "xdr":
			writeIfChanged(filepath.Join(out, "Xdr.lean"), genXdr())
		case "dispatch":
			writeIfChanged(filepath.Join(out, "Dispatch.lean"), genDispatch())
		case "xdrjson":
			writeIfChanged(filepath.Join(out, "xdrdesc.json"), genXdrJSON())
		case "skeleton":
			writeIfChanged(filepath.Join(out, "Skeleton.lean"), genSkeleton())
		default:
			fail("unknown part %q", p)
		}
	}
}

"""C02 — sequential NFSv3 semantics match a reference file system."""
import seqlib
import fscklib
import vlib

MODULE = "GoNfsd.Props.C02"


def run(ctx):
    ok_go, ok_drv = seqlib.build_and_prove(ctx, MODULE)
    if ok_go:
        args = ["-seqs", "60", "-ops", "500", "-big"] if ctx.tier == "thorough" else ["-seqs", "10", "-ops", "400"]
        lines, tr = seqlib.run_seq(ctx, args + ["-locks"])
        seqlib.two_phase(ctx, lines, ok_drv, "C02", "Under concurrency the transaction works on objects that others have changed since it read them: its replies and what it writes back are those of no sequential order")
        if lines is not None:
            seqlib.analyse(ctx, lines, tr, ok_drv, "C02", oracle_props=["C02", "C13", "C19", "C08"])
    if ok_go:
        # block level: the block map of a real file before/after each operation against the transliterated bmap/Shrink
        fscklib.run_blockmap(ctx, ok_drv, ["-cases", "100", "-ops", "30"] if ctx.tier == "thorough" else ["-cases", "24", "-ops", "25"])
        # a REFUSED request must not change what later requests return: full-disk scenarios in which the blocks a refused WRITE was
        # handed and gave back go to another file; what is read back from either file afterwards is what was written (or zeros)
        rl = fscklib.run_images(ctx, ok_drv, "reclaim", ["reclaim", "-seed", str(ctx.seed)] + (["-hists", "6", "-rounds", "2"] if ctx.tier == "thorough" else ["-hists", "2", "-rounds", "1"]), set(), False)
        fscklib.oracle_lines(ctx, rl, "C02", "harness reclaim -seed %d (full-disk scenarios: read-back after the blocks of a refused WRITE were reused)" % ctx.seed)
    vlib.finish(
        ctx, "proof",
        "theorems about the reference model (read-only procedures and restarts are the identity, written bytes are read back, created names "
        "resolve to the returned handle, refused procedures have no effect) + correspondence: every reply of every generated operation compared",
        "directed scenarios (one per repaired defect and per rarely reached path: block-map boundaries, inode-cache eviction, inode-number reuse, "
        "renames over targets, name-length and size limits) then random state-aware sequences over all procedures with live/stale/malformed handles, "
        "boundary-dense names, offsets, counts and sizes, clean restarts; non-trivial = distinct operation lines",
        ["status codes are compared by class (OK / STALE / NOTSUPP / other error)", "server-chosen timestamps are not compared",
         "the allocator's inode number and the directory slot of a new name are inputs the model validates, not predictions",
         "direct calls of the exported NFSPROC3_* methods (the XDR/RPC transport is covered by C16)",
         "random sequences run on a disk large enough that space is never the limit; exhaustion is covered by the directed full-disk scenarios (read-back oracles) and is C09's subject"],
        pending=[])

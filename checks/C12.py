"""C12 — bytes never written read as zero; old data is never exposed."""
import crashlib
import dclib
import fscklib
import seqlib
import vlib

MODULE = "GoNfsd.Props.C12"


def run(ctx):
    ok_go, ok_drv = seqlib.build_and_prove(ctx, MODULE, extra_parts=["skeleton"])
    if any(b.kind == "proof" for b in ctx.breaks):
        import C03
        for name, calls in C03.failing_slot_functions(ctx)[:3]:
            ctx.add_violation("slot-before-lock:" + name,
                              "fstxn.%s fetches the cached inode without holding the inode's lock: calls in source order: %s" % (name, calls),
                              {"input": {"function": "fstxn." + name, "calls_in_source_order": calls},
                               "how": "regenerated table Gen/Skeleton.slotUses checked by Model/Skeleton.slotCheck (theorem the_inode_written_back_is_the_locked_one): a request that waits for an "
                                      "inode while more than 100 other inodes are used writes back an orphaned copy; a file truncated meanwhile regains its size and block pointers and shows the "
                                      "bytes of the next owner of those blocks"})
    if ok_go:
        args = ["-seqs", "40", "-ops", "500", "-big"] if ctx.tier == "thorough" else ["-seqs", "8", "-ops", "400"]
        lines, tr = seqlib.run_seq(ctx, args + ["-locks"])
        seqlib.two_phase(ctx, lines, ok_drv, "C12", "A transaction that re-locks a file writes back the inode and blocks it read before: a truncation committed in between is undone and the file shows bytes of blocks it no longer owns")
        if lines is not None:
            seqlib.analyse(ctx, lines, tr, ok_drv, "C12", relevant_ops={"read", "readlink"})
            ctx.cov["reads_compared"] = len([l for l in lines if l.startswith("read ")])
        # out of space inside bmap: the index block of a refused WRITE goes back to the allocator and to another file; the file of the
        # refused WRITE is grown over that offset and the never-written block is read (must be zeros or NOSPC, never the other file's bytes)
        rl = fscklib.run_images(ctx, ok_drv, "reclaim", ["reclaim", "-seed", str(ctx.seed)] + (["-hists", "6", "-rounds", "2"] if ctx.tier == "thorough" else ["-hists", "2", "-rounds", "1"]), set(), False)
        fscklib.oracle_lines(ctx, rl, "C12", "harness reclaim -seed %d (full-disk scenarios: a never-written block read after the index block of a refused WRITE was reused)" % ctx.seed)
        ctx.cov["full_disk_histories"] = len([l for l in rl or [] if l.startswith("# HIST")])
        # a freed block becomes available to others only with the commit that zeroes it (allocation discipline M8b, every step of interleaved transactions)
        dclib.run_atxn(ctx, ok_drv)
        # after a crash: a never-written file on the RECOVERED server reads as zeros (its hole-filling READ takes blocks from an allocator
        # that recovery rebuilt: blocks of files committed but not yet installed must not be among them)
        crashlib.run_crash(ctx, ok_drv, "data", ["-workloads", "4", "-ops", "40", "-images", "300"] if ctx.tier == "thorough"
                           else ["-workloads", "1", "-ops", "30", "-images", "60"], lambda label, key: label == "C12")
    vlib.finish(
        ctx, "proof",
        "theorems (byte level): a byte not written since the last truncation at or below it reads as zero; shrink to any size then grow exposes zeros; "
        "writes touch one file; a created file is empty. Block level (M7d, the bytes of a file on disk blocks under the pointer tree of M7): a WRITE shows exactly its bytes, a truncation cuts "
        "(also inside the last block) and growth exposes zeros, a hole-filling READ changes no byte, and after any history the blocks show what the content log says "
        "(block_level_file_refines_the_content_log); with any number of files sharing the disk and blocks passing from file to file through the allocator every file shows exactly its own "
        "content log (no_file_ever_shows_foreign_bytes), a change of one file changes no byte of another, and that a block handed out holds zero bytes follows from the invariant kept by FreeBlock's zeroing. Correspondence: every READ of the server compared byte for byte with the reference",
        "as C02: written data never contains zero bytes, files are shrunk to aligned and unaligned sizes and re-grown, removed and their blocks recycled "
        "by new files, sparse writes at block-map boundaries; every READ/READLINK reply is compared with the model",
        ["the block-level invariant (free blocks are zero on disk) is not yet modelled"],
        pending=[])

"""C12 — bytes never written read as zero; old data is never exposed."""
import seqlib
import vlib

MODULE = "GoNfsd.Props.C12"


def run(ctx):
    ok_go, ok_drv = seqlib.build_and_prove(ctx, MODULE)
    if ok_go:
        args = ["-seqs", "40", "-ops", "500", "-big"] if ctx.tier == "thorough" else ["-seqs", "8", "-ops", "400"]
        lines, tr = seqlib.run_seq(ctx, args)
        if lines is not None:
            seqlib.analyse(ctx, lines, tr, ok_drv, "C12", relevant_ops={"read", "readlink"})
            ctx.cov["reads_compared"] = len([l for l in lines if l.startswith("read ")])
    vlib.finish(
        ctx, "proof",
        "theorems (byte level): a byte not written since the last truncation at or below it reads as zero; shrink to any size then grow exposes zeros; "
        "writes touch one file; a created file is empty. Correspondence: every READ of the server compared byte for byte with the reference",
        "as C02: written data never contains zero bytes, files are shrunk to aligned and unaligned sizes and re-grown, removed and their blocks recycled "
        "by new files, sparse writes at block-map boundaries; every READ/READLINK reply is compared with the model",
        ["the block-level invariant (free blocks are zero on disk) is not yet modelled"],
        pending=["no_foreign_bytes at the byte level of a block (M7 models pointers and whole blocks; freed blocks are proved all-zero: freed_blocks_are_all_zeros)"])

"""Single table from which MANIFEST.json is generated (bin/mkmanifest)."""
import json
import os

VERIF = os.path.dirname(os.path.dirname(os.path.abspath(__file__)))

ALL = ["C%02d" % i for i in range(1, 20)]

# property -> dict(category, text, design_ref, note, technique)
CLAIMED = {
    "C15": dict(
        category="proof",
        text="Lean 4 theorems (for every disk size, no bound) about the layout arithmetic REGENERATED from super/super.go and "
             "the markAlloc guard of nfs/nfs.go: regions consecutive/disjoint/inside the disk, bitmaps cover every block and inode, "
             "inode slots disjoint and inside the table, no uint64 overflow; the format and allocator models are hand-written and tied to "
             "the code by correspondence on every size of a dense range (quick: 745 sizes; thorough: every size 1400..140000).",
        design_ref="DESIGN.md 5/C15",
        note="trusted: Lean kernel, the go/ast translator for super.go, the mkfs/alloc correspondence harness; go-journal's alloc.Alloc is modelled (tied by op-sequence correspondence), not verified",
        technique="Lean 4 proof over regenerated definitions + model/implementation correspondence",
    ),
    "C16": dict(
        category="proof",
        text="Lean 4 theorems: round trip decode(encode v)=v for every XDR type descriptor and value (mutual structural induction); "
             "the descriptor table and both registration tables REGENERATED from nfstypes/nfs_xdr.go, nfs_types.go and cmd/*/main.go are "
             "equal to the tables transcribed from RFC 1813 (rfl / decide over the whole table); oversize and truncated inputs refused. "
             "The generic codec model is tied to the real generated Xdr methods by correspondence (values, mutated byte strings, all 28 registrations).",
        design_ref="DESIGN.md 5/C16",
        note="trusted: Lean kernel, the go/ast translator for nfs_xdr.go, the RFC transcription Spec/Rfc1813.lean, the xdr correspondence harness; go-rpcgen's xdr primitives are modelled (tied by correspondence), not verified",
        technique="Lean 4 proof (round trip, table equality) over regenerated descriptors + codec correspondence",
    ),
}

NOT_YET = "not claimed yet: the model, theorems and correspondence for this property are still being built (see DESIGN.md section 10 build order); nothing is asserted about it"


def manifest():
    checks = []
    for p in ALL:
        if p not in CLAIMED:
            continue
        c = CLAIMED[p]
        checks.append({
            "property_id": p,
            "quick_cmd": "bin/check %s --tier quick" % p,
            "thorough_cmd": "bin/check %s --tier thorough" % p,
            "evidence_file": "/verif/evidence/%s.json" % p,
            "replay_cmd_template": "bin/check %s --replay {path}" % p,
            "engine": "lean4+harness",
            "level_claimed": {"category": c["category"], "text": c["text"], "design_ref": c["design_ref"]},
            "level_note": c["note"],
            "technique": c["technique"],
        })
    return {
        "version": 1,
        "setup_cmd": "bin/setup",
        "hooks": {
            "guard": "verif",
            "enable": "go build -tags verif (the harness module /verif/go replaces github.com/mit-pdos/go-nfsd by /repo)",
            "baseline_off_cmd": "cd /repo && go test -vet=off -count=1 ./...",
            "source_commits": json.load(open(os.path.join(VERIF, "hooks.json")))["commits"],
            "add_only": True,
        },
        "engines": [
            {"name": "lean4+harness", "path": "/verif/lean, /verif/go, /verif/checks",
             "serves_properties": sorted(CLAIMED.keys()),
             "kind_free_text": "Lean 4 models and theorems (lake project /verif/lean), Go translator regenerating parts of the model from /repo, Go correspondence harness calling the real code in-process, Python orchestration (bin/check)"},
        ],
        "checks": checks,
        "notes": "Every check rebuilds translator and harness from /repo's working tree, regenerates lean/GoNfsd/Gen, re-elaborates the property theorems, audits their axioms, and runs the correspondence. See DESIGN.md.",
        "not_applicable": [{"property_id": p, "reason": NOT_YET} for p in ALL if p not in CLAIMED],
    }

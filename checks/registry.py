"""Single table from which MANIFEST.json is generated (bin/mkmanifest)."""
import json
import os

VERIF = os.path.dirname(os.path.dirname(os.path.abspath(__file__)))

ALL = ["C%02d" % i for i in range(1, 20)]

# property -> dict(category, text, design_ref, note, technique)
CLAIMED = {
    "C01": dict(category="proof",
        text="PARTIAL (file-system layer tied by oracle). Lean theorems on the write-ahead-log model: every crash state of every reachable protocol state (any interleaving of logger/installer "
             "steps under their guards, any loss of un-barriered writes, repeated crashes during recovery) recovers to the specification after a prefix of the logged updates containing every "
             "durable group commit. Ties: recorded disk traces of real runs mapped onto the model's steps with every guard checked; crash images recovered by the real server and compared "
             "with the reference state after each prefix of operations (all stable-acknowledged operations included, nothing partial, server keeps serving).",
        design_ref="DESIGN.md 5/C01", note="trusted: Lean kernel, the hand-written WAL model (go-journal is outside /repo: modelled, tied by the recorded-trace check), recording disk and crash-image harness; crash points and workloads above the journal are sampled",
        technique="Lean 4 proof (WAL crash-safety by invariant over protocol steps) + recorded-trace validation + crash-image recovery oracle"),
    "C07": dict(category="proof",
        text="PARTIAL (verifier freshness and file-system layer tied by oracle). Lean theorems: loss only as a suffix of the append order and never below a durable group commit; a flush makes "
             "everything before it durable; committed level reported = requested, or FILE_SYNC with the unstable option off, never weaker; written data readable immediately. Ties: crash images "
             "of write-stability workloads (stability classified by the reply) recovered by the real server; verifier compared across instances; every WRITE/COMMIT/READ reply compared with the model. Also: only_write_commits_without_waiting on the regenerated tables of commit paths and CommitUnstable callers.",
        design_ref="DESIGN.md 5/C07", note="trusted: Lean kernel, WAL and reference models, recording disk and crash-image harness",
        technique="Lean 4 proof (WAL suffix-loss, reply decision table) + crash-image recovery oracle + correspondence"),
    "C02": dict(category="proof",
        text="Refinement to a reference file system written in Lean (Model/Fs.lean): theorems that the reference is a plain file system (written bytes are read back, "
             "created names resolve to the returned handle, read-only procedures and restarts are the identity, refused procedures have no effect); the deciding half is the "
             "correspondence: every reply of every operation of generated histories (directed scenarios + state-aware random sequences, restarts interleaved) is compared. Also: block-map correspondence, full-disk scenarios with read-back oracles, and the lock traces of the sequential run validated as two-phase.",
        design_ref="DESIGN.md 5/C02", note="trusted: Lean kernel, the hand-written reference model (validated by the correspondence itself), harness generators; statuses compared by class; timestamps not compared",
        technique="Lean 4 reference model + theorems; model/implementation correspondence on operation sequences"),
    "C03": dict(category="proof",
        text="PARTIAL w.r.t. schedules. Lean theorems: strict 2PL over an exclusive lock manager makes conflict order = commit order, which respects real time (stated over trace timestamps whose "
             "hypotheses the `locks` driver checks on every recorded transaction). Deciding tie: every concurrent history (shared names, cross-directory renames over targets, shared-file "
             "writes/truncates/reads, listings during updates, injected yields, shrinker active) is replayed in observed commit order on the sequential reference model and every reply must match. "
             "What a lock protects is fetched under the lock: the call order of Acquire / LookupSlot / Release regenerated from package fstxn is checked (slots_are_fetched_under_the_lock), and under that "
             "discipline no transaction ever obtains a cache slot with another transaction's uncommitted changes, whatever is evicted when (model of locks and slots together). "
             "Locks are given back only after the flush (unstable WRITEs aside): under that discipline — checked on every recorded transaction — what another transaction reads under the lock is what a crash "
             "at that moment recovers, for every interleaving (model M14 of the log's durable and pending parts, commits, logger and locks).",
        design_ref="DESIGN.md 5/C03", note="trusted: Lean kernel, reference model, fstxn hooks and harness; schedules of the real runtime are sampled, not quantified over",
        technique="Lean 4 proof (2PL => commit-order serialization) + commit-order replay of observed concurrent histories on the reference model"),
    "C04": dict(category="proof",
        text="PARTIAL (for all histories: sampled). Lean theorem fsck_sound: the executable structure checker accepts a disk image only if the declarative well-formedness statement holds "
             "(pointers in the data region, one owner per block, bitmaps exact, sizes agree with blocks, unique well-formed names, one name per live object, '.'/'..' right, tree rooted at the root). "
             "For ALL histories on the reference model: names unique, every name denotes a live object, one name per object (namespace invariants); on the block-level models: one owner per block under "
             "any sequence of mappings, directory blocks decode to the reference model's slot lists, inode slots never overlap, bitmap updates reach the journal as single bits (regenerated). "
             "Tie: the checker runs on the logical disk of the real server at quiescent points of sequential and concurrent histories and on recovered crash images (incl. mid-free), decoded with the repository's decoders.",
        design_ref="DESIGN.md 5/C04", note="trusted: Lean kernel, harness image walk (obj.Log.Load + the repository's decoders), regenerated layout; histories and crash points sampled",
        technique="Lean 4 proof (verified checker: fsck_sound) + checker run on images of the real server's disk"),
    "C05": dict(category="proof",
        text="PARTIAL (for all histories: sampled). Lean theorems over accepted images: marked = reachable for blocks and inodes at quiescence, nothing half-freed, delete-all leaves only the root's blocks, "
             "no marked block without an owner in any image (crash images included), allocators = bitmaps; truncation on the pointer-tree model M7 frees exactly what it unmaps for every history of inode operations; "
             "hand-over model M15: when no shrinker thread is left no truncation is pending, for every order of requests, thread rounds, helpers and exits (StartShrinker starts a thread on every path: regenerated). Ties: build-then-delete rounds with free-count equality, crash images during background freeing, reuse of half-freed numbers.",
        design_ref="DESIGN.md 5/C05", note="trusted: Lean kernel, harness image walk and free-count reads; histories, crash points and schedules sampled",
        technique="Lean 4 proof (verified checker + reclaim theorems) + build-then-delete and crash-during-free oracles on the real server"),
    "C06": dict(category="proof",
        text="Lean theorem ordered_no_deadlock on the waits-for model of the lock manager (ascending requests, fresh-allocation exception) + executable validators proved sound; the "
             "acquisition sequence of EVERY transaction of sequential and concurrent runs is validated by the Lean driver (ordering bugs are reported from one sequential execution), "
             "watchdogs search for hangs. The lock manager as a transition system with abort-and-retry: every schedule of N requests whose restarts are within a budget or charged to a "
             "transaction that finished meanwhile has at most N((N+F)(L+1)+L+1) steps and cannot stop before every request is answered (retry_bounded, no_run_stops_early); the charging "
             "hypothesis is validated on every request of every sequential run.",
        design_ref="DESIGN.md 5/C06", note="trusted: Lean kernel, lock-manager model, fstxn hooks and harness; fair sync.Cond scheduling assumed",
        technique="Lean 4 proof (no cycle in waits-for under ordered acquisition) + validation of recorded lock traces"),
    "C08": dict(category="proof",
        text="Lean theorems on the reference model: generations are monotone and bump at every allocation/free, a dead handle stays dead after ANY history (stale_forever), every "
             "procedure and handle position refuses a dead handle, created handles are fresh; correspondence with a stale-handle bank, forced inode-number reuse and an "
             "implementation-side oracle (no OK for a dead handle, no handle issued twice); a handle given to ANOTHER client survives a crash (M14 + crash right after every reply that reveals a name). Also: handles_are_revalidated_after_locking_by_number on the regenerated table of lockInodes callers; lock traces of the sequential run two-phase.",
        design_ref="DESIGN.md 5/C08", note="trusted: Lean kernel, reference model, harness; inode-number reuse forced by moving the allocator's roving pointer",
        technique="Lean 4 proof (invariant over histories) + correspondence"),
    "C09": dict(category="proof",
        text="Lean theorem error_identity (a non-OK reply returns the state unchanged; failed operations can be dropped from any history) on the reference model; correspondence plus an "
             "implementation-side oracle comparing full tree dumps and allocator free counts around every failing request. Also: an_abort_forgets_every_inode_of_the_transaction on the regenerated statement lists of fstxn/commit.go; another client's request scheduled inside the abort of a failing request; lock traces two-phase.",
        design_ref="DESIGN.md 5/C09", note="trusted: Lean kernel, reference model, harness; NOSPC paths are covered by implementation-side oracles only (the model has no disk-full state)",
        technique="Lean 4 proof + correspondence + dump comparison around failures"),
    "C10": dict(category="proof",
        text="Lean theorems: the on-disk codecs (inode, directory entry, handle) are bijective on well-formed values; the inode-cache protocol keeps the cache equal to the logical "
             "disk at every quiescent point for every sequence of loads, in-place modifications, evictions, commits and aborts, so a rebuilt server reads the same; the name cache of a directory (M8e: dcache map, Lastoff hint, AddNameDir's slot choice) holds "
             "exactly the live slots in every state reachable by lookups, insertions, removals, evictions and aborted transactions, and the directory with its cache refines a plain "
             "map name -> inode number (name_cache_is_the_directory, directory_refines_a_plain_map). Ties: codec "
             "correspondence; dcache correspondence (reply, Lastoff, whole cache map and slots after every step of real transactions on a real directory inode); atxn correspondence (allocator and on-disk bitmap after every step of interleaved real alloctxn transactions, model M8b); coherence oracle at quiescent points (cached inodes, name caches, allocators vs logical disk); API dumps of running vs cleanly restarted vs recovered-from-image server.",
        design_ref="DESIGN.md 5/C10", note="trusted: Lean kernel, hand-written codec and cache-protocol models, harness (reads private fields by reflection)",
        technique="Lean 4 proof (codec bijection, cache-protocol invariant) + correspondence + restart/recovery dump comparison"),
    "C11": dict(category="proof",
        text="PARTIAL by nature: Lean theorems for the failure points a model can contain (64-bit wrap-around guards exact, block indices in range, XDR decoder total and "
             "non-amplifying, the reference model answers every request) + correspondence with hostile arguments + RPC-level message fuzzing of all 28 procedures as "
             "search for panics, hangs and memory growth.",
        design_ref="DESIGN.md 5/C11", note="trusted: Lean kernel, hand-written guard/index model, harness; outside: memory exhaustion and blocking in the Go runtime / RPC library / OS",
        technique="Lean 4 proof of guards and decoder totality + hostile-input correspondence + fuzzing (search only)"),
    "C12": dict(category="proof",
        text="Lean theorems (byte level) on the reference model: never-written bytes read as zero for every history of writes/truncations, shrink-then-grow exposes zeros, writes touch "
             "one file; at the level of disk blocks (the bytes of files on blocks under the pointer tree, any number of files sharing the disk, blocks passing from file to file through the allocator): "
             "after any history every file shows exactly its own content log, a truncation clears the kept last block, growth exposes zeros, and that a block handed out holds zeros follows from the "
             "invariant kept by FreeBlock's zeroing (no_file_ever_shows_foreign_bytes). Correspondence: every READ reply compared byte for byte on sequences that shrink, re-grow, delete and recycle blocks. Also: full-disk scenarios, the atxn correspondence (a freed block is not available before the commit that zeroes it), crash images whose recovered servers are probed with never-written files, lock traces two-phase.",
        design_ref="DESIGN.md 5/C12", note="trusted: Lean kernel, reference model, harness; the block-level models are tied to the code through theorems to models that have correspondences (reference model, pointer tree)",
        technique="Lean 4 proof + correspondence"),
    "C13": dict(category="proof",
        text="Lean theorems about the paging function for arbitrary budgets (READDIR and READDIRPLUS are instances): page soundness, progress, no gaps, completeness at eof, and "
             "enumeration_exact: iterating from cookie 0 with any limits returns every live entry exactly once and terminates; correspondence on every listing reply + implementation-side paging oracle. Also: no_operation_moves_an_entry, directory_size_is_its_slots, a_live_directory_never_loses_slots (invariants of every operation of the reference model).",
        design_ref="DESIGN.md 5/C13", note="trusted: Lean kernel, reference model of dir.Apply/ApplyEnts byte accounting (validated by correspondence), harness",
        technique="Lean 4 proof (induction over slot lists) + correspondence"),
    "C17": dict(category="proof",
        text="Lean theorems on a transliteration of simple/ops.go + inode.go: WRITE/READ/SETATTR refine the specification 'a fixed set of files, each a byte string of at most 4096 bytes' "
             "(acceptance conditions exact for all 64-bit offsets and counts, content equations, end-of-file flag, zero fill, no exposure after shrink), invalid inodes refused, "
             "invariant preserved, per-file objects disjoint; every handler holds the inode's lock across its body's waiting commit (regenerated table), hence replies reveal only durable state (M14); correspondence on all procedures with exact status codes; concurrent rounds on one inode must be explained by some order applied by the model; crash images (prefix-state oracle, recovered by simple.Recover) with the C01 WAL theorems (PARTIAL: schedules and crash points sampled).",
        design_ref="DESIGN.md 5/C17", note="trusted: Lean kernel, hand-written transliteration (validated by correspondence), harness",
        technique="Lean 4 refinement proof + correspondence"),
    "C18": dict(category="proof",
        text="Lean theorems on the key/value model: MultiPut is all-or-nothing and one journal transaction, get_latest over arbitrary histories (read your writes), coinciding range guards; "
             "correspondence on sequences incl. journal-capacity boundaries; concurrent rounds of overlapping puts must be explained by some order applied by the model; crash images (all pairs of a put or none, acknowledged puts survive) with the C01 WAL theorems (PARTIAL: schedules and crash points sampled).",
        design_ref="DESIGN.md 5/C18", note="trusted: Lean kernel, hand-written model (validated by correspondence), harness",
        technique="Lean 4 proof (history induction) + correspondence"),
    "C19": dict(category="proof",
        text="Lean theorems over announced values regenerated by running the real FSINFO/PATHCONF: name_max, maxfilesize, wtmax are exactly the model's acceptance bounds, requests beyond "
             "are refused without effect, wtmax fits the journal (arithmetic); correspondence + implementation-side probe at limit and limit+1. Also: invariants of the reference model for every history (no file larger than maxfilesize, no name longer than name_max) and the initattr probe (creating procedures with an initial size beyond the maximum).",
        design_ref="DESIGN.md 5/C19", note="trusted: Lean kernel, translator (announce/consts), reference model, harness",
        technique="Lean 4 proof over regenerated constants + correspondence"),
    "C14": dict(category="proof",
        text="PARTIAL by nature. Lean theorems: lockset discipline implies a release->acquire edge between conflicting accesses; for the control skeleton of every function of nfs/, dir/, "
             "shrinker/ (REGENERATED from the source on every run, 860 statements classified) no path uses an inode variable after the commit/abort that released its lock — path-sensitive "
             "abstract execution decided by the kernel over the regenerated table; struct mutexes guard their fields on every path; fields synchronised by sync/atomic are touched atomically or in function-private copies only (table by go/types over the whole module); the server-wide structs every request reaches without a lock (nfs.Nfs, fstxn.FsState, super.FsSuper, simple.Nfs, kvs.KVS) are written by their constructors only (table of every field assignment of the module, by go/types). Recorded lock events of concurrent runs validated; thorough tier: Go race detector as search.",
        design_ref="DESIGN.md 5/C14", note="trusted: Lean kernel, the go/ast skeleton extractor, fstxn hooks; outside: Go memory model, go-journal internals, non-inode shared state (own mutexes/atomics)",
        technique="Lean 4 proof over regenerated control skeletons + lock-trace validation (+ race detector as search)"),
    "C15": dict(
        category="proof",
        text="Lean 4 theorems (for every disk size, no bound) about the layout arithmetic REGENERATED from super/super.go and "
             "the markAlloc guard of nfs/nfs.go: regions consecutive/disjoint/inside the disk, bitmaps cover every block and inode, "
             "inode slots disjoint and inside the table, no uint64 overflow; the format and allocator models are hand-written and tied to "
             "the code by correspondence on every size of a dense range (quick: 745 sizes; thorough: every size 1400..40000 and around eight bitmap-block boundaries), "
             "including use-and-free of real files at the ends of the data region and on both sides of every bitmap-block boundary.",
        design_ref="DESIGN.md 5/C15",
        note="trusted: Lean kernel, the go/ast translator for super.go, the mkfs/alloc correspondence harness; go-journal's alloc.Alloc is modelled (tied by op-sequence correspondence), not verified",
        technique="Lean 4 proof over regenerated definitions + model/implementation correspondence",
    ),
    "C16": dict(
        category="proof",
        text="Lean 4 theorems: round trip decode(encode v)=v for every XDR type descriptor and value (mutual structural induction); "
             "the descriptor table and both registration tables REGENERATED from nfstypes/nfs_xdr.go, nfs_types.go and cmd/*/main.go are "
             "equal to the tables transcribed from RFC 1813 (rfl / decide over the whole table); oversize inputs refused; no proper prefix of an encoding decodes, for every descriptor; "
             "the decoder never looks past what it consumes; every decoded value re-encodes to the same length and value, and on canonical input (booleans/presence flags 0 or 1, zero padding) to the very bytes consumed. "
             "The generic codec model is tied to the real generated Xdr methods by correspondence (values, mutated byte strings, all 28 registrations).",
        design_ref="DESIGN.md 5/C16",
        note="trusted: Lean kernel, the go/ast translator for nfs_xdr.go, the RFC transcription Spec/Rfc1813.lean, the xdr correspondence harness; go-rpcgen's xdr primitives are modelled (tied by correspondence), not verified",
        technique="Lean 4 proof (round trip, table equality) over regenerated descriptors + codec correspondence",
    ),
}

NOT_YET = "not claimed yet: the model, theorems and correspondence for this property are still being built (see DESIGN.md section 10 build order); nothing is asserted about it"


def manifest():
    checks = []
    for p in ALL:
        if p not in CLAIMED:
            continue
        c = CLAIMED[p]
        checks.append({
            "property_id": p,
            "quick_cmd": "bin/check %s --tier quick" % p,
            "thorough_cmd": "bin/check %s --tier thorough" % p,
            "evidence_file": "/verif/evidence/%s.json" % p,
            "replay_cmd_template": "bin/check %s --replay {path}" % p,
            "engine": "lean4+harness",
            "level_claimed": {"category": c["category"], "text": c["text"], "design_ref": c["design_ref"]},
            "level_note": c["note"],
            "technique": c["technique"],
        })
    return {
        "version": 1,
        "setup_cmd": "bin/setup",
        "hooks": {
            "guard": "verif",
            "enable": "go build -tags verif (the harness module /verif/go replaces github.com/mit-pdos/go-nfsd by /repo)",
            "baseline_off_cmd": "cd /repo && go test -vet=off -count=1 ./...",
            "source_commits": json.load(open(os.path.join(VERIF, "hooks.json")))["commits"],
            "add_only": True,
        },
        "engines": [
            {"name": "lean4+harness", "path": "/verif/lean, /verif/go, /verif/checks",
             "serves_properties": sorted(CLAIMED.keys()),
             "kind_free_text": "Lean 4 models and theorems (lake project /verif/lean), Go translator regenerating parts of the model from /repo, Go correspondence harness calling the real code in-process, Python orchestration (bin/check)"},
        ],
        "checks": checks,
        "notes": "Every check rebuilds translator and harness from /repo's working tree, regenerates lean/GoNfsd/Gen, re-elaborates the property theorems, audits their axioms, and runs the correspondence. See DESIGN.md.",
        "not_applicable": [{"property_id": p, "reason": NOT_YET} for p in ALL if p not in CLAIMED],
    }

"""C11 — no request can crash or wedge the server."""
import os
import seqlib
import vlib
from vlib import Break

MODULE = "GoNfsd.Props.C11"


def run(ctx):
    ok_go, ok_drv = seqlib.build_and_prove(ctx, MODULE)
    if ok_go:
        args = ["-seqs", "40", "-ops", "500", "-big"] if ctx.tier == "thorough" else ["-seqs", "8", "-ops", "400"]
        lines, tr = seqlib.run_seq(ctx, args)
        if lines is not None:
            # a request the model answers and the server does not (or answers differently) is a
            # correspondence break; a panic or hang is the concrete failing input
            seqlib.analyse(ctx, lines, tr, ok_drv, "C11", relevant_ops=set())
        # the simple server (simple/ops.go): hostile inode numbers, offsets and counts over the
        # whole 64/32-bit range; panics, hangs and what one request allocates
        st = os.path.join(ctx.scratch, "simple.txt")
        rc, err = ctx.harness(["simple", "-seed", str(ctx.seed), "-seqs", "60" if ctx.tier == "thorough" else "12"], st, timeout=3000)
        if rc != 0:
            ctx.breaks.append(Break("correspondence", "harness simple failed to run", err[-2000:]))
        else:
            sl = open(st).read().splitlines()
            ctx.cov["evaluations"] += len([l for l in sl if l and not l.startswith("#")])
            ctx.cov["simple_requests"] = len([l for l in sl if l and not l.startswith("#")])
            for l in sl:
                if l.startswith("# PANIC") or l.startswith("# HANG"):
                    kind = "panic" if "PANIC" in l else "hang"
                    ctx.add_violation("%s:simple:%s" % (kind, seqlib.op_of(l.split(" :: ", 1)[-1])), l[2:300], {"how": "harness simple -seed %d" % ctx.seed})
                if l.startswith("# ORACLE C11 "):
                    ctx.add_violation("simple:" + l.split()[3], l[2:400], {"how": "harness simple -seed %d: allocation of the handler measured around the request" % ctx.seed})
        desc = os.path.join(vlib.LEAN, "GoNfsd", "Spec", "rfc1813_desc.json")
        rounds = 8 if ctx.tier == "thorough" else 1
        iters = 250000 if ctx.tier == "thorough" else 40000
        for k in range(rounds):
            ft = os.path.join(ctx.scratch, "fuzz%d.txt" % k)
            rc, err = ctx.harness(["fuzz", "-seed", str(ctx.seed * 1000 + k), "-desc", desc, "-iters", str(iters)], ft, timeout=3000)
            if rc != 0:
                ctx.breaks.append(Break("correspondence", "harness fuzz failed to run", err[-2000:]))
                continue
            fl = open(ft).read().splitlines()
            for l in fl:
                if l.startswith("# PANIC") or l.startswith("# HANG"):
                    kind = "panic" if "PANIC" in l else "hang"
                    ctx.add_violation("%s:fuzz" % kind, l[2:400], {"how": "harness fuzz -seed %d: XDR message delivered to the registered handler" % (ctx.seed * 1000 + k),
                                                                    "message": l.split(" msg ")[-1][:4000]})
                if l.startswith("# ORACLE C11"):
                    ctx.add_violation("fuzz:" + l.split()[3], l[2:400], {"how": "harness fuzz -seed %d" % (ctx.seed * 1000 + k)})
                if l.startswith("# FUZZ"):
                    tot = 0
                    for kv in l.split()[2:]:
                        k2, v = kv.rsplit("=", 1)
                        if k2 != "maxheap":
                            tot += int(v)
                        else:
                            ctx.cov["fuzz_max_heap_bytes"] = max(ctx.cov.get("fuzz_max_heap_bytes", 0), int(v))
                    ctx.cov["evaluations"] += tot
                    ctx.cov["fuzz_messages"] = ctx.cov.get("fuzz_messages", 0) + tot
                    ctx.cov["samples"].append(l[:300])
    vlib.finish(
        ctx, "proof",
        "PARTIAL. Theorems: the wrap-around WRITE guard is exact for all 64-bit offsets/counts, READ's arithmetic cannot wrap under its precondition, every "
        "block index under the guards is in range, the XDR decoder is total and never amplifies, the reference model answers every request. Correspondence with "
        "hostile arguments; RPC-level message fuzzing (search only) for panics, hangs and memory growth; what one request allocates is measured around every request of "
        "the sequential harness and of the simple server's harness (bound 64 MB, transfers are at most about 2 MB)",
        "seq: hostile handles (length 0..67, huge and out-of-table inode numbers), names of any length, offsets/sizes/cookies up to 2^64-1, count≠len(data); "
        "fuzz: generated arguments of all 28 procedures with live handles/names, XDR-encoded, 40% mutated (truncate, bit flip, word overwrite, junk), delivered to "
        "the registration handlers of a live server; outcome classes reply / decode error / panic / hang / heap growth",
        ["memory exhaustion and blocking inside the Go runtime, go-rpcgen's rfc1057 server (e.g. its record-length allocation) and the OS are outside the model",
         "the block-index theorem is about the hand-written arithmetic model of bmap (Model/Guards.lean)"],
        pending=[],
        partial=["C11 as a whole: proof covers the modelled failure points only"])

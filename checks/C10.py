"""C10 — the running server and a restart from its disk are indistinguishable."""
import os
import seqlib
import fscklib
import crashlib
import vlib
import dclib
from vlib import Break

MODULE = "GoNfsd.Props.C10"


def run(ctx):
    ok_go, ok_drv = seqlib.build_and_prove(ctx, MODULE, extra_parts=["skeleton"])
    seqlib.report_journal_objects(ctx)
    if ok_go:
        args = ["-seqs", "30", "-ops", "400", "-c10", "40"] if ctx.tier == "thorough" else ["-seqs", "6", "-ops", "250", "-c10", "50"]
        lines, tr = seqlib.run_seq(ctx, args + ["-locks"])
        # a transaction that takes a lock again after giving it back answers — and refills the inode cache and the name cache — from what it
        # read under its first tenure (the journal operation keeps every object it has read)
        seqlib.two_phase(ctx, lines, ok_drv, "C10", "What the transaction read before it gave the lock back is stale once another request has committed in between; after "
                         "an eviction or a forgotten inode the stale copy becomes the cached inode and the name cache is rebuilt from stale directory blocks: the running "
                         "server differs from a restarted one")
        if lines is not None:
            seqlib.analyse(ctx, lines, tr, ok_drv, "C10", relevant_ops={"restart"})
            h = ctx.cov.get("histogram", {})
            ctx.cov["quiescent_points_checked"] = h.get("coherence:ok", 0)
            ctx.cov["restart_and_recovery_comparisons"] = h.get("restartcompare:ok", 0)
        ct = os.path.join(ctx.scratch, "codec.txt")
        rc, err = ctx.harness(["codec", "-seed", str(ctx.seed), "-n", "20000" if ctx.tier == "thorough" else "2000"], ct)
        if rc != 0:
            ctx.breaks.append(Break("correspondence", "harness codec failed to run", err[-2000:]))
        elif ok_drv:
            try:
                n, mism, _ = ctx.driver("codec", ct)
                ctx.cov["traces_validated_against_impl"] += n
                ctx.cov["evaluations"] += n
                ctx.cov["samples"].append(open(ct).read().splitlines()[0][:300])
                if mism:
                    ctx.breaks.append(Break("correspondence", "codec model and implementation disagree", "\n".join(mism[:8])))
                    ctx.add_violation("codec:" + mism[0].split(" :: ")[-1].split()[0], mism[0][:400],
                                      {"how": "harness codec: the on-disk encoding/decoding of the real code differs from the bijective codec model",
                                       "line": mism[0].split(" :: ")[-1][:2000]})
            except Break as b:
                ctx.breaks.append(b)
    if ok_go:
        # restart from the disk at ANY moment: a server started on the image of a crash point (journal written but not yet
        # installed, installation half done, ...) must be the server after some prefix of the operations — in particular what
        # start-up reads from the disk must be read through the journal
        crashlib.run_crash(ctx, ok_drv, "meta", ["-workloads", "2", "-ops", "40", "-images", "200"] if ctx.tier == "thorough"
                           else ["-workloads", "1", "-ops", "30", "-images", "70"], lambda label, key: True)
    if ok_go:
        # the slot cache underneath the inode cache: identity of the slot returned by every lookup
        cf = os.path.join(ctx.scratch, "cache.txt")
        rc, err = ctx.harness(["cache", "-seed", str(ctx.seed)] + (["-seqs", "200", "-ops", "1000"] if ctx.tier == "thorough" else ["-seqs", "30", "-ops", "400"]), cf)
        if rc != 0:
            ctx.breaks.append(Break("correspondence", "harness cache failed to run", err[-2000:]))
        elif ok_drv:
            try:
                n, mism, _ = ctx.driver("cache", cf)
                ctx.cov["traces_validated_against_impl"] += n
                ctx.cov["evaluations"] += n
                ctx.cov["cache_lookups_compared"] = n
                if mism:
                    ctx.breaks.append(Break("correspondence", "slot-cache model and cache.Cache disagree on the identity of the slot returned", "\n".join(mism[:8])))
                    ctx.add_violation("cache:slot-identity", mism[0][:400],
                                      {"how": "harness cache: random LookupSlot calls on the real cache.Cache; slots numbered by first appearance of their address "
                                              "(all kept alive); the model hands out a fresh slot on every miss",
                                       "line": mism[0].split(" :: ")[-1][:400]})
            except Break as b:
                ctx.breaks.append(b)
    if ok_go:
        # the name cache of a directory (M8e): replies, Lastoff, the cache map and the slots after every step of real transactions
        dclib.run(ctx, ok_drv, "C10")
        # the allocation discipline (M8b): several real alloctxn transactions open at once; allocator and bitmap after every step
        dclib.run_atxn(ctx, ok_drv)
    if ok_go:
        # resource exhaustion: every allocation path at the exact boundary of a full disk (harness reclaim)
        rl = fscklib.run_images(ctx, ok_drv, "reclaim", ["reclaim", "-seed", str(ctx.seed)] + (["-hists", "9", "-rounds", "3"] if ctx.tier == "thorough" else ["-hists", "3", "-rounds", "1"]), set(), False)
        fscklib.oracle_lines(ctx, rl, "C10", "harness reclaim -seed %d (full-disk scenarios)" % ctx.seed)
        for l in rl or []:
            if l.startswith("# HIST"):
                for kv in l.split()[2:]:
                    k, v = kv.split("=")
                    if k.endswith(":nospc"):
                        ctx.cov["nospc_replies"] = ctx.cov.get("nospc_replies", 0) + int(v)
    vlib.finish(
        ctx, "proof",
        "theorems: inode, directory-entry and handle codecs are bijective on well-formed values; the inode-cache protocol (load, in-place modify+write, evict, commit, "
        "abort) keeps every cached inode equal to the logical disk at every quiescent point, hence a rebuilt server reads the same; name cache M8e: the dcache map holds exactly the live slots in every reachable state and the "
        "directory with cache, hint and slot reuse refines a plain map (drop = identity). Ties: codec correspondence; dcache correspondence (every reply, Lastoff, cache map, slots); at quiescent "
        "points of generated histories every cached inode, name cache and allocator is compared with the logical disk, and full API dumps of the running server with a "
        "cleanly restarted one and one recovered from a copy of the raw image",
        "as C02 with -c10 N: every N operations and at the end of every scenario/sequence: flush, wait for background freeing, compare caches/allocators with the logical "
        "disk, dump the tree (handles, attributes, cookies, content digests), recover a second server from a raw-image copy and restart the first cleanly, compare the three dumps",
        ["the cache-protocol model is sequential (one open transaction); concurrent transactions hold disjoint inode sets by locking (C03/C06)",
         "private fields of cache.Cache, dcache.Dcache and alloc.Alloc are read by reflection in the harness"],
        pending=[])

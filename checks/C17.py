"""C17 — SimpleNFS implements its specification, atomically and durably."""
import os
import seqlib
import crashlib
import vlib
from vlib import Break

MODULE = "GoNfsd.Props.C17"


def failing_simple_functions(ctx):
    """Concrete call sites: the functions of simple/ops.go that do not hold the inode's lock across the body and its waiting commit."""
    import re
    f = os.path.join(ctx.scratch, "simplelocks.lean")
    open(f, "w").write("import GoNfsd.Gen.Skeleton\nopen GoNfsd.Model.Skeleton GoNfsd.Gen.Skeleton\n"
                       "#eval simpleLockUses.filterMap fun f => if simpleCheck f then none else some s!\"SIMPLE {f.1} {f.2.2}\"\n")
    rc, out = vlib.run(["lake", "build", "GoNfsd.Gen.Skeleton"], cwd=vlib.LEAN, timeout=600)
    if rc != 0:
        return []
    rc, out = vlib.run(["lake", "env", "lean", f], cwd=vlib.LEAN, timeout=600)
    return re.findall(r"SIMPLE (\S+) (\[.*?\])\"", out)


def run(ctx):
    ok_go, ok_drv = seqlib.build_and_prove(ctx, MODULE, extra_parts=["skeleton"])
    if any(b.kind == "proof" for b in ctx.breaks):
        for name, calls in failing_simple_functions(ctx)[:3]:
            ctx.add_violation("lock-not-held-across-commit:" + name,
                              "simple.%s does not hold the inode's lock from before its body until after the body's waiting commit: (0 Acquire, 1 Release, 2 body, 3 CommitWait) in source order: %s" % (name, calls),
                              {"input": {"function": "simple." + name, "calls_in_source_order": calls},
                               "how": "regenerated table Gen/Skeleton.simpleLockUses checked by Model/Skeleton.simpleCheck (theorem simple_holds_the_lock_across_the_waiting_commit): "
                                      "a request that runs beside a writer is answered from the journal's memory, and a crash before the writer's flush undoes what the reply reported"})
    if ok_go:
        tr = os.path.join(ctx.scratch, "simple.txt")
        args = ["-seqs", "100", "-ops", "500"] if ctx.tier == "thorough" else ["-seqs", "12", "-ops", "300"]
        rc, err = ctx.harness(["simple", "-seed", str(ctx.seed)] + args, tr)
        if rc != 0:
            ctx.breaks.append(Break("correspondence", "harness simple failed to run", err[-2000:]))
        else:
            lines = open(tr).read().splitlines()
            ops = [l for l in lines if l and not l.startswith("#") and l != "sinit"]
            ctx.cov["evaluations"] += len(ops)
            ctx.cov["distinct_nontrivial"] += len(set(ops))
            ctx.cov["samples"] += [ops[0][:200], ops[len(ops) // 2][:200]]
            ctx.cov["accepted_writes"] = len([l for l in ops if l.startswith("swrite") and " => 0 " in l])
            for l in lines:
                if l.startswith("# PANIC") or l.startswith("# HANG"):
                    ctx.add_violation("simple:" + ("panic" if "PANIC" in l else "hang"), l[2:300],
                                      {"how": "harness simple: request to the real SimpleNFS server", "request": l.split(" :: ")[-1][:1000],
                                       "trace_prefix": seqlib.context_before(lines, l)})
            if ok_drv:
                try:
                    n, mism, _ = ctx.driver("simple", tr)
                    ctx.cov["traces_validated_against_impl"] += n
                    if mism:
                        ctx.breaks.append(Break("correspondence", "SimpleNFS model and implementation disagree on %d replies" % len(mism), "\n".join(mism[:8])))
                        m = mism[0].split(" :: ")
                        ctx.add_violation("simple-reply:" + m[-1].split()[0], m[0][:400],
                                          {"how": "harness simple: the specification model's reply differs from the server's", "operation": m[-1][:1500],
                                           "trace_prefix": seqlib.context_before(lines, m[-1], contains=True)})
                except Break as b:
                    ctx.breaks.append(b)
    if ok_go:
        # concurrent requests on one file: some order must explain every reply and the final contents
        tr2 = os.path.join(ctx.scratch, "simpleconc.txt")
        rc, err = ctx.harness(["simpleconc", "-seed", str(ctx.seed), "-rounds", "4000" if ctx.tier == "thorough" else "500"], tr2)
        if rc != 0:
            ctx.breaks.append(Break("correspondence", "harness simpleconc failed to run", err[-2000:]))
        else:
            ctx.cov["concurrent_rounds"] = len([l for l in open(tr2).read().splitlines() if l.startswith("sround-end")])
            if ok_drv:
                try:
                    n, mism, _ = ctx.driver("simple", tr2)
                    ctx.cov["evaluations"] += n
                    if mism:
                        ctx.breaks.append(Break("correspondence", "a concurrent round on one file is not linearizable (or a reply differs)", "\n".join(mism[:5])))
                        m = mism[0].split(" :: ")
                        ctx.add_violation("simple-concurrent:" + ("not-linearizable" if "not linearizable" in m[0] else "reply"), m[0][:300],
                                          {"how": "harness simpleconc -seed %d; drv simple" % ctx.seed, "line": m[-1][:1500]})
                except Break as b:
                    ctx.breaks.append(b)
        crashlib.run_small(ctx, ok_drv, "crashsimple", "C17", ["-workloads", "12", "-ops", "60", "-images", "1000"] if ctx.tier == "thorough" else ["-workloads", "3", "-ops", "40", "-images", "200"])
    vlib.finish(
        ctx, "proof",
        "theorems: WRITE accepted exactly when count = len(data), the end is within 4096 bytes and there is no hole; accepted WRITE, READ and SETATTR refine the "
        "specification 'files are byte strings of at most 4096 bytes' (content equations, end-of-file flag, zero fill on growth); invalid inode numbers refused "
        "without effect; requests touch one file; well-formedness is an invariant; per-file objects are disjoint; every handler holds the inode's lock across its body and the body's "
        "waiting commit (table regenerated from simple/ops.go), so — model M14, any interleaving — a reply reveals only what a crash cannot undo. Correspondence on all procedures with exact status codes",
        "request sequences over inode numbers 0..40 and huge, handles shorter than 8 bytes, offsets/sizes/counts at 0,1,2,4094..4097,8192,2^32,2^63,2^64-k, count≠len(data), "
        "appends at the current size, lookups, commits, unsupported procedures, and restarts of the server on the same disk both ways it comes up (simple.MakeNfs as in cmd/simple-nfsd, "
        "simple.Recover) — the model's state must carry over; every reply compared exactly",
        ["64-bit offsets are read as natural numbers (exact because of the explicit SumOverflows test, which the correspondence exercises at 2^64-k)"],
        pending=[],
        partial=["concurrent requests: rounds of 2-4 simultaneous WRITE/SETATTR on one inode must be explained by some order applied by the model (sampled schedules, not a theorem)", "crash atomicity/durability: theorems of C01 on the WAL model + recorded-trace validation + prefix-state oracle on sampled crash images of WRITE/SETATTR workloads (recovered alternately by simple.Recover and by simple.MakeNfs, the start path of cmd/simple-nfsd); "
                 "crash right after a revealing reply: SETATTR 1,2,3,... beside two GETATTR clients on a disk slow on the log header, crash (un-barriered writes lost) at the position of each first reply reporting a size, the recovered size must not be smaller"])

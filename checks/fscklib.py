"""Shared code of the structure checks (C04, C05): harness image dumps + Lean driver `fsck`."""
import os
import re
import vlib
from vlib import Break

C04_CHECKS = {"inode-table", "pointer-outside-data-region", "block-with-two-owners", "block-bitmap-differs-from-ownership",
              "inode-bitmap-differs-from-live-inodes", "blocks-beyond-size", "directory-names",
              "live-object-without-exactly-one-name", "dot-or-dotdot-wrong", "root-not-a-directory", "object-unreachable-from-root"}
C05_CHECKS = {"block-with-two-owners", "block-bitmap-differs-from-ownership", "inode-bitmap-differs-from-live-inodes",
              "blocks-beyond-size", "half-freed-object-at-quiescence", "allocator-differs-from-bitmap"}
KNOWN_RENAME = "rename:directory-dotdot-and-cycles"


def image_text(path, n):
    """The n-th (1-based) image of an image file."""
    out, k = [], 0
    with open(path) as f:
        for l in f:
            if l.startswith("img begin"):
                k += 1
            if k == n:
                out.append(l.rstrip("\n")[:20000])
            if k > n:
                break
    return out


def run_images(ctx, ok_drv, name, harness_args, relevant, report_known, timeout=6000):
    """Runs the harness with -imgout, then the Lean checker over the images.  Returns the harness's stdout lines."""
    img = os.path.join(ctx.scratch, name + ".img")
    outp = os.path.join(ctx.scratch, name + ".out")
    rc, err = ctx.harness(harness_args + ["-imgout", img], outp, timeout=timeout)
    if rc != 0:
        ctx.breaks.append(Break("correspondence", "harness %s failed to run" % harness_args[0], err[-2000:]))
        return None
    lines = open(outp).read().splitlines()
    cov = ctx.cov
    if not ok_drv:
        return lines
    try:
        n, mism, out = ctx.driver("fsck", img)
    except Break as b:
        ctx.breaks.append(b)
        return lines
    cov["traces_validated_against_impl"] += n
    cov["evaluations"] += n
    cov["images_checked:" + name] = n
    for l in out:
        if l.startswith("stats "):
            for kv in l.split()[1:]:
                k, v = kv.split("=")
                if k == "max-owned-blocks":
                    cov["max_owned_blocks"] = max(cov.get("max_owned_blocks", 0), int(v))
                else:
                    cov["images_" + k.replace("-", "_")] = cov.get("images_" + k.replace("-", "_"), 0) + int(v)
        elif l.startswith("KNOWN ") and report_known:
            f = l.split(" :: ", 1)
            ctx.add_violation(KNOWN_RENAME, "image %s: %s (the directory was moved to another parent by RENAME)" % (f[1][:120] if len(f) > 1 else "", " ".join(f[0].split()[2:])),
                              {"how": "harness %s" % " ".join(harness_args), "line": l[:400]})
    cov["distinct_nontrivial"] += n
    for l in mism:
        f = l.split(" :: ", 1)
        head = f[0].split()
        idx = int(head[1])
        failing = [x for x in head[2:] if x in relevant]
        if not failing:
            continue
        label = f[1] if len(f) > 1 else ""
        ctx.breaks.append(Break("correspondence", "the structure checker rejects an image of the real server's disk: %s" % " ".join(failing), l[:600]))
        ctx.add_violation("fsck:" + failing[0], "image [%s] fails: %s" % (label[:200], ", ".join(failing)),
                          {"how": "harness %s -imgout F; drv fsck < F (seed %d)" % (" ".join(harness_args), ctx.seed),
                           "failing_checks": failing, "label": label[:300], "image": image_text(img, idx)})
    cov["samples"].append("images from: harness " + " ".join(harness_args))
    return lines


def oracle_lines(ctx, lines, prop, how):
    for l in lines or []:
        if l.startswith("# ORACLE " + prop + " "):
            f = l.split(" ", 4)
            ctx.add_violation("crash:" + f[3] if how.startswith("crash") else f[3], (f[4] if len(f) > 4 else "")[:600], {"how": how, "oracle": l[:3000]})


def run_blockmap(ctx, ok_drv, args):
    """Block-map correspondence (model M7): the pointer structure of a real file before/after each operation."""
    tr = os.path.join(ctx.scratch, "blockmap.txt")
    rc, err = ctx.harness(["blockmap", "-seed", str(ctx.seed)] + args, tr, timeout=3000)
    if rc != 0:
        ctx.breaks.append(Break("correspondence", "harness blockmap failed to run", err[-2000:]))
        return
    lines = open(tr).read().splitlines()
    ops = [l for l in lines if l.startswith("bm op ")]
    hist = ctx.cov.setdefault("histogram", {})
    for l in ops:
        f = l.split()
        k = "blockmap:" + f[2]
        if f[2] == "write":
            k += ":short" if f[5] == "0" and int(f[6]) < int(f[4]) else (":nospc" if f[5] != "0" else ":ok")
        hist[k] = hist.get(k, 0) + 1
    ctx.cov["blockmap_operations"] = len(ops)
    if not ok_drv:
        return
    try:
        n, mism, _ = ctx.driver("blockmap", tr)
    except Break as b:
        ctx.breaks.append(b)
        return
    ctx.cov["traces_validated_against_impl"] += n
    ctx.cov["evaluations"] += len(ops)
    if mism:
        ctx.breaks.append(Break("correspondence", "block-map model and implementation disagree on %d operations" % len(mism), "\n".join(mism[:6])))
        m = mism[0].split(" :: ")
        idx = int(m[0].split()[1])
        ctx.add_violation("blockmap:" + m[0].split()[2].rstrip(":"), m[0][:400],
                          {"how": "harness blockmap -seed %d %s; drv blockmap" % (ctx.seed, " ".join(args)), "message": m[0][:1500],
                           "context": [x[:600] for x in lines[max(0, idx - 4):idx + 1]]})

"""C19 — advertised limits are honoured exactly."""
import os
import fscklib
import seqlib
import vlib
from vlib import Break

MODULE = "GoNfsd.Props.C19"


def run(ctx):
    ok_go, ok_drv = seqlib.build_and_prove(ctx, MODULE)
    if ok_go:
        args = ["-seqs", "20", "-ops", "400", "-big"] if ctx.tier == "thorough" else ["-seqs", "4", "-ops", "300"]
        lines, tr = seqlib.run_seq(ctx, args)
        if lines is not None:
            seqlib.analyse(ctx, lines, tr, ok_drv, "C19",
                           relevant_ops={"fsinfo", "pathconf", "create", "mkdir", "symlink", "rename", "write", "setattr",
                                         "lookup", "remove", "rmdir", "read"})
    if ok_go:
        # the limits through the back door: CREATE / MKDIR / SYMLINK with an initial SIZE attribute at and beyond maxfilesize, on a server of its
        # own — no object may come to exceed the announced maximum, and it must stay readable
        it = os.path.join(ctx.scratch, "initattr.txt")
        rc, err = ctx.harness(["initattr"], it)
        if rc != 0:
            ctx.breaks.append(Break("correspondence", "harness initattr failed to run", err[-2000:]))
        else:
            il = open(it).read().splitlines()
            ctx.cov["creations_with_initial_size"] = len([l for l in il if l.startswith("initattr ")])
            ctx.cov["evaluations"] += ctx.cov["creations_with_initial_size"]
            fscklib.oracle_lines(ctx, il, "C19", "harness initattr: creating procedures with an initial size attribute of maxfilesize, maxfilesize+1, …, 2^64-1 on a fresh server; GETATTR and a READ near the end afterwards")
    vlib.finish(
        ctx, "proof",
        "theorems over the REGENERATED announced values (obtained by running FSINFO/PATHCONF of the current code): name_max, maxfilesize and wtmax are "
        "exactly the acceptance bounds of the reference model, beyond them requests are refused with no effect, the announced transfer size fits the "
        "journal arithmetically; correspondence + implementation-side probe at limit and limit+1",
        "limits probe on the real server (names of length name_max and name_max+1 for CREATE/MKDIR/SYMLINK/RENAME, WRITE of wtmax and wtmax+1 bytes, "
        "writes and SETATTR at maxfilesize and beyond, offsets up to 2^64-1) replayed on the model; plus the C02 generator with name lengths 110..114, 255, 300",
        ["that a WRITE touches at most 4 index blocks is proved on the block-map model M7 (write_dirties_at_most_four_index_blocks); that it dirties count/4096+1 data blocks, 1 inode block and at most NBlockBitmap bitmap blocks is by construction of the model (one data block per file block) and argued in DESIGN.md for the bitmap"],
        pending=[])

"""C03 — concurrent RPCs are linearizable."""
import os
import seqlib
import conclib
import vlib
from vlib import Break

MODULE = "GoNfsd.Props.C03"


def failing_slot_functions(ctx):
    """Concrete call sites: the functions of fstxn that fetch a cache slot without holding the inode's lock."""
    import re
    f = os.path.join(ctx.scratch, "slots.lean")
    open(f, "w").write("import GoNfsd.Gen.Skeleton\nopen GoNfsd.Model.Skeleton GoNfsd.Gen.Skeleton\n"
                       "#eval slotUses.filterMap fun f => if slotCheck f then none else some s!\"SLOT {f.1} {f.2.map (·.2)}\"\n")
    rc, out = vlib.run(["lake", "build", "GoNfsd.Gen.Skeleton"], cwd=vlib.LEAN, timeout=600)
    if rc != 0:
        return []
    rc, out = vlib.run(["lake", "env", "lean", f], cwd=vlib.LEAN, timeout=600)
    return re.findall(r"SLOT (\S+) \[([^\]]*)\]", out)


def failing_commit_paths(ctx):
    """Concrete call sites: the functions of fstxn/commit.go that give locks back before the waiting commit, and who else commits without waiting."""
    import re
    f = os.path.join(ctx.scratch, "commitpaths.lean")
    open(f, "w").write("import GoNfsd.Gen.Skeleton\nopen GoNfsd.Model.Skeleton GoNfsd.Gen.Skeleton\n"
                       "#eval commitPaths.filterMap fun f => if commitPathCheck f then none else some s!\"CPATH {f.1} {f.2}\"\n"
                       "#eval unstableCommitters.filterMap fun c => if unstableCommittersAllowed.contains c then none else some s!\"CPATH {c} [commits-without-waiting]\"\n")
    rc, out = vlib.run(["lake", "build", "GoNfsd.Gen.Skeleton"], cwd=vlib.LEAN, timeout=600)
    if rc != 0:
        return []
    rc, out = vlib.run(["lake", "env", "lean", f], cwd=vlib.LEAN, timeout=600)
    return re.findall(r"CPATH (\S+) (\[.*?\])\"", out)


def run(ctx):
    ok_go, ok_drv = seqlib.build_and_prove(ctx, MODULE, extra_parts=["skeleton"])
    if any(b.kind == "proof" for b in ctx.breaks):
        for name, calls in failing_commit_paths(ctx)[:3]:
            ctx.add_violation("locks-released-before-durable:" + name,
                              "%s lets a transaction give its inode locks back while its changes are only in the journal's memory: %s" % (name, calls),
                              {"input": {"function": name, "calls_in_source_order": calls},
                               "how": "regenerated tables Gen/Skeleton.commitPaths / unstableCommitters checked by Model/Skeleton.commitPathCheck (theorem locks_are_given_back_after_the_waiting_commit; "
                                      "0 journal CommitWait(arg), 1 release, 2 commitWait(arg), 3 delegation, 4 Flush): the next holder of the lock is answered from changes a crash undoes (model M14)"})
        for name, calls in failing_slot_functions(ctx)[:3]:
            ctx.add_violation("slot-before-lock:" + name,
                              "fstxn.%s touches the inode cache without holding the inode's lock: calls in source order: %s" % (name, calls),
                              {"input": {"function": "fstxn." + name, "calls_in_source_order": calls},
                               "how": "regenerated table Gen/Skeleton.slotUses checked by Model/Skeleton.slotCheck: a slot pointer fetched before the lock is granted may belong to an entry "
                                      "the LRU evicted meanwhile; a request that waits for the inode while more than 100 other inodes are used then works on an orphaned object and keeps "
                                      "what an aborting holder had changed in place"})
    if ok_go:
        # directed two-client interleavings decided by the hooks (another client's request in the gap in which a WRITE has given the
        # file's lock back to help the shrinker, ...): the replies must be those of the sequential model in completion order
        slines, str_ = seqlib.run_seq(ctx, ["-seqs", "0", "-ops", "1"], name="seqscen")
        if slines is not None:
            seqlib.analyse(ctx, slines, str_, ok_drv, "C03")
        configs = ([["-hists", "30", "-clients", "8", "-ops", "200", "-yield", str(y)] for y in (0, 20, 50, 80)] if ctx.tier == "thorough"
                   else [["-hists", "6", "-clients", "6", "-ops", "120", "-yield", "30"], ["-hists", "3", "-clients", "3", "-ops", "150", "-yield", "70"]])
        nh = 0
        for k, cargs in enumerate(configs):
            clines, ctr = conclib.run_conc(ctx, cargs, name="conc%d" % k)
            if clines is None:
                continue
            conclib.hangs(ctx, clines, "C03")
            nh += len([l for l in clines if l.startswith("# history")])
            # replay in commit order on the sequential reference model
            ops = [l for l in clines if not l.startswith("#")]
            rf = os.path.join(ctx.scratch, "replay%d.txt" % k)
            open(rf, "w").write("\n".join(ops) + "\n")
            lin = [l for l in clines if l.startswith("# LIN")]
            ctx.cov["evaluations"] += len(ops)
            ctx.cov["distinct_nontrivial"] += len(set(ops))
            if ops:
                ctx.cov["samples"] += [ops[1][:200] if len(ops) > 1 else ops[0][:200], (lin[0] if lin else "")]
            # real-time order: point between invocation and return
            for l in lin:
                kv = dict(x.split("=") for x in l.split()[2:])
                if not (int(kv["invoke"]) <= int(kv["point"]) <= int(kv["return"])):
                    ctx.add_violation("lin-point-outside-call", l, {"how": "harness conc"})
                    break
            for l in clines:
                if l.startswith("# PANIC"):
                    ctx.add_violation("panic:conc", l[2:300], {"how": "harness conc", "trace_prefix": seqlib.context_before(clines, l)})
            if ok_drv:
                try:
                    n, mism, _ = ctx.driver("fs", rf)
                    ctx.cov["traces_validated_against_impl"] += n
                    if mism:
                        ctx.breaks.append(Break("correspondence", "replaying a concurrent history in commit order on the sequential reference does not reproduce %d replies" % len(mism),
                                                "\n".join(m[:400] for m in mism[:8])))
                        m = mism[0].split(" :: ")
                        ctx.add_violation("linearizability:" + seqlib.op_of(m[-1]), m[0][:400],
                                          {"how": "harness conc %s (VERIF_SEED=%d): the operations sorted by linearization point, replayed sequentially on the reference model" % (" ".join(cargs), ctx.seed),
                                           "operation": m[-1][:1500], "history_prefix": seqlib.context_before(ops, m[-1], n=60, contains=True)})
                    lm = conclib.check_locks(ctx, clines, "C03", "conc%d" % k)
                    tp = [x for x in lm if "two-phase" in x]
                    if lm:
                        ctx.breaks.append(Break("correspondence", "recorded transactions are not two-phase (%d)" % len(tp), "\n".join(lm[:8])))
                    for x in tp[:2]:
                        parts = x.split(" :: ")
                        ctx.add_violation("not-two-phase:" + parts[1].split()[1], "a lock is released before the commit point: " + parts[-1][:200],
                                          {"how": "lock/commit events recorded by the fstxn hooks (harness conc)", "trace": parts[-1]})
                except Break as b:
                    ctx.breaks.append(b)
        ctx.cov["concurrent_histories"] = nh
        # check-and-act in ONE transaction: the lock/name traces of requests on servers recovered from crash images
        # (a creation that is handed a half-freed inode aborts, helps freeing and starts over: everything must be re-checked)
        cr = os.path.join(ctx.scratch, "crashlocks.txt")
        rc, err = ctx.harness(["crash", "-seed", str(ctx.seed), "-mix", "free", "-disk", "40000", "-ops", "22", "-locks"] +
                              (["-workloads", "4", "-images", "200"] if ctx.tier == "thorough" else ["-workloads", "1", "-images", "50"]), cr, timeout=3000)
        if rc != 0:
            ctx.breaks.append(Break("correspondence", "harness crash -locks failed to run", err[-2000:]))
        elif ok_drv:
            try:
                crl = open(cr).read().splitlines()
                lm = conclib.check_locks(ctx, crl, "C03", "recovered")
                retry = len([l for l in crl if l.startswith("# LOCKS create") and " x " in l])
                ctx.cov["creations_through_abort_help_retry_path"] = retry
                for x in lm[:2]:
                    parts = x.split(" :: ")
                    ctx.breaks.append(Break("correspondence", "a recorded transaction breaks the discipline: " + parts[0][:200], parts[-1][:400]))
                    key = "check-and-insert-not-atomic" if "without having been looked up" in x else "lock-discipline"
                    ctx.add_violation(key + ":" + parts[1].split()[1], parts[0][:300],
                                      {"how": "harness crash -mix free -locks (VERIF_SEED=%d): lock and name events of one request on a server recovered from a crash image" % ctx.seed,
                                       "trace": parts[-1][:3000]})
            except Break as b:
                ctx.breaks.append(b)
    vlib.finish(
        ctx, "proof",
        "theorems: strict two-phase locking over an exclusive lock manager orders conflicting transactions by commit point, and commit order respects real time; "
        "what the lock protects is fetched under the lock (slots_are_fetched_under_the_lock, on the call order regenerated from package fstxn), and under that discipline no transaction "
        "ever obtains a cache slot holding another transaction's uncommitted changes, whatever is evicted when (M8d: no_transaction_sees_anothers_uncommitted_inode; the other order is "
        "a six-step counterexample); locks are given back only after the flush, unstable WRITEs aside (validated on every recorded transaction: token u of the lock traces), and under that "
        "discipline what another transaction reads under the lock equals what a crash at that moment recovers, for every interleaving of commits, background logging and releases "
        "(M14: what_another_transaction_reads_is_durable; four-step counterexample without it). The hypotheses "
        "are checked on the recorded event trace of every run; every concurrent history is replayed in the observed commit order on the sequential reference model (C02) and "
        "every reply must match — the witness order comes from the theorem, no search over orders",
        "concurrent histories: N clients on a shared pool of 8 names in the root and shared sub-directories (create/mkdir/symlink/lookup/remove/rmdir, same- and cross-directory renames "
        "over existing targets, writes/truncates/reads of shared files, listings during updates, commits), yields injected at lock-request, lock-grant and commit events with a swept "
        "probability, background shrinker active; linearization point = sequence number of the last successful commit (taken under the locks) or of the last lock grant of a failing request",
        ["READDIRPLUS holds a child's lock only while reading that child's attributes: sizes in concurrent listings are not compared (names, file ids, cookies, kinds and handles are)",
         "the slot a new name goes to is read from the directory's name cache under the locks at commit time"],
        pending=[],
        partial=["schedules: all interleavings of the abstract system are covered by the theorem; the implementation is observed on the schedules the harness provokes"])

"""Shared code for the checks that use lock traces and concurrent histories."""
import os
import vlib
from vlib import Break
import seqlib


def run_conc(ctx, args, name="conc", timeout=3000):
    tr = os.path.join(ctx.scratch, name + ".txt")
    rc, err = ctx.harness(["conc", "-seed", str(ctx.seed)] + args, tr, timeout=timeout)
    lines = open(tr).read().splitlines() if os.path.exists(tr) else []
    if rc not in (0, 3):
        ctx.breaks.append(Break("correspondence", "harness conc failed to run", err[-2000:]))
        return None, tr
    return lines, tr


def check_locks(ctx, lines, prop, what):
    """Feeds the `# LOCKS` lines to the Lean validator; returns the mismatches."""
    lk = [l[2:] for l in lines if l.startswith("# LOCKS ")]
    if not lk:
        return []
    f = os.path.join(ctx.scratch, "locks-%s.txt" % what)
    open(f, "w").write("\n".join(lk) + "\n")
    n, mism, _ = ctx.driver("locks", f)
    ctx.cov["traces_validated_against_impl"] += n
    ctx.cov["lock_traces_" + what] = n
    ctx.cov["evaluations"] += n
    ctx.cov["distinct_nontrivial"] += len(set(lk))
    ctx.cov["samples"].append(max(lk, key=len)[:300])
    return mism


def hangs(ctx, lines, prop):
    for i, l in enumerate(lines):
        if l.startswith("# HANG"):
            blocked = [x for x in lines[max(0, i - 20):i] if x.startswith("# BLOCKED")]
            ctx.add_violation("hang:" + (blocked[0].split("op=[")[1].split()[0] if blocked else seqlib.op_of(l.split(" :: ", 1)[-1])),
                              l[2:300], {"how": "requests that never return (watchdog)", "blocked": blocked,
                                         "trace_prefix": seqlib.context_before(lines, l)})

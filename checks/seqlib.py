"""Shared code of the checks that ride on the sequential correspondence (harness `seq` + driver `fs`)."""
import os
import re
import vlib
from vlib import Break

GEN_PARTS = ["consts", "super", "announce"]


def build_and_prove(ctx, module, extra_parts=()):
    with vlib.Lock():
        ok_go = ctx.phase(ctx.build_go)
        parts = GEN_PARTS + [p for p in extra_parts if p not in GEN_PARTS]
        parts += [p for p in vlib.gen_parts_of(module) if p not in parts]
        ok_gen = ok_go and ctx.phase(ctx.regen, parts)
        if ok_gen:
            if ctx.phase(ctx.prove, module) and ctx.phase(ctx.audit, module) and ctx.tier == "thorough":
                ctx.phase(ctx.leanchecker, module)
        ok_drv = ok_gen and ctx.phase(ctx.build_driver)
    return ok_go, ok_drv


def run_seq(ctx, args, name="seq", timeout=3000):
    """Runs the harness; returns (lines, stderr) or None."""
    tr = os.path.join(ctx.scratch, name + ".txt")
    rc, err = ctx.harness(["seq", "-seed", str(ctx.seed)] + args, tr, timeout=timeout)
    if rc != 0:
        ctx.breaks.append(Break("correspondence", "harness seq failed to run", err[-2000:]))
        m = re.search(r"^panic: (.*)$", err, re.M)
        if m:
            # a panic outside a request's goroutine (the background shrinker, the journal's threads) ends the server process:
            # the requests issued so far are the failing history
            try:
                done = open(tr).read().splitlines()
            except OSError:
                done = []
            ctx.add_violation("server-process-died:" + m.group(1)[:60], "the server process died with 'panic: %s' in a background goroutine after %d requests" % (m.group(1)[:200], len([l for l in done if l and not l.startswith("#")])),
                              {"how": "harness seq -seed %d %s" % (ctx.seed, " ".join(args)), "stderr": err[-3000:], "last_requests": [l[:300] for l in done[-25:]]})
        return None, tr
    return open(tr).read().splitlines(), tr


def op_of(line):
    return line.split(" ", 1)[0] if line else ""


def analyse(ctx, lines, tr, ok_drv, prop, relevant_ops=None, oracle_props=None, status_filter=None, always_ops=()):
    """Feeds the trace to the Lean driver and turns what it and the harness' own oracles report
    into violations of `prop`.
      relevant_ops: operations whose reply mismatches count for this property (None = all)
      oracle_props: ORACLE lines of these properties count (default [prop])
      status_filter: function(mismatch_text) -> bool to narrow mismatches further
      always_ops: operations whose reply mismatches count whatever status_filter says"""
    ops = [l for l in lines if l and not l.startswith("#") and not l.startswith("config")]
    ctx.cov["evaluations"] += len(ops)
    ctx.cov["distinct_nontrivial"] += len(set(ops))
    for l in lines:
        if l.startswith("# HIST "):
            ctx.cov.setdefault("histogram", {})
            for kv in l[len("# HIST "):].split():
                k, v = kv.split("=")
                ctx.cov["histogram"][k] = ctx.cov["histogram"].get(k, 0) + int(v)
    if ops:
        ctx.cov["samples"] += [ops[0][:300], ops[len(ops) // 2][:300], ops[-1][:300]]
    oracle_props = oracle_props or [prop]
    for l in lines:
        if l.startswith("# ORACLE "):
            _, _, p, key, msg = l.split(" ", 4)
            if p in oracle_props:
                ctx.add_violation(key, msg, {"how": "harness seq (implementation-side oracle); the operations before this line in the trace reproduce it",
                                             "trace_prefix": context_before(lines, l)})
        if l.startswith("# PANIC") or l.startswith("# HANG"):
            kind = "panic" if "PANIC" in l else "hang"
            if prop in ("C02", "C11") or (prop == "C06" and kind == "hang"):
                ctx.add_violation("%s:%s" % (kind, op_of(l.split(" :: ", 1)[-1])), l[2:300],
                                  {"how": "harness seq: the server %s on this request" % ("panicked" if kind == "panic" else "did not answer within the watchdog time"),
                                   "trace_prefix": context_before(lines, l)})
    if not ok_drv:
        return
    try:
        n, mism, _ = ctx.driver("fs", tr)
    except Break as b:
        ctx.breaks.append(b)
        return
    ctx.cov["traces_validated_against_impl"] += n
    rel = []
    for m in mism:
        parts = m.split(" :: ", 1)
        line = parts[1] if len(parts) > 1 else ""
        op = op_of(line)
        if relevant_ops is not None and op not in relevant_ops:
            continue
        if status_filter is not None and not status_filter(parts[0]) and op not in always_ops:
            continue
        rel.append((op, parts[0], line))
    if mism:
        ctx.breaks.append(Break("correspondence", "reference model and implementation disagree on %d replies (%d relevant to %s)" % (len(mism), len(rel), prop),
                                "\n".join(m[:400] for m in mism[:8])))
    for op, what, line in rel[:5]:
        ctx.add_violation("reply:" + op, what[:400],
                          {"how": "harness seq: the reference model's reply differs from the server's", "operation": line[:2000],
                           "trace_prefix": context_before(lines, line, contains=True)})


def context_before(lines, target, n=40, contains=False):
    """The operations of the same sequence that precede `target` (the replay)."""
    idx = None
    for i, l in enumerate(lines):
        if l == target or (contains and target and l.startswith(target[:200])):
            idx = i
            break
    if idx is None:
        return []
    start = idx
    while start > 0 and not lines[start].startswith("config"):
        start -= 1
    seq = [l[:600] for l in lines[start:idx + 1]]
    if len(seq) > n:
        seq = seq[:1] + ["... (%d operations omitted; re-run with the same VERIF_SEED for the full trace)" % (len(seq) - n)] + seq[-n + 1:]
    return seq


def flush_callers(ctx):
    """Concrete call sites: the functions of /repo that call Flush() (regenerated list Gen/Skeleton.flushCallers)."""
    f = os.path.join(ctx.scratch, "flush.lean")
    open(f, "w").write("import GoNfsd.Gen.Skeleton\n#eval GoNfsd.Gen.Skeleton.flushCallers\n")
    rc, out = vlib.run(["lake", "build", "GoNfsd.Gen.Skeleton"], cwd=vlib.LEAN, timeout=600)
    if rc != 0:
        return []
    rc, out = vlib.run(["lake", "env", "lean", f], cwd=vlib.LEAN, timeout=600)
    return re.findall(r'"([A-Za-z0-9_.]+)"', out)


def report_flush_callers(ctx):
    if any(b.kind == "proof" for b in ctx.breaks):
        for fn in flush_callers(ctx)[:3]:
            ctx.add_violation("relies-on-remembered-log-position:" + fn,
                              "%s calls Flush(), which waits for the log position the journal remembers from the last commit — 0 after a transaction it refused" % fn,
                              {"input": {"function": fn, "history": "unstable (or not yet flushed) commit; a request whose transaction does not fit into the log (SYMLINK with a 600-block target: "
                                                                     "NFS3ERR_SERVERFAULT), from any client, between that commit and the Flush(); crash"},
                               "how": "regenerated list Gen/Skeleton.flushCallers (theorem nobody_relies_on_the_remembered_position); model M9c: flush_forgets_after_a_refusal"})


def report_journal_objects(ctx):
    """Concrete call sites: journal objects whose size is not that of the lock / allocator number protecting them."""
    if not any(b.kind == "proof" for b in ctx.breaks):
        return
    f = os.path.join(ctx.scratch, "jobj.lean")
    open(f, "w").write("import GoNfsd.Gen.Skeleton\nopen GoNfsd.Gen.Skeleton GoNfsd.Model.Skeleton\n"
                       "#eval (journalObjects.filter fun e => !(journalObjectsExpected.contains e)).map fun e => s!\"JOBJ {e.1} {e.2.1} [{e.2.2}]\"\n"
                       "#eval (journalObjectsExpected.filter fun e => !(journalObjects.contains e)).map fun e => s!\"JMISS {e.1} {e.2.1} [{e.2.2}]\"\n")
    rc, out = vlib.run(["lake", "build", "GoNfsd.Gen.Skeleton"], cwd=vlib.LEAN, timeout=600)
    if rc != 0:
        return
    rc, out = vlib.run(["lake", "env", "lean", f], cwd=vlib.LEAN, timeout=600)
    extra = re.findall(r"JOBJ (\S+) (\S+) \[([^\]]*)\]", out)
    missing = re.findall(r"JMISS (\S+) (\S+) \[([^\]]*)\]", out)
    for fn, meth, size in extra[:3]:
        want = [m for m in missing if m[0] == fn]
        ctx.add_violation("journal-object-granularity:" + fn,
                          "%s hands the journal an object of %s bits (%s); the lock or allocator number that protects it covers %s" % (
                              fn, size, meth, ("%s bits" % want[0][2]) if want else "something else"),
                          {"input": {"function": fn, "call": meth, "size_bits_in_source": size, "expected": want[:1]},
                           "how": "regenerated table Gen/Skeleton.journalObjects against Model/Skeleton.journalObjectsExpected: the journal merges sub-block objects of concurrently "
                                  "committing transactions; an object wider than what its writer owns (a bitmap BYTE: eight allocator numbers) carries stale bits of other transactions"})


def two_phase(ctx, lines, ok_drv, prop, consequence):
    """Every transaction recorded in a sequential run (harness seq -locks) is two-phase: no lock is taken after one was given back
    or after the abort.  A violation is visible in ONE sequential trace; what follows from it under concurrency is `consequence`."""
    if lines is None or not ok_drv:
        return
    import conclib
    try:
        lm = [x for x in conclib.check_locks(ctx, lines, prop, "sequential") if "two-phase" in x]
    except Break as b:
        ctx.breaks.append(b)
        return
    if lm:
        ctx.breaks.append(Break("correspondence", "recorded transactions are not two-phase (%d)" % len(lm), "\n".join(lm[:8])))
    for x in lm[:2]:
        parts = x.split(" :: ")
        ctx.add_violation("not-two-phase:" + parts[1].split()[1], "a transaction takes a lock after it has given locks back (or after its abort): " + parts[-1][:200],
                          {"how": "lock/commit events of one request recorded by the fstxn hooks (harness seq -locks). " + consequence, "trace": parts[-1]})

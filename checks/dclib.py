"""Name-cache correspondence (model M8e): `harness dcache` -> `drv dcache`, plus an oracle on the REAL states."""
import os
from vlib import Break


def real_state_faults(lines):
    """Judge every `dstate` line of the harness (the real cache, the real slots) on its own: the cache must hold exactly the
    live slots (C10) and the live names must be distinct (C04).  Returns (incoherent, duplicates): lists of (lineno, text)."""
    inco, dups = [], []
    for no, l in enumerate(lines, 1):
        if not l.startswith("dstate "):
            continue
        f = dict(x.split("=", 1) for x in l.split()[1:])
        slots = [] if f.get("slots", "-") == "-" else f["slots"].split(",")
        live = {}
        names = {}
        for i, s in enumerate(slots):
            if ":" not in s:
                continue
            ino, name = s.split(":", 1)
            if ino != "0":
                live[(name, ino, str(i))] = True
                names.setdefault(name, []).append(i)
        d = [n for n, v in names.items() if len(v) > 1]
        if d:
            dups.append((no, "name %s in slots %s" % (d[0][:40], names[d[0]])))
        if f.get("cache") not in (None, "nil"):
            ents = [] if f["cache"] == "-" else f["cache"].split(",")
            cs = {tuple(e.split(":")): True for e in ents}
            if set(cs) != set(live) or "misaligned" in l:
                extra = sorted(set(cs) - set(live))[:2]
                miss = sorted(set(live) - set(cs))[:2]
                inco.append((no, "in the cache but not in the directory: %s; in the directory but not in the cache: %s" % (extra, miss)))
    return inco, dups


def run(ctx, ok_drv, prop):
    cf = os.path.join(ctx.scratch, "dcache.txt")
    args = ["-cases", "60", "-txns", "300"] if ctx.tier == "thorough" else ["-cases", "12", "-txns", "120"]
    rc, err = ctx.harness(["dcache", "-seed", str(ctx.seed)] + args, cf)
    if rc != 0:
        ctx.breaks.append(Break("correspondence", "harness dcache failed to run", err[-2000:]))
        return
    lines = open(cf).read().splitlines()
    hist = {}
    for l in lines:
        w = l.split()
        k = w[0]
        if "=>" in w:
            k += ":" + w[w.index("=>") + 1]
        hist[k] = hist.get(k, 0) + 1
    hist["dstate:cache-absent"] = sum(1 for l in lines if l.startswith("dstate") and "cache=nil" in l)
    ctx.cov["name_cache_steps"] = hist
    inco, dups = real_state_faults(lines)
    how = ("harness dcache -seed %d: real transactions on a real directory inode calling dir.LookupName/AddName/RemName, committed or aborted, "
           "caches dropped; line numbers refer to its output, which is the history" % ctx.seed)
    if prop == "C10" and inco:
        no, what = inco[0]
        ctx.add_violation("namecache:cache-differs-from-directory", "after step %d the name cache of the directory is not its contents: %s" % (no, what),
                          {"how": how, "history": lines[:no][-40:]})
    if prop == "C04" and dups:
        no, what = dups[0]
        ctx.add_violation("namecache:duplicate-name-on-disk", "after step %d the directory holds a name twice: %s" % (no, what),
                          {"how": how, "history": lines[:no][-40:]})
    if ok_drv:
        try:
            n, mism, _ = ctx.driver("dcache", cf)
            ctx.cov["traces_validated_against_impl"] += n
            ctx.cov["evaluations"] += n
            ctx.cov["name_cache_lines_compared"] = n
            if mism:
                ctx.breaks.append(Break("correspondence", "name-cache model M8e and dir/dcache.go disagree (reply, Lastoff, cache map or slots)", "\n".join(m[:600] for m in mism[:6])))
        except Break as b:
            ctx.breaks.append(b)


def run_atxn(ctx, ok_drv):
    """Allocation-discipline correspondence (model M8b): `harness atxn` -> `drv atxn`."""
    af = os.path.join(ctx.scratch, "atxn.txt")
    args = ["-cases", "40", "-ops", "400"] if ctx.tier == "thorough" else ["-cases", "9", "-ops", "200"]
    rc, err = ctx.harness(["atxn", "-seed", str(ctx.seed)] + args, af)
    if rc != 0:
        ctx.breaks.append(Break("correspondence", "harness atxn failed to run", err[-2000:]))
        return
    lines = open(af).read().splitlines()
    hist = {}
    for l in lines:
        w = l.split()
        k = w[0]
        if k == "aalloc" and w[-1] == "0":
            k = "aalloc:full"
        hist[k] = hist.get(k, 0) + 1
    ctx.cov["alloctxn_steps"] = hist
    # judged on the real states alone: at a moment when no transaction is open the in-memory allocator equals the bitmap on disk
    opened = set()
    freed = {}
    lo = {}
    pre = None
    for no, l in enumerate(lines, 1):
        w = l.split()
        if w[0] == "ainit":
            lo[w[1]] = int(w[2])
            freed = {}
        if w[0] == "afree":
            freed.setdefault((w[2], w[1]), []).append(int(w[3]))
        if w[0] in ("acommit", "aabort"):
            for k in list(freed):
                if k[0] == w[1]:
                    del freed[k]
            pre = None
        if w[0] == "aprecommit":
            pre = w[1]
        elif w[0] == "astate" and pre is not None:
            # between PreCommit and the commit: what the transaction frees must not be available yet
            for n in freed.get((pre, w[1]), []):
                if w[2][n - lo[w[1]]] == "0":
                    ctx.add_violation("alloctxn:freed-number-available-before-commit",
                                      "after step %d transaction %s has run PreCommit but not committed, and %s number %d, which it frees, is already free in the in-memory allocator: "
                                      "another transaction can be handed the block while its zero image and its free bit are still in the freeing transaction's private buffers — it "
                                      "reads the previous owner's bytes through the journal, and the later commit zeroes and frees a block in use" % (no, pre, {"b": "block", "i": "inode"}[w[1]], n),
                                      {"how": "harness atxn -seed %d (the lines are the history)" % ctx.seed, "history": lines[max(0, no - 40):no]})
                    pre = "done"
                    break
            if w[1] == "i" and pre != "done":
                pass
        if w[0] in ("aalloc", "afree"):
            opened.add(w[2])
        elif w[0] in ("acommit", "aabort"):
            opened.discard(w[1])
        elif w[0] == "ainit":
            opened = set()
        elif w[0] == "astate" and not opened and w[2] != w[3]:
            ctx.add_violation("alloctxn:allocator-differs-from-bitmap",
                              "after step %d no allocation transaction is open and the in-memory %s allocator differs from the bitmap on the logical disk: %s vs %s"
                              % (no, {"b": "block", "i": "inode"}[w[1]], w[2], w[3]),
                              {"how": "harness atxn -seed %d: real alloctxn transactions on a real server's allocators and journal, interleaved; the lines are the history" % ctx.seed,
                               "history": lines[max(0, no - 40):no]})
            break
    if ok_drv:
        try:
            n, mism, _ = ctx.driver("atxn", af)
            ctx.cov["traces_validated_against_impl"] += n
            ctx.cov["evaluations"] += n
            ctx.cov["alloctxn_lines_compared"] = n
            if mism:
                ctx.breaks.append(Break("correspondence", "allocation-discipline model M8b and alloctxn disagree", "\n".join(m[:400] for m in mism[:6])))
        except Break as b:
            ctx.breaks.append(b)

"""C15 — every supported disk size yields a consistent, fully usable file system."""
import os
import vlib
from vlib import Break

MODULE = "GoNfsd.Props.C15"


def sizes_args(ctx):
    if ctx.tier == "thorough":
        return ["-usefree", "8", "-from", "1400", "-to", "40000", "-around", ",".join(str(32768 * k) for k in range(1, 9))]
    return ["-from", "1530", "-to", "1950", "-around", "32768,65536,98304,131072"]


def run(ctx):
    with vlib.Lock():
        ok_go = ctx.phase(ctx.build_go)
        ok_gen = ok_go and ctx.phase(ctx.regen, (lambda base: base + [p for p in vlib.gen_parts_of(MODULE) if p not in base])(["consts", "super"]))
        if ok_gen:
            if ctx.phase(ctx.prove, MODULE) and ctx.phase(ctx.audit, MODULE) and ctx.tier == "thorough":
                ctx.phase(ctx.leanchecker, MODULE)
            ctx.phase(ctx.build_driver)
    # correspondence + property oracles on the real code
    have_harness = os.path.exists(os.path.join(vlib.BIN, "harness")) and not any(
        b.kind == "build" and "harness" in b.what for b in ctx.breaks)
    if have_harness:
        tr = os.path.join(ctx.scratch, "mkfs.txt")
        rc, err = ctx.harness(["mkfs"] + sizes_args(ctx), tr)
        if rc != 0:
            ctx.breaks.append(Break("correspondence", "harness mkfs failed", err[-2000:]))
        else:
            lines = open(tr).read().splitlines()
            mk = [l for l in lines if l.startswith("mkfs ")]
            ctx.cov["evaluations"] += len(mk)
            accepted = [l for l in mk if l.split()[2] == "0"]
            ctx.cov["distinct_nontrivial"] += len(set(accepted))
            ctx.cov["samples"] += [mk[0][:300], accepted[0][:300] if accepted else "", mk[-1][:300]]
            # the accepted sizes are every size from the smallest accepted one on (theorem accepts_iff): a size
            # above it at which formatting panics is a concrete failing input
            if accepted:
                smallest = min(int(l.split()[1]) for l in accepted)
                for l in mk:
                    f = l.split()
                    if int(f[1]) > smallest and f[2] != "0":
                        ctx.add_violation("mkfs:format-refuses-size-above-minimum", "formatting a disk of %s blocks panics although %d blocks are accepted" % (f[1], smallest),
                                          {"input": {"disk_size_blocks": int(f[1])}, "how": "harness mkfs -from %s -to %s" % (f[1], f[1]), "observed": l[:300]})
                        break
            for l in lines:
                if l.startswith("# ORACLE "):
                    msg = l[len("# ORACLE "):]
                    ctx.add_violation("mkfs:" + msg.split(":")[1].strip().split(" ")[0], msg,
                                      {"input": {"disk_size_blocks": int(msg.split()[1].rstrip(":"))},
                                       "how": "format a disk of this size with nfs.makeFs (harness mkfs -from N -to N)",
                                       "observed": msg})
                    break
            # allocator op sequences
            tr2 = os.path.join(ctx.scratch, "alloc.txt")
            ncase = 2000 if ctx.tier == "thorough" else 300
            rc, err = ctx.harness(["alloc", "-seed", str(ctx.seed), "-cases", str(ncase)], tr2)
            if rc != 0:
                ctx.breaks.append(Break("correspondence", "harness alloc failed", err[-2000:]))
            if os.path.exists(vlib.DRV) and not any(b.kind == "build" for b in ctx.breaks):
                for f, what in ((tr, "mkfs (layout, fresh bitmaps)"), (tr2, "alloc (allocator op sequences)")):
                    try:
                        n, mism, _ = ctx.driver("mkfs", f)
                        ctx.cov["traces_validated_against_impl"] += n
                        if f == tr2:
                            ctx.cov["evaluations"] += n
                            ctx.cov["samples"].append(open(f).read().splitlines()[0][:120])
                        if mism:
                            ctx.breaks.append(Break("correspondence", "model and implementation disagree: " + what,
                                                    "\n".join(mism[:10])))
                    except Break as b:
                        ctx.breaks.append(b)
    vlib.finish(
        ctx, "proof",
        "Lean theorems over the layout regenerated from super.go/nfs.go hold for every disk size (no bound); "
        "the hand-written format and allocator models are tied to the code by correspondence on every size of a dense range",
        "every disk size of the range is formatted by the real nfs.makeFs on a sparse disk; layout values, all bitmap "
        "bits (as runs) and the allocator's exhaustion behaviour are compared with the Lean model; a size is "
        "non-trivial when the real code accepts it; allocator sequences: random alloc/free/numfree on random bitmaps; "
        "use-and-free oracle: on a running server of each size a 3-block file is written and removed with the allocator's roving "
        "pointer placed at the first and last data block and on both sides of every bitmap-block boundary: the on-disk bitmap "
        "gains exactly three free data blocks and returns to what it was, the free count too, and nothing panics",
        ["uint64 layout arithmetic read over Nat (theorem layout_no_overflow covers sizes < 2^50)",
         "bit bn of a bitmap block stands for byte bn/8, bit bn%8"],
        pending=PENDING, partial=[])


PENDING = []


def replay(ctx, path):
    import json
    r = json.load(open(path))
    sz = r.get("input", {}).get("disk_size_blocks")
    with vlib.Lock():
        ctx.build_go()
    tr = os.path.join(ctx.scratch, "mkfs.txt")
    ctx.harness(["mkfs", "-from", str(sz), "-to", str(sz)], tr)
    print(open(tr).read())

"""C18 — KVS multi-put is atomic, durable and read-your-writes."""
import os
import seqlib
import crashlib
import vlib
from vlib import Break

MODULE = "GoNfsd.Props.C18"


def failing_kvs_functions(ctx):
    """Concrete call sites: the methods of kvs.KVS that do not hold their keys' locks across the waiting commit."""
    import re
    f = os.path.join(ctx.scratch, "kvslocks.lean")
    open(f, "w").write("import GoNfsd.Gen.Skeleton\nopen GoNfsd.Model.Skeleton GoNfsd.Gen.Skeleton\n"
                       "#eval kvsLockUses.filterMap fun f => if simpleCheck f then none else some s!\"KVS {f.1} {f.2.2}\"\n")
    rc, out = vlib.run(["lake", "build", "GoNfsd.Gen.Skeleton"], cwd=vlib.LEAN, timeout=600)
    if rc != 0:
        return []
    rc, out = vlib.run(["lake", "env", "lean", f], cwd=vlib.LEAN, timeout=600)
    return re.findall(r"KVS (\S+) (\[.*?\])\"", out)


def run(ctx):
    ok_go, ok_drv = seqlib.build_and_prove(ctx, MODULE, extra_parts=["skeleton"])
    seqlib.report_flush_callers(ctx)
    if any(b.kind == "proof" for b in ctx.breaks):
        for name, calls in failing_kvs_functions(ctx)[:3]:
            ctx.add_violation("lock-not-held-across-commit:" + name,
                              "kvs.%s does not hold its keys' locks from before the transaction until after the waiting commit: (0 Acquire, 1 Release, 3 CommitWait) in source order: %s" % (name, calls),
                              {"input": {"function": "kvs." + name, "calls_in_source_order": calls},
                               "how": "regenerated table Gen/Skeleton.kvsLockUses checked by Model/Skeleton.simpleCheck (theorem kvs_holds_the_locks_across_the_waiting_commit): a Get beside a "
                                      "MultiPut is answered from the journal's memory, and a crash before the put's flush takes back what the Get returned"})
    if ok_go:
        tr = os.path.join(ctx.scratch, "kvs.txt")
        args = ["-seqs", "100", "-ops", "400"] if ctx.tier == "thorough" else ["-seqs", "15", "-ops", "200"]
        rc, err = ctx.harness(["kvs", "-seed", str(ctx.seed)] + args, tr)
        if rc != 0:
            ctx.breaks.append(Break("correspondence", "harness kvs failed to run", err[-2000:]))
        else:
            lines = open(tr).read().splitlines()
            ops = [l for l in lines if l.startswith("kput") or l.startswith("kget")]
            ctx.cov["evaluations"] += len(ops)
            ctx.cov["distinct_nontrivial"] += len(set(ops))
            ctx.cov["samples"] += [ops[0][:200], ops[len(ops) // 2][:200]]
            ctx.cov["outcomes"] = {k: len([l for l in ops if l.endswith("=> " + k)]) for k in ("ok", "refused", "panic")}
            for l in ops:
                if "corrupt" in l:
                    ctx.add_violation("kvs:corrupt-value", "Get returned a block that no put wrote: " + l[:200],
                                      {"how": "harness kvs", "trace_prefix": seqlib.context_before(lines, l)})
            if ok_drv:
                try:
                    n, mism, _ = ctx.driver("kvs", tr)
                    ctx.cov["traces_validated_against_impl"] += n
                    if mism:
                        ctx.breaks.append(Break("correspondence", "KVS model and implementation disagree on %d results" % len(mism), "\n".join(mism[:8])))
                        m = mism[0].split(" :: ")
                        ctx.add_violation("kvs-result:" + m[-1].split()[0], m[0][:400],
                                          {"how": "harness kvs: the model's result differs from the store's", "operation": m[-1][:1500],
                                           "trace_prefix": seqlib.context_before(lines, m[-1], contains=True)})
                except Break as b:
                    ctx.breaks.append(b)
    if ok_go:
        # concurrent overlapping multi-puts: some order of the puts must explain the final state
        tr2 = os.path.join(ctx.scratch, "kvsconc.txt")
        rc, err = ctx.harness(["kvsconc", "-seed", str(ctx.seed), "-rounds", "6000" if ctx.tier == "thorough" else "800"], tr2)
        if rc != 0:
            ctx.breaks.append(Break("correspondence", "harness kvsconc failed to run", err[-2000:]))
        else:
            cl = open(tr2).read().splitlines()
            ctx.cov["concurrent_rounds"] = len([l for l in cl if l.startswith("kround")])
            for l in cl:
                if l.startswith("# ORACLE C18 "):
                    ctx.add_violation(l.split()[3], l[:400], {"how": "harness kvsconc -seed %d" % ctx.seed, "line": l[:1000]})
            if ok_drv:
                try:
                    n, mism, _ = ctx.driver("kvs", tr2)
                    ctx.cov["evaluations"] += n
                    if mism:
                        ctx.breaks.append(Break("correspondence", "a concurrent round of MultiPuts is not linearizable", "\n".join(mism[:5])))
                        m = mism[0].split(" :: ")
                        ctx.add_violation("kvs-concurrent:not-linearizable", m[0][:300], {"how": "harness kvsconc -seed %d; drv kvs" % ctx.seed, "round": m[-1][:1500]})
                except Break as b:
                    ctx.breaks.append(b)
        crashlib.run_small(ctx, ok_drv, "crashkv", "C18", ["-workloads", "12", "-ops", "60", "-images", "1000"] if ctx.tier == "thorough" else ["-workloads", "4", "-ops", "40", "-images", "300"])
    vlib.finish(
        ctx, "proof",
        "theorems: a MultiPut installs all of its pairs (last occurrence of a key winning) or changes nothing; a successful one is ONE journal transaction of whole-block "
        "overwrites inside the key range; after any history Get returns the value of the latest successful put containing the key (get_latest); the range guards of both "
        "procedures coincide; MultiPut and Get hold their keys' locks across the waiting commit (table regenerated from kvs/kvs.go), so — model M14, any interleaving — a Get returns only what a crash "
        "cannot take back (kvs_gets_return_only_durable_values); the locks are taken in strictly ascending order, each key once (lockOrder model tied to kvs.lockOrder by the klockorder lines), "
        "so no set of concurrent puts and gets is deadlocked (concurrent_puts_and_gets_never_deadlock). Correspondence on sequences with overlapping key sets, duplicates, key-range boundaries and transactions of 511/512/600 blocks",
        "sequences of MultiPut (1..64 pairs, overlapping keys, duplicates inside one put; 511, 512 and 600 distinct blocks) and Get over keys at LOGSIZE-1, LOGSIZE, sz-1, sz, "
        "sz+1, 0, 2^40 and random, with the store opened again on the same disk now and then (kvs.MkKVS: the values must carry over); every result (value / refused / panic) compared",
        ["values are whole blocks identified by a fill byte and a counter"],
        pending=[],
        partial=["concurrent callers: rounds of 2-4 overlapping MultiPuts (values from a three-letter alphabet, so puts often rewrite what is there) must be explained by some order of the puts applied by the model — sampled schedules, not a theorem", "crash atomicity/durability: theorems of C01 on the WAL model + recorded-trace validation + prefix-state oracle (all pairs of a put or none; acknowledged puts survive) on sampled crash images, recovered by kvs.MkKVS; crash right after a revealing reply: puts of generations 1,2,3,... of one key beside two Get callers on a disk slow on the log header, "
                 "crash (un-barriered writes lost) at the position of each first reply returning a generation, the recovered store must not serve an older one"])

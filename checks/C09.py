"""C09 — a failed operation leaves no trace."""
import seqlib
import fscklib
import vlib

MODULE = "GoNfsd.Props.C09"


def run(ctx):
    ok_go, ok_drv = seqlib.build_and_prove(ctx, MODULE, extra_parts=["skeleton"])
    if ok_go:
        args = ["-seqs", "30", "-ops", "300", "-c09"] if ctx.tier == "thorough" else ["-seqs", "6", "-ops", "200", "-c09"]
        lines, tr = seqlib.run_seq(ctx, args + ["-locks"])
        seqlib.two_phase(ctx, lines, ok_drv, "C09", "A request that fails after it gave a lock back and took it again may have written back, or left cached, state that is not the state before it")
        if lines is not None:
            seqlib.analyse(ctx, lines, tr, ok_drv, "C09")
            fails = [l for l in lines if " => " in l and l.rsplit(" => ", 1)[1].split()[0] not in ("0",)]
            ctx.cov["failing_operations_checked"] = len(fails)
    if ok_go:
        # resource exhaustion: every allocation path at the exact boundary of a full disk (harness reclaim)
        rl = fscklib.run_images(ctx, ok_drv, "reclaim", ["reclaim", "-seed", str(ctx.seed)] + (["-hists", "9", "-rounds", "3"] if ctx.tier == "thorough" else ["-hists", "3", "-rounds", "1"]), set(), False)
        fscklib.oracle_lines(ctx, rl, "C09", "harness reclaim -seed %d (full-disk scenarios)" % ctx.seed)
        cl = fscklib.run_images(ctx, ok_drv, "crash-free", ["crash", "-seed", str(ctx.seed), "-mix", "free", "-disk", "40000", "-ops", "22"] +
                                (["-workloads", "6", "-images", "400"] if ctx.tier == "thorough" else ["-workloads", "1", "-images", "100"]), set(), False)
        fscklib.oracle_lines(ctx, cl, "C09", "crash: harness crash -mix free -seed %d (recovered servers: a failing CREATE handed a half-freed inode number)" % ctx.seed)
        for l in rl or []:
            if l.startswith("# HIST"):
                for kv in l.split()[2:]:
                    k, v = kv.split("=")
                    if k.endswith(":nospc"):
                        ctx.cov["nospc_replies"] = ctx.cov.get("nospc_replies", 0) + int(v)
    vlib.finish(
        ctx, "proof",
        "theorem error_identity: in the reference model a non-OK reply returns the state unchanged, so any continuation behaves as if the request had "
        "not been issued; correspondence + implementation-side oracle: around every failing request the full tree dump (handles, attributes, cookies, "
        "content digests) and both allocators' free counts are compared",
        "as C02 with -c09: after every operation the tree is dumped through the API and the free counts recorded; a failing operation must leave both "
        "unchanged; later operations keep being compared with the model (whose state did not change); on servers recovered from a crash in the middle of freeing a large file, "
        "a CREATE with a 200-byte name is handed the half-freed inode number first (abort, help the shrinker, retry) and must consume no inode",
        ["the reference model does not predict NOSPC: full-disk failures (WRITE needing an index block, MKDIR, SYMLINK with 0/1/2 free blocks) are exercised by harness reclaim with the implementation-side oracles only; other failures exercised: stale/malformed handles, "
         "name too long, existing/missing names, wrong kinds, non-empty directories, size/offset limits, oversized transfers, count/data mismatch"],
        pending=[])

"""C09 — a failed operation leaves no trace."""
import seqlib
import vlib

MODULE = "GoNfsd.Props.C09"


def run(ctx):
    ok_go, ok_drv = seqlib.build_and_prove(ctx, MODULE)
    if ok_go:
        args = ["-seqs", "30", "-ops", "300", "-c09"] if ctx.tier == "thorough" else ["-seqs", "6", "-ops", "200", "-c09"]
        lines, tr = seqlib.run_seq(ctx, args)
        if lines is not None:
            seqlib.analyse(ctx, lines, tr, ok_drv, "C09")
            fails = [l for l in lines if " => " in l and l.rsplit(" => ", 1)[1].split()[0] not in ("0",)]
            ctx.cov["failing_operations_checked"] = len(fails)
    vlib.finish(
        ctx, "proof",
        "theorem error_identity: in the reference model a non-OK reply returns the state unchanged, so any continuation behaves as if the request had "
        "not been issued; correspondence + implementation-side oracle: around every failing request the full tree dump (handles, attributes, cookies, "
        "content digests) and both allocators' free counts are compared",
        "as C02 with -c09: after every operation the tree is dumped through the API and the free counts recorded; a failing operation must leave both "
        "unchanged; later operations keep being compared with the model (whose state did not change)",
        ["nearly-full disks and inode exhaustion are not yet generated (the model does not predict NOSPC); failures exercised: stale/malformed handles, "
         "name too long, existing/missing names, wrong kinds, non-empty directories, size/offset limits, oversized transfers, count/data mismatch"],
        pending=["abort_restores on the transaction/cache model (M8)"])

"""C16 — wire format and dispatch conform to RFC 1813."""
import os
import vlib
from vlib import Break

MODULE = "GoNfsd.Props.C16"


def const_diffs(ctx):
    """Concrete differences between the regenerated constant table and the RFC's."""
    import re
    f = os.path.join(ctx.scratch, "consts.lean")
    open(f, "w").write("import GoNfsd.Gen.Xdr\nimport GoNfsd.Spec.Rfc1813\n"
                       "#eval (GoNfsd.Spec.Rfc1813.consts.filter fun r => !(GoNfsd.Gen.Xdr.consts.contains r)).map fun r =>\n"
                       "  (r.2.1, r.2.2, (GoNfsd.Gen.Xdr.consts.find? fun g => g.2.1 == r.2.1).map (·.2.2))\n")
    rc, out = vlib.run(["lake", "build", "GoNfsd.Gen.Xdr", "GoNfsd.Spec.Rfc1813"], cwd=vlib.LEAN, timeout=600)
    if rc != 0:
        return []
    rc, out = vlib.run(["lake", "env", "lean", f], cwd=vlib.LEAN, timeout=600)
    return re.findall(r'\("([A-Za-z0-9_]+)", (\d+), (none|some (\d+))\)', out)


def type_diffs(ctx):
    """Names of the wire types whose regenerated descriptor differs from the RFC's, with both descriptors."""
    import re
    f = os.path.join(ctx.scratch, "types.lean")
    open(f, "w").write("import GoNfsd.Gen.Xdr\nimport GoNfsd.Spec.Rfc1813\n"
                       "#eval (GoNfsd.Spec.Rfc1813.types.filter fun r => (GoNfsd.Gen.Xdr.types.lookup r.1).map (fun t => reprStr t) != some (reprStr r.2)).map fun r =>\n"
                       "  s!\"TYPEDIFF {r.1} RFC {reprStr r.2} CODE {(GoNfsd.Gen.Xdr.types.lookup r.1).map (fun t => reprStr t)}\"\n")
    rc, out = vlib.run(["lake", "build", "GoNfsd.Gen.Xdr", "GoNfsd.Spec.Rfc1813"], cwd=vlib.LEAN, timeout=600)
    if rc != 0:
        return []
    rc, out = vlib.run(["lake", "env", "lean", f], cwd=vlib.LEAN, timeout=600)
    out = out.replace("\\n", " ").replace("\n", " ")
    return re.findall(r'TYPEDIFF (\S+) RFC (.*?) CODE (.*?)(?="|$)', out)


def run(ctx):
    with vlib.Lock():
        ok_go = ctx.phase(ctx.build_go)
        ok_gen = ok_go and ctx.phase(ctx.regen, (lambda base: base + [p for p in vlib.gen_parts_of(MODULE) if p not in base])(["xdr", "dispatch"]))
        if ok_gen:
            if ctx.phase(ctx.prove, MODULE) and ctx.phase(ctx.audit, MODULE) and ctx.tier == "thorough":
                ctx.phase(ctx.leanchecker, MODULE)
            if any(b.kind == "proof" for b in ctx.breaks):
                for name, want, got in type_diffs(ctx)[:5]:
                    ctx.add_violation("type:" + name,
                                      "wire type %s differs from RFC 1813: RFC %s, code %s" % (name, " ".join(want.split())[:300], " ".join(got.split())[:300]),
                                      {"input": {"type": name, "rfc_descriptor": " ".join(want.split()), "code_descriptor": " ".join(got.split())},
                                       "how": "regenerated descriptor table (Gen/Xdr.types) compared with the RFC transcription entry by entry; any value of this type on which the two "
                                              "descriptors differ (a length between the two bounds, the arm or field concerned) is encoded or refused differently from the RFC"})
                for name, want, got, gv in const_diffs(ctx)[:5]:
                    ctx.add_violation("const:" + name,
                                      "constant %s is %s in the code, %s in RFC 1813" % (name, gv if gv else "missing", want),
                                      {"input": {"constant": name, "rfc_value": int(want), "code_value": int(gv) if gv else None},
                                       "how": "regenerated constant table (Gen/Xdr.consts) compared with the RFC transcription; every message "
                                              "carrying this constant is encoded with the wrong value"})
        # the driver uses the committed RFC table, so it builds even when the regenerated one is broken
        ok_drv = ctx.phase(ctx.build_driver)
    # the harness walks Go values in the RFC's field order (committed transcription), not the code's
    desc = os.path.join(vlib.LEAN, "GoNfsd", "Spec", "rfc1813_desc.json")
    if ok_go and os.path.exists(desc):
        nvals, nmut = (2000, 20) if ctx.tier == "thorough" else (200, 10)
        tr = os.path.join(ctx.scratch, "xdr.txt")
        rc, err = ctx.harness(["xdr", "-seed", str(ctx.seed), "-desc", desc, "-values", str(nvals),
                               "-mutants", str(nmut)], tr, timeout=3000)
        tr2 = os.path.join(ctx.scratch, "disp.txt")
        rc2, err2 = ctx.harness(["dispatch", "-seed", str(ctx.seed), "-desc", desc], tr2)
        if rc != 0 or rc2 != 0:
            ctx.breaks.append(Break("correspondence", "harness xdr/dispatch failed", (err + err2)[-2000:]))
        else:
            lines = open(tr).read().splitlines()
            encs = [l for l in lines if l.startswith("xenc ")]
            decs = [l for l in lines if l.startswith("xdec ")]
            ctx.cov["evaluations"] += len(encs) + len(decs)
            ctx.cov["distinct_nontrivial"] += len(set(l.split()[2] for l in encs)) + len(set(l.split()[2] for l in decs))
            ctx.cov["samples"] += [encs[0][:300], decs[1][:300], decs[-1][:300]]
            ctx.cov["types_exercised"] = len(set(l.split()[1] for l in encs))
            ctx.cov["decoder_rejections"] = len([l for l in decs if l.split()[3] == "0"])
            for l in lines:
                if l.startswith("# FINDING "):
                    _, _, key, typ, hexs = l.split()
                    ctx.add_violation(key, "malformed %s message %s is accepted by the real decoder" % (typ, hexs),
                                      {"input": {"type": typ, "bytes_hex": hexs},
                                       "how": "decode with the generated Xdr method (harness xdr probes)"})
            if ok_drv:
                for f, what in ((tr, "xdr codec (values and byte strings, RFC descriptors)"),
                                (tr2, "dispatch (procedure number -> handler)")):
                    try:
                        n, mism, _ = ctx.driver("xdr", f)
                        ctx.cov["traces_validated_against_impl"] += n
                        if mism:
                            ctx.breaks.append(Break("correspondence",
                                                    "implementation and RFC model disagree: " + what, "\n".join(mism[:10])))
                            # the RFC model is the reference: a disagreement is a concrete failing input
                            m = mism[0]
                            parts = m.split(" :: ")
                            line = parts[1] if len(parts) > 1 else ""
                            w = line.split()
                            key = "xdr:" + (w[1] if len(w) > 1 else "?")
                            if w and w[0] in ("disp", "dispt", "dispr"):
                                key = "dispatch:%s/%s" % (w[1], w[3])
                            ctx.add_violation(key, parts[0], {"input": {"line": line},
                                                              "how": "harness xdr / dispatch line, replayed through the real Xdr methods",
                                                              "all": mism[:10]})
                    except Break as b:
                        ctx.breaks.append(b)
            ctx.cov["samples"].append(open(tr2).read().splitlines()[5])
    vlib.finish(
        ctx, "proof",
        "Lean theorems: decode(encode v) = v for every descriptor and value (mutual induction, no bound); the descriptor and "
        "procedure tables REGENERATED from nfs_xdr.go equal the tables transcribed from the RFC; oversize inputs refused; no proper prefix of an encoding decodes (truncated_rejected, every "
        "descriptor); the decoder never looks past what it consumes; every decoded value re-encodes to the same length and decodes to itself (decoded_values_reencode), and to the very bytes consumed when booleans / presence flags are 0 or 1 and padding is zero "
        "(canonical_input_reencodes_to_itself: the decoder's leniency is exactly those two freedoms). "
        "The codec model is tied to the real Xdr methods by correspondence on structured values and mutated byte strings.",
        "per type: structured random values (every union arm, optional/list shape, boundary lengths, one beyond each declared bound, and for unbounded strings lengths up to 70000) encoded and decoded by the "
        "real generated code and by the Lean codec with the RFC descriptors; each encoding mutated (truncate, bit flip, word "
        "overwrite, junk, dropped word) and decoded by both; distinct = distinct values / byte strings; all 28 registrations called, with an all-zero message and with "
        "real encodings of generated argument values cut short at five places (the handler must be reached exactly when the RFC decoder accepts the message)",
        ["Spec/Rfc1813.lean is a transcription of RFC 1813's XDR text (go-rpcgen rfc1813/prot.x) made with tools/xspec.py",
         "Mountres3 (a result type) is excluded from the mutated-bytes stream: its decoder allocates the announced array length"],
        pending=[],
        partial=[])

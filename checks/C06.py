"""C06 — no deadlock or livelock: every RPC terminates."""
import seqlib
import conclib
import vlib
from vlib import Break

MODULE = "GoNfsd.Props.C06"


def run(ctx):
    ok_go, ok_drv = seqlib.build_and_prove(ctx, MODULE)
    if ok_go:
        args = ["-seqs", "30", "-ops", "400", "-locks"] if ctx.tier == "thorough" else ["-seqs", "6", "-ops", "300", "-locks"]
        lines, tr = seqlib.run_seq(ctx, args)
        cargs = ["-hists", "40", "-clients", "8", "-ops", "200", "-yield", "40"] if ctx.tier == "thorough" else ["-hists", "6", "-clients", "6", "-ops", "120", "-yield", "30"]
        clines, ctr = conclib.run_conc(ctx, cargs)
        for which, ls in (("sequential", lines), ("concurrent", clines)):
            if ls is None:
                continue
            conclib.hangs(ctx, ls, "C06")
            if ok_drv:
                try:
                    mism = conclib.check_locks(ctx, ls, "C06", which)
                except Break as b:
                    ctx.breaks.append(b)
                    continue
                bad = [m for m in mism if "ascending" in m]
                for m in [m for m in mism if "livelock" in m][:3]:
                    parts = m.split(" :: ")
                    ctx.add_violation("retry:" + parts[1].split()[1], "a request retried without anybody else having committed: " + parts[-1][:200],
                                      {"how": "transactions of one request of a sequential run, recorded by the fstxn hooks (harness seq -locks); validator LockSched.retriesCharged",
                                       "trace": parts[-1], "trace_prefix": seqlib.context_before(ls, "# " + " :: ".join(parts[1:]))})
                if mism:
                    ctx.breaks.append(Break("correspondence", "recorded lock traces violate the discipline (%d, %d of them ordering)" % (len(mism), len(bad)),
                                            "\n".join(mism[:8])))
                for m in bad[:3]:
                    parts = m.split(" :: ")
                    ctx.add_violation("lockorder:" + parts[1].split()[1], "locks acquired out of ascending inode order: " + parts[-1][:200],
                                      {"how": "lock/commit events of one request recorded by the fstxn hooks (harness %s)" % ("seq -locks" if which == "sequential" else "conc"),
                                       "trace": parts[-1], "trace_prefix": seqlib.context_before(ls, "# " + " :: ".join(parts[1:]))})
        # directed histories of recorded findings that end in a request which never returns
        import os
        ptr = os.path.join(ctx.scratch, "probe.txt")
        prc, perr = ctx.harness(["probe", "-watchdog", "4" if ctx.tier == "quick" else "10"], ptr, timeout=300)
        plines = open(ptr).read().splitlines() if prc == 0 else None
        if plines is None:
            ctx.breaks.append(Break("correspondence", "harness probe failed to run", perr[-2000:]))
        else:
            key = None
            for l in plines:
                if l.startswith("# probe "):
                    key = l.split()[2]
                elif l.startswith("# HANG") and key:
                    ctx.add_violation("hang:" + key, l[2:300], {"how": "harness probe: directed history on a fresh server, watchdog per request",
                                                                "history": [x for x in plines[max(0, plines.index(l) - 8):plines.index(l) + 1]]})
            ctx.cov["evaluations"] += len([l for l in plines if l.startswith("# probe ")])
        if lines is not None:
            ops = [l for l in lines if l and not l.startswith("#") and not l.startswith("config")]
            ctx.cov["samples"].append(ops[0][:200])
    vlib.finish(
        ctx, "proof",
        "theorem ordered_no_deadlock: in the waits-for model of the lock manager, if every lock request is above what its transaction holds (the only exception being "
        "a transaction's own fresh allocation, whose other holders never wait), no set of transactions is deadlocked and some transaction can always step. The hypothesis is "
        "CHECKED on the recorded acquisition sequence of every transaction of every run (sequential runs suffice: order is a property of the code path); watchdogs search for hangs. "
        "theorems retry_bounded / retry_bounded_explicit / no_run_stops_early (M10c, the lock manager as a transition system with abort-and-retry): every schedule of N requests whose restarts are "
        "within a fixed budget or charged to a transaction that finished meanwhile has at most N((N+F)(L+1)+L+1) steps, keeps the discipline, and cannot stop before every request is answered; "
        "the charging hypothesis is CHECKED on every request of every sequential run (validator retriesCharged: own restarts beyond one need a commit in between)",
        "seq -locks: all scenarios (renames with the four inodes in every relative order, directories numbered above their files, stale handles, cold caches after restart) and random "
        "sequences, every transaction's lock/commit events validated by the Lean driver; conc: clients on shared names with yields injected at lock and commit events, same validation + a 15 s no-progress watchdog; "
        "probe: directed histories under a watchdog — the recorded dangling-'..' finding, and 80 REMOVEs of large sparse files while every background shrinker is held at the start of its first transaction",
        ["fair scheduling of sync.Cond waiters in lockmap", "a creating operation's second acquisition is taken to be its own fresh allocation",
         "M10c has no fresh-allocation requests (those are covered by ordered_no_deadlock); in concurrent runs the commits a retry is charged to are other clients' and are not validated, only the watchdog applies"],
        pending=[],
        partial=["the theorem quantifies over all schedules of the lock-manager model; the runtime's scheduler is observed, not quantified over"])

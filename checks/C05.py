"""C05 — freed space is fully reclaimed, in memory and on disk."""
import fscklib
import seqlib
import vlib

MODULE = "GoNfsd.Props.C05"


def run(ctx):
    ok_go, ok_drv = seqlib.build_and_prove(ctx, MODULE, extra_parts=["skeleton"])
    if ok_go:
        t = ctx.tier == "thorough"
        sd = ["-seed", str(ctx.seed)]
        R = fscklib.C05_CHECKS
        lines = fscklib.run_images(ctx, ok_drv, "reclaim", ["reclaim"] + sd + (["-hists", "18", "-rounds", "6", "-ops", "150"] if t else ["-hists", "4", "-rounds", "3"]), R, False)
        fscklib.oracle_lines(ctx, lines, "C05", "harness reclaim -seed %d" % ctx.seed)
        for l in lines or []:
            if l.startswith("reclaimround"):
                ctx.cov["build_then_delete_rounds"] = ctx.cov.get("build_then_delete_rounds", 0) + 1
                m = dict(x.split("=") for x in l.split()[1:])
                ctx.cov["nospc_replies"] = ctx.cov.get("nospc_replies", 0) + int(m["nospc-replies"])
                ctx.cov["peak_blocks_in_use_max"] = max(ctx.cov.get("peak_blocks_in_use_max", 0), int(m["blocks-in-use-at-peak"]))
            if l.startswith("# HIST"):
                ctx.cov.setdefault("histogram", {})
                for kv in l.split()[2:]:
                    k, v = kv.split("=")
                    ctx.cov["histogram"][k] = ctx.cov["histogram"].get(k, 0) + int(v)
        lines = fscklib.run_images(ctx, ok_drv, "crash-free", ["crash"] + sd + ["-mix", "free", "-disk", "40000", "-ops", "22"] + (["-workloads", "10", "-images", "700"] if t else ["-workloads", "2", "-images", "150"]), R, False)
        fscklib.oracle_lines(ctx, lines, "C05", "crash: harness crash -mix free -seed %d" % ctx.seed)
        fscklib.run_blockmap(ctx, ok_drv, ["-cases", "150", "-ops", "30"] if t else ["-cases", "36", "-ops", "25"])
        fscklib.run_images(ctx, ok_drv, "seq", ["seq"] + sd + (["-seqs", "12", "-ops", "400", "-big", "-fsck", "4"] if t else ["-seqs", "3", "-ops", "200", "-big", "-fsck", "8"]), R, False)
        fscklib.run_images(ctx, ok_drv, "conc", ["conc"] + sd + (["-hists", "30", "-clients", "5", "-ops", "150"] if t else ["-hists", "6", "-clients", "4", "-ops", "100"]), R, False)
    vlib.finish(
        ctx, "proof",
        "PARTIAL (for all histories: sampled). Lean theorems on top of fsck_sound: at a quiescent point an accepted image has nothing half-freed, the blocks marked in use are exactly the "
        "metadata plus the blocks of objects reachable from the root, likewise the inodes (marked_eq_reachable, imarked_eq_reachable); when only the root is left only its blocks stay marked "
        "(delete_all_restores); in ANY accepted image, crash images included, a marked data block has an owner, so nothing is lost for good (no_block_lost); the running server's allocators "
        "equal the on-disk bitmaps (alloc_sound); on the block-map model M7 (bmap/indbmap/indshrink/Shrink transliterated) truncation releases a direct pointer or an index root exactly when the shrink run visits the first index it serves, an index block beyond the accounted range is never released, and a short write leaves ShrinkSize above the block that failed (truncation_releases_visited, index_block_beyond_range_is_never_released, short_write_covers_failed_block); on the hand-over model M15 (requests leaving truncations to shrinker threads, threads running transactions and exiting, helpers): when no thread is left nothing is pending (quiescent_means_nothing_is_left_to_free), false for a StartShrinker that deduplicates threads (deduplicating_the_threads_loses_a_truncation), tied by the statement lists of package shrinker and the uses of Resize's result regenerated from the source (start_shrinker_always_starts_a_thread) and by a directed run that removes a file between the thread's last commit and its exit. Ties: the block-map correspondence (pointer structure of a real file before/after WRITE, READ of a hole, truncation, incl. running out of space inside bmap); build-then-delete rounds on small disks (free counts must return to those of the empty file system; images checked); crash images "
        "taken while the shrinker frees a 770-block file: checked after recovery and again after the half-freed numbers have been reused (then nothing may be half-freed)",
        "build-then-delete rounds: files of every size class (inside a block, direct, indirect, double-indirect), sparse growth, holes filled by reads, nested directories, renames over "
        "targets, failing requests, oversized writes, disks small enough to run out of space; directed: REMOVE / RENAME-over of a file whose truncation is still running in the background; "
        "crash workload of the free mix; quiescent images of sequential and concurrent histories; at the level of shared disk blocks (M7d, any number of files): "
        "removal_gives_back_every_block (dropping the content of one file — a directory is a file of slots — leaves each of its blocks with nobody, zeroed, and the one-owner invariant intact)",
        ["as C04 for the image; free counts are read from the allocators after waiting for the shrinker threads"],
        pending=[],

        partial=["for all histories / crash points / schedules: sampled, not proved"])

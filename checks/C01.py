"""C01 — crash atomicity and durability of every NFS operation."""
import crashlib
import seqlib
import vlib

MODULE = "GoNfsd.Props.C01"


def run(ctx):
    ok_go, ok_drv = seqlib.build_and_prove(ctx, MODULE, extra_parts=["skeleton"])
    seqlib.report_flush_callers(ctx)
    seqlib.report_journal_objects(ctx)
    if ok_go:
        if ctx.tier == "thorough":
            meta = ["-workloads", "24", "-ops", "60", "-images", "1500", "-second", "6"]
            data = ["-workloads", "9", "-ops", "60", "-images", "800"]
        else:
            meta = ["-workloads", "4", "-ops", "40", "-images", "220", "-second", "2"]
            data = ["-workloads", "3", "-ops", "40", "-images", "120"]
        every = lambda label, key: True
        crashlib.run_crash(ctx, ok_drv, "meta", meta, every)
        crashlib.run_crash(ctx, ok_drv, "data", data, every)
        # crashes while the shrinker frees a large file in several transactions
        free = ["-disk", "40000", "-ops", "22"] + (["-workloads", "8", "-images", "500"] if ctx.tier == "thorough" else ["-workloads", "2", "-images", "120"])
        crashlib.run_crash(ctx, ok_drv, "free", free, every)
    vlib.finish(
        ctx, "proof",
        "PARTIAL (the file-system layer above the log is tied by oracle, not by theorem). Lean theorems on the write-ahead-log model M9: for every interleaving of logger and "
        "installer steps taken under their guards, every crash state (per disk cell the durable content or any pending write) and any number of further crashes during recovery, the "
        "recovered logical disk is the specification after a prefix of the logged updates that contains every durable group commit (wal_crash_safe, acknowledged_survives, "
        "wal_recover_idempotent, recovered_is_prefix_state); on the in-memory log model (transactions appended whole, absorbed into the unflushed tail, flush points) every header-1 end value is a transaction boundary below which nothing changes any more, so the recovered disk holds ALL transactions before that flush and NONE after it (group_is_txn_prefix, crash_recovers_whole_transactions). Ties: the disk trace RECORDED from real runs is mapped onto the model's steps and every guard checked (driver wal); "
        "crash images built from the same trace are recovered by the REAL server and the whole recovered tree (names, kinds, sizes, content digests, link targets) must equal the "
        "reference state after k operations, with every stable-acknowledged visible operation among the k; the recovered server must keep serving: a 48-block file written after recovery must still read back after every half-freed number has been reused and every file has been touched (which resumes interrupted shrinks)",
        "workloads of all mutating procedures (namespace-heavy and write-stability mixes; all three stability levels; multi-block writes; truncations; removal of 3 MB files freed in the "
        "background) on a recording disk; crash points = every prefix of the event stream plus prefixes with subsets of the un-barriered writes lost (single writes dropped, only one kept, "
        "random subsets); images evenly sampled when the trace offers more than the budget; repeated crashes: the server is restarted on sampled crash images on a recording disk, serves more operations, and is crashed again",
        ["go-journal (wal, obj, jrnl, buf, lockmap, alloc) is a dependency outside /repo: its WAL protocol is MODELLED (M9) and tied by the recorded-trace check, not verified",
         "the disk model: a barrier makes all earlier writes durable; a crash keeps durable writes and any subset of later ones; block writes are atomic",
         "the file-system layer (one journal transaction per RPC, bitmaps in the same transaction, recovery before any read) is tied by the crash-image oracle on sampled workloads"],
        pending=[],
        partial=["file-system layer above the journal: oracle on sampled workloads and crash points, not a theorem"])

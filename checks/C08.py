"""C08 — a file handle denotes one object for ever; stale handles stay stale."""
import crashlib
import seqlib
import vlib

MODULE = "GoNfsd.Props.C08"


def run(ctx):
    ok_go, ok_drv = seqlib.build_and_prove(ctx, MODULE)
    if any(b.kind == "proof" for b in ctx.breaks):
        import os
        import re
        try:
            txt = open(os.path.join(vlib.LEAN, "GoNfsd", "Gen", "Skeleton.lean")).read()
            i = txt.find("def relockUses")
            for fn, calls, reval in re.findall(r'\("([^"]+)", (\d+), (\d+)\)', txt[i:] if i >= 0 else ""):
                bad = int(reval) < 2 if fn == "nfs.validateRename" else int(calls) > int(reval)
                if bad:
                    ctx.add_violation("handle-not-revalidated:" + fn,
                                      "%s locks inodes by number %s time(s) after the locks of the resolved handle were given back and compares generations %s time(s): "
                                      "when the object was removed and its number reused in between, the dead handle resolves to the new owner of the number" % (fn, calls, reval),
                                      {"input": {"function": fn, "lockInodes_calls": int(calls), "revalidations_after": int(reval)},
                                       "how": "table Gen/Skeleton.relockUses regenerated from nfs/*.go, checked by Model/Skeleton.relockCheck (theorem "
                                              "handles_are_revalidated_after_locking_by_number); history: a request holds the directory, aborts to lock in order; meanwhile the child is "
                                              "renamed away, the directory removed, its number reused by MKDIR, the child renamed back under the same name"})
        except OSError:
            pass
    if ok_go:
        args = ["-seqs", "40", "-ops", "500"] if ctx.tier == "thorough" else ["-seqs", "8", "-ops", "400"]
        lines, tr = seqlib.run_seq(ctx, args + ["-locks"])
        seqlib.two_phase(ctx, lines, ok_drv, "C08", "A handle resolved under the first tenure of the lock is used after the object may have been removed and its number reused")
        if lines is not None:
            # replies that CARRY handles are compared in full (READDIRPLUS entries, LOOKUP, the creating procedures): a handle
            # that denotes another object, or an entry given a handle it must not have, is a violation whatever the status
            seqlib.analyse(ctx, lines, tr, ok_drv, "C08", status_filter=lambda w: "stale" in w or "badchoice" in w,
                           always_ops={"readdirplus", "lookup", "create", "mkdir", "symlink"})
        # a handle that a reply handed out to ANOTHER client must still denote its object after a crash right then
        crashlib.run_obs(ctx, "C08")
    vlib.finish(
        ctx, "proof",
        "theorems: generations never decrease and strictly increase at every allocation and free; a dead handle stays dead after any history; "
        "every procedure and handle position refuses a dead handle; a created handle is fresh. Correspondence: stale bank presented to every procedure",
        "as C02, with every handle of a removed or overwritten object kept in a bank and re-presented (6% of handle arguments), malformed handles (4%), "
        "a directed scenario presenting dead handles to all 22 procedures and both RENAME positions, and one forcing inode-number reuse; "
        "implementation-side oracle: no OK reply to a handle known dead, no handle issued twice; "
        "crash-after-reveal oracle: one client creates/renames numbered names while two others LOOKUP and READDIRPLUS them on a disk that is slow "
        "on the log header; the server is crashed at the trace position of every first reply that showed a name (un-barriered writes lost) and the "
        "recovered server must have the name with the same handle",
        ["inode-number reuse is forced by moving the allocator's roving pointer (any pointer value is a legal allocator state)",
         "generation numbers stay below 2^64"])

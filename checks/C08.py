"""C08 — a file handle denotes one object for ever; stale handles stay stale."""
import crashlib
import seqlib
import vlib

MODULE = "GoNfsd.Props.C08"


def run(ctx):
    ok_go, ok_drv = seqlib.build_and_prove(ctx, MODULE)
    if ok_go:
        args = ["-seqs", "40", "-ops", "500"] if ctx.tier == "thorough" else ["-seqs", "8", "-ops", "400"]
        lines, tr = seqlib.run_seq(ctx, args)
        if lines is not None:
            # replies that CARRY handles are compared in full (READDIRPLUS entries, LOOKUP, the creating procedures): a handle
            # that denotes another object, or an entry given a handle it must not have, is a violation whatever the status
            seqlib.analyse(ctx, lines, tr, ok_drv, "C08", status_filter=lambda w: "stale" in w or "badchoice" in w,
                           always_ops={"readdirplus", "lookup", "create", "mkdir", "symlink"})
        # a handle that a reply handed out to ANOTHER client must still denote its object after a crash right then
        crashlib.run_obs(ctx, "C08")
    vlib.finish(
        ctx, "proof",
        "theorems: generations never decrease and strictly increase at every allocation and free; a dead handle stays dead after any history; "
        "every procedure and handle position refuses a dead handle; a created handle is fresh. Correspondence: stale bank presented to every procedure",
        "as C02, with every handle of a removed or overwritten object kept in a bank and re-presented (6% of handle arguments), malformed handles (4%), "
        "a directed scenario presenting dead handles to all 22 procedures and both RENAME positions, and one forcing inode-number reuse; "
        "implementation-side oracle: no OK reply to a handle known dead, no handle issued twice; "
        "crash-after-reveal oracle: one client creates/renames numbered names while two others LOOKUP and READDIRPLUS them on a disk that is slow "
        "on the log header; the server is crashed at the trace position of every first reply that showed a name (un-barriered writes lost) and the "
        "recovered server must have the name with the same handle",
        ["inode-number reuse is forced by moving the allocator's roving pointer (any pointer value is a legal allocator state)",
         "generation numbers stay below 2^64"])

"""C14 — no data races between concurrent RPCs and background threads."""
import os
import re
import subprocess
import seqlib
import conclib
import vlib
from vlib import Break

MODULE = "GoNfsd.Props.C14"


def failing_handlers(ctx):
    """Concrete call sites: the functions whose skeleton uses an inode after its lock was released."""
    f = os.path.join(ctx.scratch, "sk.lean")
    open(f, "w").write("import GoNfsd.Gen.Skeleton\nopen GoNfsd.Model.Skeleton GoNfsd.Gen.Skeleton\n"
                       "#eval (handlers ++ mutexHandlers).filterMap fun (n, h) => if check h then none else some n\n")
    rc, out = vlib.run(["lake", "build", "GoNfsd.Gen.Skeleton"], cwd=vlib.LEAN, timeout=600)
    if rc != 0:
        return None
    rc, out = vlib.run(["lake", "env", "lean", f], cwd=vlib.LEAN, timeout=600)
    m = re.search(r"\[(.*)\]", out, re.S)
    if rc != 0 or not m:
        return None
    return [x.strip().strip('"') for x in m.group(1).split(",") if x.strip()]


def run(ctx):
    with vlib.Lock():
        ok_go = ctx.phase(ctx.build_go)
        ok_gen = ok_go and ctx.phase(ctx.regen, (lambda base: base + [p for p in vlib.gen_parts_of(MODULE) if p not in base])(["consts", "super", "announce", "skeleton"]))
        proved = False
        if ok_gen:
            proved = ctx.phase(ctx.prove, MODULE) and ctx.phase(ctx.audit, MODULE)
            if proved and ctx.tier == "thorough":
                ctx.phase(ctx.leanchecker, MODULE)
            if not proved:
                sk0 = os.path.join(vlib.LEAN, "GoNfsd", "Gen", "Skeleton.lean")
                txt0 = open(sk0).read() if os.path.exists(sk0) else ""
                i0 = txt0.find("def atomicUses")
                for fn, what in re.findall(r'\("([^"]+)", 2, "([^"]*)"\)', txt0[i0:] if i0 >= 0 else ""):
                    ctx.add_violation("unsynchronised-access:" + fn + ":" + what.split()[0],
                                      "function %s touches memory that only sync/atomic synchronises with a plain access: %s" % (fn, what),
                                      {"how": "table atomicUses regenerated from the whole module (translate skeleton, go/types); theorem "
                                              "atomic_fields_are_only_touched_atomically no longer checks; under load the Go race detector reports the "
                                              "access against the sync/atomic writers (stats.Op.Record)", "call_site": fn, "access": what})
                i1 = txt0.find("def fieldWrites")
                singles = ("nfs.Nfs", "fstxn.FsState", "super.FsSuper", "simple.Nfs", "kvs.KVS")
                for fn, ty, fld, cls in re.findall(r'\("([^"]+)", "([^"]+)", "([^"]+)", "([^"]+)"\)', txt0[i1:] if i1 >= 0 else ""):
                    if ty in singles and cls != "local" and (fn, ty, fld) != ("main.main", "nfs.Nfs", "Unstable"):
                        ctx.add_violation("unsynchronised-server-field:" + ty + "." + fld + ":" + fn,
                                          "function %s writes field %s of %s, which every request reaches without a lock: requests on different files hold no common lock, "
                                          "so this write and any other access to the field are unordered" % (fn, fld, ty),
                                          {"how": "table fieldWrites regenerated from the whole module (translate skeleton, go/types); theorem "
                                                  "server_wide_state_is_written_by_its_constructors_only no longer checks; two requests on different files "
                                                  "running this function (or this function and a reader of the field) race; the Go race detector reports it under load",
                                           "call_site": fn, "field": ty + "." + fld})
                i2 = txt0.find("def mutexAssumed")
                line2 = txt0[i2:].split("\n", 1)[0] if i2 >= 0 else ""
                for mname, exported, outside in re.findall(r'\("([^"]+)", (true|false), (\d+)\)', line2):
                    if (exported == "true" or outside != "0") and mname != "mu_cache_Cache_PrintCache":
                        ctx.add_violation("mutex-assumed-by-reachable-method:" + mname[3:],
                                          "method %s touches fields guarded by its struct's mutex without taking it, and it can be called from outside the struct's own methods "
                                          "(exported: %s, calls from plain functions of the package: %s): the access and the accesses under the mutex are unordered" % (mname[3:].replace("_", ".", 2), exported, outside),
                                          {"how": "table Gen/Skeleton.mutexAssumed regenerated from the source (translate skeleton); theorem methods_assumed_to_hold_the_mutex_are_internal "
                                                  "no longer checks; the guarded fields are listed in mutexGuardedFields; under load the Go race detector reports the pair", "call_site": mname[3:]})
                import C03
                for name, calls in C03.failing_slot_functions(ctx)[:3]:
                    ctx.add_violation("slot-without-lock:" + name,
                                      "fstxn.%s reaches a cached inode without holding the inode's lock (calls in source order: %s): whoever uses what it returns reads memory "
                                      "that the lock holder writes" % (name, calls),
                                      {"input": {"function": "fstxn." + name, "calls_in_source_order": calls},
                                       "how": "regenerated table Gen/Skeleton.slotUses checked by Model/Skeleton.slotCheck (theorem cached_inodes_are_reached_under_their_lock): "
                                              "a request running this function and a request that holds the inode's lock and changes the inode (CREATE in the directory, WRITE, "
                                              "SETATTR, the shrinker) are unordered; the Go race detector reports the pair under load"})
                bad = failing_handlers(ctx)
                for fn in (bad or []):
                    if fn.startswith("mu_"):
                        ctx.add_violation("unguarded-access:" + fn,
                                          "method %s touches a field guarded by the struct's mutex while the mutex is not held" % fn[3:],
                                          {"how": "regenerated mutex skeleton (Gen/Skeleton.lean, mutexHandlers) abstractly executed by Model/Skeleton.lean",
                                           "call_site": fn[3:]})
                        continue
                    ctx.add_violation("use-after-release:" + fn,
                                      "function %s uses an inode variable after the commit/abort that released its lock" % fn,
                                      {"how": "regenerated control skeleton (Gen/Skeleton.lean) abstractly executed by Model/Skeleton.lean",
                                       "call_site": fn})
        ok_drv = ok_gen and ctx.phase(ctx.build_driver)
    if ok_go:
        cargs = ["-hists", "20", "-clients", "8", "-ops", "150", "-yield", "40"] if ctx.tier == "thorough" else ["-hists", "4", "-clients", "6", "-ops", "100", "-yield", "30"]
        clines, ctr = conclib.run_conc(ctx, cargs)
        if clines is not None and ok_drv:
            try:
                lm = conclib.check_locks(ctx, clines, "C14", "conc")
                if lm:
                    ctx.breaks.append(Break("correspondence", "recorded transactions violate the lockset discipline (%d)" % len(lm), "\n".join(lm[:8])))
                    for x in lm[:2]:
                        parts = x.split(" :: ")
                        ctx.add_violation("lockset:" + parts[1].split()[1], parts[0][:200] + " — " + parts[-1][:200],
                                          {"how": "lock/commit events recorded by the fstxn hooks (harness conc)", "trace": parts[-1]})
            except Break as b:
                ctx.breaks.append(b)
        # the slot cache: a slot must stand for ONE id for ever — callers keep the slot pointer across blocking disk reads, protected
        # only by the lock of "their" inode; a slot handed on to another id is one memory cell under two locks
        cf = os.path.join(ctx.scratch, "cache.txt")
        rc, err = ctx.harness(["cache", "-seed", str(ctx.seed)] + (["-seqs", "200", "-ops", "1000"] if ctx.tier == "thorough" else ["-seqs", "30", "-ops", "400"]), cf)
        if rc != 0:
            ctx.breaks.append(Break("correspondence", "harness cache failed to run", err[-2000:]))
        elif ok_drv:
            try:
                n, mism, _ = ctx.driver("cache", cf)
                ctx.cov["traces_validated_against_impl"] += n
                ctx.cov["evaluations"] += n
                ctx.cov["cache_lookups_compared"] = n
                if mism:
                    ctx.breaks.append(Break("correspondence", "slot-cache model and cache.Cache disagree on the identity of the slot returned", "\n".join(mism[:8])))
                    ctx.add_violation("cache:slot-identity", mism[0][:400],
                                      {"how": "harness cache: random LookupSlot calls on the real cache.Cache; slots numbered by first appearance of their address; "
                                              "a slot returned for two different ids is shared by transactions holding different inode locks", "all": mism[:8]})
            except Break as b:
                ctx.breaks.append(b)
        if ctx.tier == "thorough":
            race_run(ctx)
    sk = os.path.join(vlib.LEAN, "GoNfsd", "Gen", "Skeleton.lean")
    if os.path.exists(sk):
        txt = open(sk).read()
        ctx.cov["functions_extracted"] = txt.count(": List String × Sk :=")
        m = re.search(r"statementsSeen : Nat := (\d+)", txt)
        m2 = re.search(r"statementsClassified : Nat := (\d+)", txt)
        if m and m2:
            ctx.cov["statements_seen"], ctx.cov["statements_classified"] = int(m.group(1)), int(m2.group(1))
            ctx.cov["evaluations"] += int(m.group(1))
        ctx.cov["samples"].append(re.search(r"def nfs_m_NFSPROC3_GETATTR.*", txt).group(0)[:300] if "nfs_m_NFSPROC3_GETATTR" in txt else "")
    vlib.finish(
        ctx, "proof",
        "PARTIAL. Theorems: lockset discipline ⇒ conflicting accesses are separated by a release→acquire edge; for the control skeleton of every function of nfs/, dir/, shrinker/ "
        "— regenerated from the source each run — no path uses an inode variable after the commit/abort that released its lock (path-sensitive abstract execution, decided by the kernel); "
        "fields synchronised by sync/atomic alone are touched through sync/atomic or in function-private copies only, in every function of the module (table by go/types), which excludes races on them. "
        "Recorded lock events of concurrent runs are validated; the thorough tier runs the concurrent harness under the Go race detector (search only)",
        "static: every function's statements are classified (acquire / pointer copy / use / end of transaction / flag / control) and the table is decided in Lean; dynamic: lock traces of "
        "concurrent histories; thorough: go build -race of the harness, concurrent histories, any 'DATA RACE' report is a violation with the report as replay",
        ["the Go memory model and go-journal's internals are outside; fields of FsState are not inode-variable accesses and are not classified; the structs with their own mutex and the fields synchronised by sync/atomic have their own regenerated tables (mutexHandlers, atomicUses: a variable is taken as private to a function when it is a local built from a composite literal, make, new, a zero var, or a value parameter)",
         "passing or returning an inode pointer is not counted as an access; reading a field through it is"],
        partial=["C14 as a whole: the discipline is proved for the extracted skeletons only"])


def race_run(ctx):
    """Search support: the concurrent harness under the Go race detector."""
    exe = os.path.join(ctx.scratch, "harness-race")
    rc, out = vlib.run(["go", "build", "-race", "-tags", "verif", "-o", exe, "./harness"], cwd=vlib.GO, env=vlib.go_env(), timeout=1200)
    if rc != 0:
        ctx.notes.append("race build failed: " + out[-300:])
        return
    for k in range(3):
        p = subprocess.run([exe, "conc", "-seed", str(ctx.seed * 100 + k), "-hists", "6", "-clients", "8", "-ops", "120", "-yield", "30"],
                           stdout=subprocess.DEVNULL, stderr=subprocess.PIPE, text=True, env=vlib.go_env(), timeout=1800)
        if "DATA RACE" in p.stderr:
            i = p.stderr.index("WARNING: DATA RACE")
            rep = p.stderr[i:i + 3000]
            ctx.add_violation("race:" + (re.search(r"go-nfsd/(\S+)\(\)", rep).group(1) if re.search(r"go-nfsd/(\S+)\(\)", rep) else "report"),
                              "the Go race detector reports a data race", {"how": "harness conc built with -race, seed %d" % (ctx.seed * 100 + k), "report": rep})
            return
    ctx.notes.append("race detector: 3 runs of 6 concurrent histories, no report")

"""C13 — directory enumeration is complete, duplicate-free and terminates."""
import seqlib
import conclib
import vlib
from vlib import Break

MODULE = "GoNfsd.Props.C13"


def run(ctx):
    ok_go, ok_drv = seqlib.build_and_prove(ctx, MODULE, extra_parts=["skeleton"])
    if any(b.kind == "proof" for b in ctx.breaks):
        import C03
        for name, calls in C03.failing_slot_functions(ctx)[:3]:
            ctx.add_violation("slot-before-lock:" + name,
                              "fstxn.%s fetches the cached directory object without holding the directory's lock: calls in source order: %s" % (name, calls),
                              {"input": {"function": "fstxn." + name, "calls_in_source_order": calls},
                               "how": "regenerated table Gen/Skeleton.slotUses checked by Model/Skeleton.slotCheck (theorem the_directory_listed_is_the_locked_one): a request that waits for a "
                                      "directory while more than 100 other inodes are used continues on an orphaned copy of it; a name is then listed twice or goes missing"})
    if ok_go:
        args = ["-seqs", "40", "-ops", "400", "-locks"] if ctx.tier == "thorough" else ["-seqs", "8", "-ops", "300", "-locks"]
        lines, tr = seqlib.run_seq(ctx, args)
        if lines is not None:
            seqlib.analyse(ctx, lines, tr, ok_drv, "C13", relevant_ops={"readdir", "readdirplus"})
            ctx.cov["listings_compared"] = len([l for l in lines if l.startswith("readdir")])
            # "while the directory changes": a listing and an update of one directory are ordered by the directory's lock, held from
            # the first read of a directory block to the commit. A request that gives the lock back and goes on with the block images
            # it has read (the journal keeps them for the whole transaction) writes stale slots back: checked on every transaction.
            if ok_drv:
                try:
                    lm = conclib.check_locks(ctx, lines, "C13", "sequential")
                    tp = [x for x in lm if "two-phase" in x]
                    if lm:
                        ctx.breaks.append(Break("correspondence", "recorded transactions are not two-phase (%d)" % len(tp), "\n".join(lm[:8])))
                    for x in tp[:2]:
                        parts = x.split(" :: ")
                        ctx.add_violation("not-two-phase:" + parts[1].split()[1], "a directory's lock is given back before the commit point: " + parts[-1][:200],
                                          {"how": "lock/commit events of one request recorded by the fstxn hooks (harness seq -locks)", "trace": parts[-1],
                                           "trace_prefix": seqlib.context_before(lines, "# " + " :: ".join(parts[1:]))})
                except Break as b:
                    ctx.breaks.append(b)
    vlib.finish(
        ctx, "proof",
        "theorems for the paging function with ARBITRARY budgets (hence READDIR and READDIRPLUS): a page is sound, non-empty whenever an entry remains, "
        "gap-free, complete at eof; iterating from cookie 0 returns every live entry exactly once and ends within slots+1 calls; entries never move. "
        "Correspondence: every listing reply compared entry by entry and cookie by cookie",
        "as C02 plus an implementation-side oracle on every directory at the end of every sequence: cookie-paged enumeration with 8 budget settings "
        "(including 0 and one-entry pages) must equal the one-shot listing and terminate",
        ["enumeration while the directory changes is exercised only between calls of the sequential client"],
        pending=[])

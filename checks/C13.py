"""C13 — directory enumeration is complete, duplicate-free and terminates."""
import seqlib
import vlib

MODULE = "GoNfsd.Props.C13"


def run(ctx):
    ok_go, ok_drv = seqlib.build_and_prove(ctx, MODULE)
    if ok_go:
        args = ["-seqs", "40", "-ops", "400"] if ctx.tier == "thorough" else ["-seqs", "8", "-ops", "300"]
        lines, tr = seqlib.run_seq(ctx, args)
        if lines is not None:
            seqlib.analyse(ctx, lines, tr, ok_drv, "C13", relevant_ops={"readdir", "readdirplus"})
            ctx.cov["listings_compared"] = len([l for l in lines if l.startswith("readdir")])
    vlib.finish(
        ctx, "proof",
        "theorems for the paging function with ARBITRARY budgets (hence READDIR and READDIRPLUS): a page is sound, non-empty whenever an entry remains, "
        "gap-free, complete at eof; iterating from cookie 0 returns every live entry exactly once and ends within slots+1 calls; entries never move. "
        "Correspondence: every listing reply compared entry by entry and cookie by cookie",
        "as C02 plus an implementation-side oracle on every directory at the end of every sequence: cookie-paged enumeration with 8 budget settings "
        "(including 0 and one-entry pages) must equal the one-shot listing and terminate",
        ["enumeration while the directory changes is exercised only between calls of the sequential client"],
        pending=[])

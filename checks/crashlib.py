"""Shared code of the crash checks (C01, C07): harness `crash` + Lean driver `wal`."""
import os
import re
import seqlib
import vlib
from vlib import Break


def run_crash(ctx, ok_drv, mix, args, prop_of_oracle):
    """Runs one crash campaign.  `prop_of_oracle(label)` says whether an `# ORACLE <label>` line counts
    for the property being checked."""
    tr = os.path.join(ctx.scratch, "crash-%s.txt" % mix)
    rc, err = ctx.harness(["crash", "-seed", str(ctx.seed), "-mix", mix] + args, tr, timeout=6000)
    if rc != 0:
        ctx.breaks.append(Break("correspondence", "harness crash (%s mix) failed to run" % mix, err[-2000:]))
        return
    lines = open(tr).read().splitlines()
    cov = ctx.cov
    cur_ops = []
    for l in lines:
        if l.startswith("# workload "):
            cur_ops = [l]
            m = re.search(r"ops=(\d+) stable-acks=(\d+) disk-events=(\d+)", l)
            if m:
                cov["operations_recorded"] = cov.get("operations_recorded", 0) + int(m.group(1))
                cov["stable_acknowledgements"] = cov.get("stable_acknowledgements", 0) + int(m.group(2))
                cov["disk_events_recorded"] = cov.get("disk_events_recorded", 0) + int(m.group(3))
            cov["workloads_" + mix] = cov.get("workloads_" + mix, 0) + 1
        elif l.startswith("# op "):
            cur_ops.append(l[:300])
            k = l.split()[4:6]
            if len(k) == 2:
                key = "op:" + k[1]
                cov.setdefault("histogram", {})
                cov["histogram"][key] = cov["histogram"].get(key, 0) + 1
        elif l.startswith("crashsum "):
            m = dict(x.split("=") for x in l.split()[1:])
            cov["crash_points_available"] = cov.get("crash_points_available", 0) + int(m["crashpoints"])
            cov["crash_images_recovered_and_compared"] = cov.get("crash_images_recovered_and_compared", 0) + int(m["checked"])
            cov["distinct_recovered_states"] = cov.get("distinct_recovered_states", 0) + int(m["distinct-recovered-states"])
            cov["evaluations"] += int(m["checked"])
            cov["distinct_nontrivial"] += int(m["distinct-recovered-states"])
            cov["second_crash_images"] = cov.get("second_crash_images", 0) + int(m.get("second-crash-images", 0))
        elif l.startswith("# ORACLE "):
            f = l.split(" ", 4)
            label, key, text = f[2], f[3], f[4] if len(f) > 4 else ""
            if prop_of_oracle(label, key):
                ctx.add_violation("crash:" + key, text[:600],
                                  {"how": "harness crash -seed %d -mix %s %s: record every disk write/barrier of a real run, cut the disk at the crash point, let the real "
                                          "server recover, compare the recovered tree with the reference states" % (ctx.seed, mix, " ".join(args)),
                                   "oracle": l[:3000], "workload": cur_ops[:200]})
    samples = [l for l in lines if l.startswith("# op ")]
    if samples:
        cov["samples"] += [samples[0][:200], samples[len(samples) // 2][:200]]
    # the recorded disk trace against the WAL model's guards
    wt = os.path.join(ctx.scratch, "wt-%s.txt" % mix)
    with open(wt, "w") as f:
        f.write("\n".join(l for l in lines if l.startswith("wt ")) + "\n")
    if ok_drv:
        try:
            n, mism, _ = ctx.driver("wal", wt)
            cov["traces_validated_against_impl"] += n
            cov["wal_trace_events_mapped_to_model_steps"] = cov.get("wal_trace_events_mapped_to_model_steps", 0) + n
            if mism:
                ctx.breaks.append(Break("correspondence", "the recorded disk trace does not follow the WAL protocol model (%d events)" % len(mism), "\n".join(mism[:8])))
                m = mism[0].split(" :: ")
                ctx.add_violation("wal-protocol:" + " ".join(m[0].split()[1:6]), m[0][:500],
                                  {"how": "driver wal over the disk trace recorded by harness crash -seed %d -mix %s" % (ctx.seed, mix), "event": m[-1][:400], "message": m[0][:1000]})
        except Break as b:
            ctx.breaks.append(b)


def run_small(ctx, ok_drv, sub, prop, args):
    """crashkv / crashsimple: prefix-state oracle on crash images + recorded trace against the WAL model."""
    tr = os.path.join(ctx.scratch, sub + ".txt")
    rc, err = ctx.harness([sub, "-seed", str(ctx.seed)] + args, tr, timeout=6000)
    if rc != 0:
        ctx.breaks.append(Break("correspondence", "harness %s failed to run" % sub, err[-2000:]))
        return
    lines = open(tr).read().splitlines()
    cov = ctx.cov
    cur_ops = []
    for l in lines:
        if l.startswith("# kv workload") or l.startswith("# simple workload"):
            cur_ops = [l]
        elif l.startswith("# op "):
            cur_ops.append(l[:300])
        elif l.startswith("crashsum "):
            m = dict(x.split("=") for x in l.split()[1:])
            cov["crash_points_available"] = cov.get("crash_points_available", 0) + int(m["crashpoints"])
            cov["crash_images_recovered_and_compared"] = cov.get("crash_images_recovered_and_compared", 0) + int(m["checked"])
            cov["distinct_recovered_states"] = cov.get("distinct_recovered_states", 0) + int(m["distinct-recovered-states"])
            cov["evaluations"] += int(m["checked"])
        elif l.startswith("crashobs "):
            m = dict(x.split("=") for x in l.split()[1:] if "=" in x)
            cov["replies_stamped_with_a_crash_point"] = cov.get("replies_stamped_with_a_crash_point", 0) + int(m.get("getattr-replies", 0))
            cov["crash_right_after_a_reply_recovered_and_compared"] = cov.get("crash_right_after_a_reply_recovered_and_compared", 0) + int(m["checked"])
            cov["evaluations"] += int(m["checked"])
        elif l.startswith("# ORACLE " + prop + " "):
            f = l.split(" ", 4)
            ctx.add_violation("crash:" + f[3], (f[4] if len(f) > 4 else "")[:600],
                              {"how": "harness %s -seed %d %s" % (sub, ctx.seed, " ".join(args)), "oracle": l[:3000], "workload": cur_ops[:200]})
    wt = os.path.join(ctx.scratch, "wt-%s.txt" % sub)
    with open(wt, "w") as f:
        f.write("\n".join(l for l in lines if l.startswith("wt ")) + "\n")
    if ok_drv:
        try:
            n, mism, _ = ctx.driver("wal", wt)
            cov["wal_trace_events_mapped_to_model_steps"] = cov.get("wal_trace_events_mapped_to_model_steps", 0) + n
            if mism:
                ctx.breaks.append(Break("correspondence", "the recorded disk trace does not follow the WAL protocol model", "\n".join(mism[:8])))
                m = mism[0].split(" :: ")
                ctx.add_violation("wal-protocol:" + " ".join(m[0].split()[1:6]), m[0][:500], {"how": "driver wal over the trace of harness " + sub, "message": m[0][:1000]})
        except Break as b:
            ctx.breaks.append(b)


def run_obs(ctx, prop):
    """crashobs: what a reply revealed to ANOTHER client must survive a crash right after that reply."""
    tr = os.path.join(ctx.scratch, "crashobs.txt")
    args = ["-prop", prop] + (["-workloads", "40", "-steps", "40"] if ctx.tier == "thorough" else ["-workloads", "4", "-steps", "30"])
    rc, err = ctx.harness(["crashobs", "-seed", str(ctx.seed)] + args, tr, timeout=3000)
    if rc != 0:
        ctx.breaks.append(Break("correspondence", "harness crashobs failed to run", err[-2000:]))
        return
    cov = ctx.cov
    for l in open(tr).read().splitlines():
        if l.startswith("crashobs "):
            m = dict(x.split("=") for x in l.split()[1:] if "=" in x)
            cov["replies_stamped_with_a_crash_point"] = cov.get("replies_stamped_with_a_crash_point", 0) + int(m["replies-showing-a-name"])
            cov["crash_right_after_a_reply_recovered_and_compared"] = cov.get("crash_right_after_a_reply_recovered_and_compared", 0) + int(m["checked"])
            cov["evaluations"] += int(m["checked"])
        elif l.startswith("# ORACLE " + prop + " "):
            f = l.split(" ", 4)
            ctx.add_violation("crash:" + f[3], (f[4] if len(f) > 4 else "")[:600],
                              {"how": "harness crashobs -seed %d %s" % (ctx.seed, " ".join(args)), "oracle": l[:3000]})

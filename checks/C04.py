"""C04 — the on-disk structure is always a well-formed file system."""
import fscklib
import seqlib
import vlib
import dclib
from vlib import Break

MODULE = "GoNfsd.Props.C04"


def run(ctx):
    ok_go, ok_drv = seqlib.build_and_prove(ctx, MODULE, extra_parts=["skeleton"])
    seqlib.report_journal_objects(ctx)
    if ok_go:
        t = ctx.tier == "thorough"
        sd = ["-seed", str(ctx.seed)]
        R = fscklib.C04_CHECKS
        sl = fscklib.run_images(ctx, ok_drv, "seq", ["seq"] + sd + (["-seqs", "24", "-ops", "400", "-big", "-fsck", "3", "-locks"] if t else ["-seqs", "5", "-ops", "250", "-big", "-fsck", "5", "-locks"]), R, True)
        # the journal caches every object a transaction has read for the transaction's lifetime; the copies are the disk's only while the locks
        # that protect them are held: a transaction that goes on after giving its locks back (or after its abort) writes stale directory blocks
        # and inodes over what others committed meanwhile.  Checked on every transaction of the run.
        if sl is not None and ok_drv:
            import conclib
            try:
                lm = [x for x in conclib.check_locks(ctx, sl, "C04", "sequential") if "two-phase" in x]
                if lm:
                    ctx.breaks.append(Break("correspondence", "recorded transactions are not two-phase (%d)" % len(lm), "\n".join(lm[:8])))
                for x in lm[:2]:
                    parts = x.split(" :: ")
                    ctx.add_violation("not-two-phase:" + parts[1].split()[1], "a transaction takes a lock after it has given locks back (or after its abort): " + parts[-1][:200],
                                      {"how": "lock/commit events of one request recorded by the fstxn hooks (harness seq -locks); the transaction's cached directory blocks and inodes "
                                              "are stale once the lock was given back: entries committed by others meanwhile are overwritten", "trace": parts[-1]})
            except Break as b:
                ctx.breaks.append(b)
        # names are checked in the name CACHE only (M8e): cache = directory after every step of real transactions; no name twice on disk
        dclib.run(ctx, ok_drv, "C04")
        fscklib.run_images(ctx, ok_drv, "conc", ["conc"] + sd + (["-hists", "40", "-clients", "5", "-ops", "150"] if t else ["-hists", "8", "-clients", "6", "-ops", "100", "-yield", "40"]), R, True)
        fscklib.run_images(ctx, ok_drv, "crash-meta", ["crash"] + sd + ["-mix", "meta"] + (["-workloads", "12", "-ops", "60", "-images", "800"] if t else ["-workloads", "2", "-ops", "40", "-images", "150"]), R, True)
        fscklib.run_images(ctx, ok_drv, "crash-free", ["crash"] + sd + ["-mix", "free", "-disk", "40000", "-ops", "22"] + (["-workloads", "6", "-images", "600"] if t else ["-workloads", "1", "-images", "120"]), R, True)
        lines = fscklib.run_images(ctx, ok_drv, "reclaim", ["reclaim"] + sd + (["-hists", "9", "-rounds", "5"] if t else ["-hists", "3", "-rounds", "2"]), R, True)
        fscklib.oracle_lines(ctx, lines, "C04", "harness reclaim -seed %d (full-disk scenarios: read-back after the block of a failed write was reused)" % ctx.seed)
    vlib.finish(
        ctx, "proof",
        "PARTIAL (that every history and crash leads to a well-formed disk is decided on sampled runs). Lean theorem fsck_sound: the executable structure checker accepts an image only "
        "if the declarative statement WF holds of it — pointers in the data region, no block with two owners, block bitmap = metadata + owned blocks, inode bitmap = inodes in use, "
        "sizes agree with the blocks present, names unique and well-formed, every live object exactly one name, '.' and '..' right, every live object reachable from the root. For the clause 'names are unique' additionally a theorem for ALL histories on the reference model M6 (names_unique_in_every_reachable_state: an inductive invariant of every operation incl. RENAME over targets), and for the clauses 'every name denotes a live object', 'no object has two names', 'every directory has its dot entries, nothing else has entries' the theorem namespace_wellformed_in_every_reachable_state (invariant WFN of every operation; its RENAME case exposed the defect fixed in 7e58aef) and, for 'every live object has exactly one name', every_live_object_has_a_name with no_object_has_two_names and root_is_permanent (invariant WFO); for the clauses '.', '..' and 'reachable from the root' tree_clauses_partial (invariant WFT under the decidable hypothesis that no RENAME moves a directory to another directory) and tree_clauses_fail_after_a_directory_move (the full statement is false of model and code: the known finding). "
        "Tie: the checker runs on the logical disk of the REAL server (every block read through the journal, decoded with the repository's own inode and directory-entry decoders): at "
        "quiescent points of sequential histories and scenarios, at the end of concurrent histories, on every sampled crash image after recovery (including crashes while a large "
        "file is being freed in the background) and again after the recovered server has served requests",
        "images: every 5th (thorough: 3rd) operation of generated sequences incl. multi-block writes, truncations, renames over targets, restarts; end of concurrent 4-5 client "
        "histories; crash images of the namespace mix and of the build-then-free workload (770-block file freed by the shrinker, crash points from the free onwards); build-then-delete rounds on small disks",
        ["the image is produced by the harness (go/harness/fsck.go): a read-only walk of inode table, indirect blocks and directory blocks through obj.Log.Load, decoded by inode.Decode and dir.decodeDirEnt",
         "the layout functions are the ones regenerated from super/super.go; the set of blocks marked by formatting is a closed form proved equal to the format model of C15 (metaBlock_is_format_model)",
         "in images of concurrent histories every directory counts as possibly moved once a cross-directory RENAME succeeded (loosens only the '..' clause there)"],
        pending=["the bridge from states of the block-level models to the IMAGES the checker reads is proved for OWNERSHIP (checker_ownership_is_the_pointer_tree: Fsck.owned on an image "
                 "= the non-null pointers of the model's tree, position by position; checker_one_owner_on_every_reachable_image: the image of every state reachable by mappings, truncations and "
                 "reuse on any files passes chkOneOwner) and for POINTERS IN THE DATA REGION (checker_pointers_in_the_data_region_on_every_reachable_image: chkPtrs, given that the allocator's numbers lie there) and for SIZES (checker_sizes_on_the_image_of_files_in_bookkeeping: chkSizes from the bookkeeping invariant InoOK of every WRITE / READ / resize history); the other clauses of the checker (bitmap = metadata + owned, directory slots, names, inode table) are proved layer by layer on their own "
                 "representations (allocator_is_disk_plus_open_allocations, InoOK, directory_blocks_refine_the_slot_list, writing_one_inode_changes_no_other), not yet composed into the image"],

        partial=["for all histories / crash points: sampled, not proved"])

"""C07 — unstable-write contract."""
import crashlib
import seqlib
import vlib

MODULE = "GoNfsd.Props.C07"


def run(ctx):
    ok_go, ok_drv = seqlib.build_and_prove(ctx, MODULE, extra_parts=["skeleton"])
    seqlib.report_flush_callers(ctx)
    if any(b.kind == "proof" for b in ctx.breaks):
        import C03
        for name, calls in C03.failing_commit_paths(ctx)[:3]:
            ctx.add_violation("acknowledged-before-durable:" + name,
                              "%s commits without waiting for the disk (%s): a request other than WRITE is acknowledged while its transaction — and every unstable write "
                              "acknowledged before it — is only in the journal's memory; a crash right after the reply loses what the reply promised" % (name, calls),
                              {"input": {"function": name, "calls_in_source_order": calls},
                               "how": "regenerated tables Gen/Skeleton.unstableCommitters / commitPaths (theorem only_write_commits_without_waiting); history: UNSTABLE WRITE, the "
                                      "request in question, crash before any other stable operation"})
    if ok_go:
        data = ["-workloads", "24", "-ops", "80", "-images", "1200"] if ctx.tier == "thorough" else ["-workloads", "6", "-ops", "50", "-images", "200"]
        crashlib.run_crash(ctx, ok_drv, "data", data, lambda label, key: True)
        # the WRITE/COMMIT replies (count, committed level, size) of the sequential correspondence
        args = ["-seqs", "20", "-ops", "400"] if ctx.tier == "thorough" else ["-seqs", "4", "-ops", "200"]
        lines, tr = seqlib.run_seq(ctx, args)
        if lines is not None:
            seqlib.analyse(ctx, lines, tr, ok_drv, "C07", relevant_ops={"write", "commit", "read"})
    vlib.finish(
        ctx, "proof",
        "PARTIAL (verifier freshness and the file-system layer above the log are tied by oracle). Lean theorems: on the WAL model a crash loses logged updates only as a suffix of "
        "the append (= acknowledgement) order and never below a durable group commit (loss_is_suffix, stable_never_lost); a flush makes everything before it durable for every later "
        "crash (commit_flushes_all, committed_data_survives); on the reference model the committed level reported is the requested one or FILE_SYNC with the option off, never weaker "
        "(committed_level, committed_never_weaker, option_off_file_sync) and data written at any level is read back immediately (unstable_readable_immediately). Ties: recorded disk "
        "trace mapped onto the WAL model; crash images of write-stability workloads recovered by the real server — the recovered state must be the state after k operations, with every "
        "operation whose REPLY promised stability among the k; the write verifier must differ between instances; every WRITE/COMMIT/READ reply compared with the reference model",
        "workloads interleaving UNSTABLE/DATA_SYNC/FILE_SYNC writes to several files with COMMITs, truncations, renames and removals, unstable option on (2 of 3 workloads) and off; "
        "crash points as for C01; plus operation sequences of the sequential correspondence restricted to write/commit/read replies",
        ["as C01: go-journal's WAL is modelled and tied by the recorded-trace check",
         "acknowledgement order = log position order (MemAppend assigns positions under the log's lock): assumed by the model, observed by the crash oracle",
         "the write verifier is the start time in nanoseconds: that two instances differ is observed, not provable"],
        pending=[],
        partial=["verifier freshness and file-system layer: oracle on sampled workloads and crash points"])

"""Shared machinery of /verif/bin/check (see DESIGN.md, Sections 2, 3 and 7)."""
import fcntl
import hashlib
import json
import os
import re
import shutil
import subprocess
import sys
import time

VERIF = os.path.dirname(os.path.dirname(os.path.abspath(__file__)))
REPO = os.environ.get("VERIF_REPO", "/repo")
LEAN = os.path.join(VERIF, "lean")
GO = os.path.join(VERIF, "go")
WORK = os.path.join(VERIF, "work")
BIN = os.path.join(WORK, "bin")
REPLAYS = os.path.join(VERIF, "replays")
EVIDENCE = os.path.join(VERIF, "evidence")
DRV = os.path.join(LEAN, ".lake", "build", "bin", "drv")

ALLOWED_AXIOMS = {"propext", "Classical.choice", "Quot.sound"}
FORBIDDEN = re.compile(
    r"\b(sorry|admit|native_decide|bv_decide|implemented_by|unsafe)\b|^\s*axiom\s|maxHeartbeats\s+0")

TRUSTED_BASE = [
    "Lean 4.33.0 kernel (plus leanchecker in the thorough tier); axioms allowed: propext, Classical.choice, Quot.sound",
    "translator /verif/go/translate (go/ast expression translation, table extraction, constants obtained by running the real code)",
    "correspondence harness /verif/go/harness and its generators: agreement of model and implementation is observed on the generated cases only",
    "modelled, not verified: go-journal (wal, obj, jrnl, alloc, lockmap), marshal, go-rpcgen xdr primitives and rfc1057 server, Go runtime and memory model, the disk",
]


def go_env():
    e = dict(os.environ)
    e.update({"GOFLAGS": "-mod=mod", "GOPROXY": "off", "GOSUMDB": "off", "GOTOOLCHAIN": "local",
              "GONOSUMDB": "*", "GONOSUMCHECK": "1"})
    return e


def seed():
    try:
        return int(os.environ.get("VERIF_SEED", "1"))
    except ValueError:
        return 1


class Lock:
    """Serialises the build phases (generated files and .lake are shared)."""

    def __init__(self, name="build"):
        os.makedirs(WORK, exist_ok=True)
        self.path = os.path.join(WORK, name + ".lock")

    def __enter__(self):
        self.f = open(self.path, "w")
        fcntl.flock(self.f, fcntl.LOCK_EX)
        return self

    def __exit__(self, *a):
        fcntl.flock(self.f, fcntl.LOCK_UN)
        self.f.close()


def run(cmd, cwd=None, env=None, timeout=None, stdin=None, input=None):
    p = subprocess.run(cmd, cwd=cwd, env=env, timeout=timeout, stdin=stdin, input=input,
                       stdout=subprocess.PIPE, stderr=subprocess.STDOUT, text=True)
    return p.returncode, p.stdout


class Break(Exception):
    """A proof obligation, the translator, the build, or a correspondence no longer checks."""

    def __init__(self, kind, what, detail=""):
        super().__init__(what)
        self.kind = kind  # 'translator' | 'build' | 'proof' | 'axioms' | 'correspondence' | 'oracle'
        self.what = what
        self.detail = detail


class Ctx:
    def __init__(self, prop, tier):
        self.prop = prop
        self.tier = tier
        self.seed = seed()
        self.t0 = time.time()
        self.scratch = os.path.join(WORK, "run-%s-%d" % (prop, os.getpid()))
        os.makedirs(self.scratch, exist_ok=True)
        self.breaks = []       # Break objects
        self.violations = []   # dicts: key, what, replay (dict)
        self.cov = {"evaluations": 0, "distinct_nontrivial": 0, "samples": [],
                    "traces_validated_against_impl": 0}
        self.theorems = []
        self.axioms = {}
        self.notes = []

    def phase(self, fn, *a, **kw):
        """Run one phase; a Break is recorded and reported as False."""
        try:
            fn(*a, **kw)
            return True
        except Break as b:
            self.breaks.append(b)
            return False
        except subprocess.TimeoutExpired as e:
            self.breaks.append(Break("build", "phase timed out: %s" % (e.cmd,)))
            return False

    def cleanup(self):
        shutil.rmtree(self.scratch, ignore_errors=True)

    # ------------------------------------------------------------------ build
    def build_go(self):
        """Rebuild translator and harness from /repo's current working tree."""
        os.makedirs(BIN, exist_ok=True)
        shutil.copyfile(os.path.join(REPO, "go.sum"), os.path.join(GO, "go.sum"))
        rc, out = run(["go", "build", "-o", os.path.join(BIN, "translate"), "./translate"], cwd=GO, env=go_env())
        if rc != 0:
            raise Break("build", "translator does not build against /repo", out[-4000:])
        rc, out = run(["go", "build", "-tags", "verif", "-o", os.path.join(BIN, "harness"), "./harness"],
                      cwd=GO, env=go_env())
        if rc != 0:
            raise Break("build", "harness does not build against /repo (-tags verif)", out[-4000:])

    def regen(self, parts=None):
        cmd = [os.path.join(BIN, "translate"), REPO, os.path.join(LEAN, "GoNfsd", "Gen")] + (parts or [])
        rc, out = run(cmd, cwd=GO, env=go_env(), timeout=300)
        if rc != 0:
            raise Break("translator", "translator failed on /repo's current source", out[-4000:])

    def lake_build(self, targets):
        rc, out = run(["lake", "build"] + targets, cwd=LEAN, timeout=3000)
        return rc, out

    def prove(self, module):
        """Re-elaborate the property module against the freshly generated definitions."""
        rc, out = self.lake_build([module])
        if rc != 0:
            errs = [l for l in out.splitlines() if "error" in l]
            raise Break("proof", "module %s no longer checks" % module, "\n".join(errs[:20]) + "\n" + out[-3000:])

    def build_driver(self):
        rc, out = self.lake_build(["drv"])
        if rc != 0:
            errs = [l for l in out.splitlines() if "error" in l]
            raise Break("build", "Lean driver does not build (model vs generated definitions)",
                        "\n".join(errs[:20]) + "\n" + out[-3000:])

    def audit(self, module, extra_modules=()):
        """#print axioms for every theorem of the property module; forbidden-token scan."""
        path = os.path.join(LEAN, *module.split(".")) + ".lean"
        src = open(path).read()
        ns = re.search(r"^namespace\s+(\S+)", src, re.M)
        prefix = (ns.group(1) + ".") if ns else ""
        names = re.findall(r"^theorem\s+([^\s:({\[]+)", src, re.M)
        self.theorems = [prefix + n for n in names]
        # forbidden tokens (outside comments) in the whole project
        bad = []
        for root, _, files in os.walk(os.path.join(LEAN, "GoNfsd")):
            for fn in files:
                if not fn.endswith(".lean"):
                    continue
                text = open(os.path.join(root, fn)).read()
                text = re.sub(r"/-.*?-/", "", text, flags=re.S)
                for i, line in enumerate(text.splitlines()):
                    line = line.split("--")[0]
                    if FORBIDDEN.search(line):
                        bad.append("%s:%d: %s" % (os.path.join(root, fn), i + 1, line.strip()))
        if bad:
            raise Break("axioms", "forbidden construct in the Lean project", "\n".join(bad[:20]))
        audit_dir = os.path.join(self.scratch, "audit")
        os.makedirs(audit_dir, exist_ok=True)
        af = os.path.join(audit_dir, "Audit.lean")
        with open(af, "w") as f:
            f.write("import %s\n" % module)
            for m in extra_modules:
                f.write("import %s\n" % m)
            for t in self.theorems:
                f.write("#print axioms %s\n" % t)
        rc, out = run(["lake", "env", "lean", af], cwd=LEAN, timeout=1200)
        if rc != 0:
            raise Break("proof", "axiom audit of %s failed to elaborate" % module, out[-3000:])
        cur = None
        axioms = {}
        for line in out.splitlines():
            m = re.match(r"'([^']+)' depends on axioms: \[(.*)\]", line)
            m2 = re.match(r"'([^']+)' does not depend on any axioms", line)
            if m:
                axioms[m.group(1)] = [a.strip() for a in m.group(2).split(",") if a.strip()]
            elif m2:
                axioms[m2.group(1)] = []
        # multi-line axiom lists
        if len(axioms) < len(self.theorems):
            joined = re.sub(r"\n\s+", " ", out)
            for m in re.finditer(r"'([^']+)' depends on axioms: \[([^\]]*)\]", joined):
                axioms[m.group(1)] = [a.strip() for a in m.group(2).split(",") if a.strip()]
        self.axioms = axioms
        missing = [t for t in self.theorems if t not in axioms]
        if missing:
            raise Break("proof", "axiom audit incomplete", "no #print axioms output for: " + ", ".join(missing))
        for t, ax in axioms.items():
            extra = [a for a in ax if a not in ALLOWED_AXIOMS]
            if extra:
                raise Break("axioms", "theorem %s depends on unexpected axioms %s" % (t, extra))

    def leanchecker(self, module):
        rc, out = run(["lake", "env", "leanchecker", module], cwd=LEAN, timeout=3000)
        if rc != 0:
            raise Break("proof", "leanchecker rejects %s" % module, out[-3000:])
        self.notes.append("leanchecker re-checked %s" % module)

    # -------------------------------------------------------------- harness
    def harness(self, args, outfile, timeout=1800, env_extra=None):
        env = go_env()
        if env_extra:
            env.update(env_extra)
        with open(outfile, "w") as f:
            p = subprocess.run([os.path.join(BIN, "harness")] + args, stdout=f, stderr=subprocess.PIPE,
                               text=True, env=env, timeout=timeout)
        return p.returncode, p.stderr

    def driver(self, mode, infile, timeout=1800):
        with open(infile) as f:
            p = subprocess.run([DRV, mode], stdin=f, stdout=subprocess.PIPE, stderr=subprocess.STDOUT,
                               text=True, timeout=timeout)
        lines = p.stdout.splitlines()
        mism = [l for l in lines if l.startswith("MISMATCH")]
        done = [l for l in lines if l.startswith("done ")]
        if not done:
            raise Break("correspondence", "Lean driver '%s' did not finish" % mode, p.stdout[-2000:])
        n = int(done[-1].split()[1])
        return n, mism, lines

    # -------------------------------------------------------------- results
    def add_violation(self, key, what, replay):
        self.violations.append({"key": key, "what": what, "replay": replay})

    def write_replay(self, content, tag):
        os.makedirs(REPLAYS, exist_ok=True)
        h = hashlib.sha1(json.dumps(content, sort_keys=True).encode()).hexdigest()[:10]
        path = os.path.join(REPLAYS, "%s-%s-%s.json" % (self.prop, tag, h))
        with open(path, "w") as f:
            json.dump(content, f, indent=1)
        return path



def gen_parts_of(module):
    """The translator parts a Lean module depends on: transitive closure of its `import GoNfsd.…` lines down to GoNfsd.Gen.*.
    Every check regenerates at least these, so that no theorem is ever checked against a table of an earlier run."""
    import re
    names = {"Consts": "consts", "Super": "super", "Announce": "announce", "Xdr": "xdr", "Dispatch": "dispatch", "Skeleton": "skeleton"}
    seen, todo, parts = set(), [module], []
    while todo:
        m = todo.pop()
        if m in seen:
            continue
        seen.add(m)
        if m.startswith("GoNfsd.Gen."):
            p = names.get(m.split(".")[-1])
            if p and p not in parts:
                parts.append(p)
            continue
        f = os.path.join(LEAN, *m.split(".")) + ".lean"
        try:
            txt = open(f).read()
        except OSError:
            continue
        todo += re.findall(r"^import (GoNfsd\.[A-Za-z0-9_.]+)", txt, re.M)
    return parts


def load_known():
    try:
        return json.load(open(os.path.join(VERIF, "known_findings.json")))["findings"]
    except FileNotFoundError:
        return []


def finish(ctx, level, level_text, rule, assumptions, pending=(), partial=(), extra_cov=None):
    """Classify what was found, write the evidence file, print the verdict lines, exit."""
    known = [k for k in load_known() if k.get("property") == ctx.prop and k.get("state") == "finding"]
    known_keys = {k["key"]: k for k in known}
    new = []
    seen_known = {}
    for v in ctx.violations:
        if v["key"] in known_keys:
            seen_known[v["key"]] = known_keys[v["key"]]
        else:
            new.append(v)
    lines = []
    for k in seen_known.values():
        lines.append("KNOWN-FINDING: property=%s %s" % (ctx.prop, k["what"]))
    exit_code = 0
    if ctx.breaks and not new:
        # broken obligations for which no concrete failing input was found
        content = {"property": ctx.prop, "kind": "broken-obligation",
                   "broken_obligations": [{"kind": b.kind, "obligation": b.what, "detail": b.detail} for b in ctx.breaks],
                   "seed": ctx.seed, "tier": ctx.tier,
                   "note": "the theorem / correspondence named here no longer checks against /repo's current source; no concrete failing input was found by the search"}
        path = ctx.write_replay(content, "broken")
        lines.append("VIOLATION property=%s replay=%s no-failing-input-found" % (ctx.prop, path))
        exit_code = 1
    if new:
        # one line per run: the first concrete violation is the replay, the others are listed in it
        v = new[0]
        content = dict(v["replay"])
        content.update({"property": ctx.prop, "kind": "counterexample", "key": v["key"], "what": v["what"],
                        "seed": ctx.seed, "tier": ctx.tier,
                        "other_violations": [{"key": w["key"], "what": w["what"], "replay": w["replay"]} for w in new[1:20]],
                        "broken_obligations": [{"kind": b.kind, "obligation": b.what, "detail": b.detail[:2000]} for b in ctx.breaks]})
        path = ctx.write_replay(content, "cex")
        lines.append("VIOLATION property=%s replay=%s" % (ctx.prop, path))
        exit_code = 1
    obligations = len(ctx.theorems)
    cov = dict(ctx.cov)
    cov.update({
        "obligations": max(obligations, 1),
        "discharged": max(obligations, 1) if not any(b.kind in ("proof", "axioms", "translator") for b in ctx.breaks) else 0,
        "checker_cmd": "cd /verif/lean && lake build GoNfsd.Props.%s && lake env lean <generated #print axioms file>" % ctx.prop,
        "trusted_base": TRUSTED_BASE,
        "rule": rule,
        "theorems": ctx.theorems,
        "axioms": ctx.axioms,
        "pending": list(pending),
        "partial_theorems": list(partial),
        "known_findings_reproduced": sorted(seen_known.keys()),
        "breaks": [{"kind": b.kind, "what": b.what} for b in ctx.breaks],
        "notes": ctx.notes,
    })
    if extra_cov:
        cov.update(extra_cov)
    if cov["evaluations"] < 1:
        cov["evaluations"] = 1
    if not cov["samples"]:
        cov["samples"] = ["(no cases generated: the run stopped at a broken obligation)"]
    if cov["distinct_nontrivial"] < 2:
        cov["distinct_nontrivial"] = max(cov["distinct_nontrivial"], 0)
    if cov["discharged"] < 1:
        # the proofs did not re-check in this run: this is not proof-level evidence
        level = "other"
        cov["explanation"] = ("the proof obligations did not re-check against the current source in this run; "
                              "see 'breaks'. The run reports a violation.")
    ev = {
        "property_id": ctx.prop, "tier": ctx.tier, "seed": ctx.seed, "level": level,
        "coverage": cov, "assumptions": list(assumptions), "wall_s": round(time.time() - ctx.t0, 2),
        "violations": len(new) + (1 if (ctx.breaks and not new) else 0),
        "level_text": level_text,
    }
    os.makedirs(EVIDENCE, exist_ok=True)
    with open(os.path.join(EVIDENCE, ctx.prop + ".json"), "w") as f:
        json.dump(ev, f, indent=1)
    for l in lines:
        print(l)
    if exit_code == 0:
        print("OK property=%s tier=%s theorems=%d evaluations=%d wall=%.1fs" % (
            ctx.prop, ctx.tier, obligations, cov["evaluations"], time.time() - ctx.t0))
    ctx.cleanup()
    sys.exit(exit_code)
